#!/bin/bash
# usage: seed_run_par.sh <seeded dir> <prop> [prop...]
# like seed_run.sh, but applies the patch in a scratch worktree of /repo HEAD and points the check at it (VERIF_REPO), so several
# seeds can be run side by side without touching /repo.  Evidence and replays of these runs are scratch output (evidence is
# restored by the caller with `git checkout -- evidence`).
S=$(realpath $1); shift
cd /verif
W=/tmp/wt/par_$(basename $S)_$$
git -C /repo worktree add -q --detach $W HEAD || exit 9
trap 'git -C /repo worktree remove --force $W >/dev/null 2>&1; rm -rf $W' EXIT
git -C $W apply $S/patch.diff || { echo "APPLY-FAIL $S"; exit 8; }
for p in "$@"; do
  out=$(VERIF_REPO=$W ./vcheck $p 2>&1)
  n=$(echo "$out" | grep -c "^VIOLATION")
  echo "SEED $(basename $S) check=$p violations=$n :: $(echo "$out" | grep -v "^FRONTEND-VALIDATION\|^ENGINE-VALIDATION\|^  " | tail -1)"
  echo "$out" | grep -A1 "^VIOLATION" | grep "^  " | head -4 | cut -c1-230
done
