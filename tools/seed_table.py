#!/usr/bin/env python3
"""writes seeded/RESULTS.md and the detected_by entry of every seeded/*/meta.json from the output of tools/seed_run.sh
usage: seed_table.py <file with SEED lines>"""
import json, os, re, sys, glob
V = os.path.dirname(os.path.dirname(os.path.abspath(__file__)))
res = {}
for ln in open(sys.argv[1]):
    m = re.match(r'SEED (\S+) check=(\S+) violations=(\d+) :: (.*)', ln)
    if m:
        res[m.group(1)] = (m.group(2), int(m.group(3)), m.group(4).strip())
    m = re.match(r'APPLY-FAIL .*/(\S+)$', ln.strip())
    if m:
        res[m.group(1)] = ('-', None, 'patch does not apply to /repo HEAD')
rows = []
for d in sorted(glob.glob(os.path.join(V, 'seeded', 'C*'))):
    name = os.path.basename(d)
    mp = os.path.join(d, 'meta.json')
    if not os.path.exists(mp):
        continue
    meta = json.load(open(mp))
    status = meta.get('status', 'valid')
    if name in res:
        chk, n, line = res[name]
        if status != 'neutralised':
            meta['status'] = status = 'valid'
            meta['detected_by'] = {'check': chk, 'violations_reported': n, 'command': 'tools/seed_run.sh seeded/%s %s' % (name, chk)}
        meta.setdefault('confirmed', {'how': 'tools/seed_confirm.sh: scratch worktree of /repo HEAD, git apply, go build ./..., go test -vet=off -count=1 ./... (suite passes), demo/RUN.txt fails with the patch and passes without'})
        json.dump(meta, open(mp, 'w'), indent=1)
    det = meta.get('detected_by', {})
    note = meta.get('note', '') or meta.get('note_rebase', '')
    rows.append('| %s | %s | %s | %s | %s | %s |' % (name, status, det.get('check', '-'), det.get('violations_reported'), (meta.get('summary') or '').replace('|', '/').replace('\n', ' ')[:110], note.replace('|', '/')))
out = ['# Seeded changes and the checks that catch them', '',
       'Each directory holds patch.diff (against /repo HEAD), demo/ and meta.json. `tools/seed_confirm.sh <dir>` re-confirms a change, `tools/seed_run.sh <dir> <Cxx>` applies it to /repo, runs the check and undoes it.',
       'Directories `Cxx_mN` are from the first seeding round, `Cxx_rKmN` from round K (2..6). The VIOLATION counts are from the last run of each seed against the checks (rounds 1-4: full regression at the end of round 4; later rounds: the run recorded in the round).', '',
       '| seed | status | check | VIOLATION lines | what the change does | note |', '|---|---|---|---|---|---|'] + rows
valid = [r for r in rows if '| valid |' in r]
missed = [r for r in valid if re.search(r'\| (0|None) \|', r)]
out += ['', '%d seeds, %d valid on the current /repo HEAD, %d of them reported by the check of their property.' % (len(rows), len(valid), len(valid) - len(missed))]
open(os.path.join(V, 'seeded', 'RESULTS.md'), 'w').write('\n'.join(out) + '\n')
print(out[-1])
for r in missed:
    print('MISSED', r[:80])
