#!/usr/bin/env python3
"""regenerates /verif/MANIFEST.json from the table below (kept in one place so that it stays valid)"""
import json, os
V = os.path.dirname(os.path.dirname(os.path.abspath(__file__)))
props = [json.loads(l) for l in open(os.path.join(V, 'properties.jsonl'))]
A_TEXT = ('Bounded translation validation of the emitted {what}: fin-protoc is built from /repo and run on a systematic family of DSL programs; each emitted file is '
          'lowered by the target language\'s own compiler (go/ssa, rustc MIR, javac+javap bytecode, clang JSON AST, python ast) and executed symbolically over a full-width '
          'symbolic message per (program, packet, shape); z3 decides each obligation against a reference wire semantics for every value inside the stated bounds '
          '(string/list lengths, nesting, program family). A sat model is a concrete counterexample message.')
A_NOTE = ('Trusted: the runtime contract in runtimes/ (the codec runtimes are not in the repository), the five symbolic front-ends and the reference semantics symv/ref.py; '
          'value domain and bounds are listed in the evidence. Outside the bounds nothing is claimed. The front-ends are validated on every run of C01 against the real thing: '
          'for a sample of programs (all of them in the thorough tier) the emitted code is compiled and run natively with the reference runtimes (Python, Go, Java: encode and '
          'decode+re-encode; Rust, C++: decode+re-encode) on a pseudo-random concrete message and must produce the bytes the front-end computed; counterexamples of the Python, Go '
          'and Java encoders are replayed natively before they are reported, and for every language the first findings are checked for front-end faithfulness (the reference bytes of the '
          'counterexample are decoded and re-encoded by the front-end and by the natively compiled emitted code; both must agree): a counterexample the native run does not reproduce is '
          'printed as UNCONFIRMED, never as a violation. Programs whose emitted files depend on map iteration order (two packets sharing one output file name) carry no claim.')
B_NOTE = ('Trusted: the go/ssa interpreter symv/gossa.py and its standard-library intrinsics, environment stubs listed in the evidence. The interpreter is validated on every run: '
          'what it computes on its default path (formatter output, visitor diagnostics, generated files) is compared with the real code run natively on the same text '
          '(ENGINE-VALIDATION line, evidence.coverage.engine_validation); a disagreement is reported as inconclusive, never as a violation. '
          'The ANTLR lexer/ATN engine is outside the encoding: parse trees are taken from the real parser.')
CHECKS = {
    'C01': ('translation_validation', A_TEXT.format(what='encoders against the declared wire layout'), A_NOTE, 'symbolic execution of emitted encoders (5 languages) + z3 equivalence with reference layout', '5 C01'),
    'C02': ('translation_validation', A_TEXT.format(what='decoders on canonical encodings plus symbolic trailing bytes (values, read position, re-encoding)'), A_NOTE, 'symbolic execution of emitted decoders + z3', '5 C02'),
    'C03': ('translation_validation', A_TEXT.format(what='codecs pairwise across languages (encoder/encoder equality, every decoder on every language\'s bytes), the reference is not in the loop'), A_NOTE, 'pairwise z3 equivalence of symbolic summaries of the five emitted codecs', '5 C03'),
    'C04': ('translation_validation', A_TEXT.format(what='length-of back-patching with an arbitrary caller-supplied length value'), A_NOTE, 'symbolic execution of emitted encoders/decoders on the length-of family + z3', '5 C04'),
    'C05': ('translation_validation', A_TEXT.format(what='match dispatch with the key symbolic over its whole type: every decode path is checked against the DSL table, unmapped keys must end in a reported error'), A_NOTE, 'symbolic key, path enumeration with solver-decided feasibility, validity queries against the DSL table', '5 C05'),
    'C06': ('translation_validation', A_TEXT.format(what='checksum fields with the algorithm as an uninterpreted function of the written prefix, registered and unregistered'), A_NOTE, 'symbolic execution with uninterpreted checksum function + z3', '5 C06'),
    'C07': ('translation_validation', 'Validity gate: every emitted file is compiled by the target language\'s own front end against the runtime API (a reject while fin-protoc exited 0 is the violation); completeness by solver: for each declared field an influence query (two messages differing only in that field with equal encodings must be unsat) and member presence in the lowered types. ' + 'All six targets: the Lua script is judged by the Lua front-end of C15 (parse + scope resolution). In the dispatch family every declared match key must have its decode step (the queries of C05 under C07).', A_NOTE + ' The validity gate itself is compilation, not a solver verdict; the evidence separates the two.', 'target compilers as validity gate + z3 influence queries on symbolic encoder summaries', '5 C07'),
}
m = {
    'version': 1,
    'setup_cmd': 'cd /verif && sh tools/setup.sh',
    'hooks': {'guard': 'verif', 'enable': 'none: harnesses are injected with go/packages overlays (virtual zz_verif_*.go files); no hook code lives in /repo',
              'baseline_off_cmd': 'cd /repo && GOFLAGS=-mod=mod GOPROXY=off go test -json -vet=off -count=1 -timeout 25m ./...', 'source_commits': [], 'add_only': True},
    'engines': [
        {'name': 'symcodec', 'path': 'symv/checks_a.py', 'serves_properties': ['C01', 'C02', 'C03', 'C04', 'C05', 'C06', 'C07', 'C15'], 'kind_free_text': 'symbolic execution of emitted code per target language (IR from the target compilers) + z3'},
        {'name': 'symgo', 'path': 'symv/checks_b.py', 'serves_properties': ['C08', 'C09', 'C10', 'C11', 'C12', 'C13', 'C14', 'C16'], 'kind_free_text': 'go/ssa of /repo dumped by tools/ssajson, interpreted symbolically (symbolic parse trees, map orders, environment stubs) + z3'},
    ],
    'checks': [], 'not_applicable': [],
    'notes': 'All commands rebuild from /repo\'s working tree; lowered IR is cached under /verif/.cache/<hash of /repo sources>. KNOWN-FINDING lines refer to known_findings.json.',
}
extra = json.load(open(os.path.join(V, 'tools', 'manifest_extra.json'))) if os.path.exists(os.path.join(V, 'tools', 'manifest_extra.json')) else {}
for k, v in extra.get('checks', {}).items():
    CHECKS[k] = tuple(v)
NA = extra.get('not_applicable', {})
for p in props:
    i = p['id']
    if i in CHECKS:
        cat, text, note, tech, ref = CHECKS[i]
        m['checks'].append({'property_id': i, 'quick_cmd': './vcheck %s --tier quick' % i, 'thorough_cmd': './vcheck %s --tier thorough' % i,
                            'evidence_file': '/verif/evidence/%s.json' % i, 'replay_cmd_template': './vcheck %s --replay {path}' % i,
                            'engine': 'symcodec' if i <= 'C07' or i == 'C15' else 'symgo',
                            'level_claimed': {'category': cat, 'text': text, 'design_ref': 'DESIGN.md section ' + ref}, 'level_note': note, 'technique': tech})
    else:
        m['not_applicable'].append({'property_id': i, 'reason': NA.get(i, 'check not built yet (build in progress; DESIGN.md section 11)')})
json.dump(m, open(os.path.join(V, 'MANIFEST.json'), 'w'), indent=1)
print('checks', [c['property_id'] for c in m['checks']], 'n/a', [c['property_id'] for c in m['not_applicable']])
