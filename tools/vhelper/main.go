// vhelper: native companion of the symbolic SSA engine (pipeline B).  It is compiled
// INTO the fin-protoc module by `go build -overlay` as the virtual package
// /repo/internal/zz_verif_helper (nothing is written to /repo), so that it can import
// the internal packages.  Modes:
//
//	dump  – lex+parse every input text with the real ANTLR lexer/parser and dump the
//	        parse tree and token stream as a heap snapshot (JSON) the engine loads;
//	run   – run the real visitor / generators / formatter natively on every text and
//	        report diagnostics, recovered panics, file maps and formatter output:
//	        used to validate the engine (differential self-test) and to replay
//	        counterexamples before they are reported.
package main

import (
	"bufio"
	"crypto/sha1"
	"encoding/hex"
	"encoding/json"
	"fmt"
	"os"
	"reflect"
	"runtime/debug"
	"sort"
	"strings"
	"syscall"
	"unsafe"

	"github.com/antlr4-go/antlr/v4"
	gen "github.com/xinchentechnote/fin-protoc/internal/grammar"
	"github.com/xinchentechnote/fin-protoc/internal/model"
	"github.com/xinchentechnote/fin-protoc/internal/parser"
)

// ---------------------------------------------------------------------------- heap snapshot

type Obj struct {
	ID     int    `json:"id"`
	Type   string `json:"type"`             // type of the pointee (struct) / slice
	Fields []any  `json:"fields,omitempty"` // struct: one value per field
	Items  []any  `json:"items,omitempty"`  // slice backing
}

// value encodings: int/bool/string literal; {"p":id} pointer; {"i":typestring,"v":value} interface;
// {"s":id,"len":n} slice; null nil; {"stub":typestring} opaque pointer that is not descended into
type snap struct {
	objs  []*Obj
	ids   map[unsafe.Pointer]int
	allow func(t reflect.Type) bool
}

func typeString(t reflect.Type) string {
	switch t.Kind() {
	case reflect.Ptr:
		return "*" + typeString(t.Elem())
	case reflect.Slice:
		return "[]" + typeString(t.Elem())
	case reflect.Array:
		return fmt.Sprintf("[%d]%s", t.Len(), typeString(t.Elem()))
	case reflect.Map:
		return "map[" + typeString(t.Key()) + "]" + typeString(t.Elem())
	}
	if t.PkgPath() != "" && t.Name() != "" {
		return t.PkgPath() + "." + t.Name()
	}
	if t.Name() != "" {
		return t.Name()
	}
	return t.String()
}

func (s *snap) val(v reflect.Value) any {
	switch v.Kind() {
	case reflect.Bool:
		return v.Bool()
	case reflect.Int, reflect.Int8, reflect.Int16, reflect.Int32, reflect.Int64:
		return v.Int()
	case reflect.Uint, reflect.Uint8, reflect.Uint16, reflect.Uint32, reflect.Uint64, reflect.Uintptr:
		return v.Uint()
	case reflect.String:
		return map[string]any{"str": v.String()}
	case reflect.Ptr:
		if v.IsNil() {
			return nil
		}
		et := v.Type().Elem()
		if et.Kind() != reflect.Struct || !s.allow(et) {
			return map[string]any{"stub": typeString(v.Type())}
		}
		return map[string]any{"p": s.obj(v)}
	case reflect.Interface:
		if v.IsNil() {
			return nil
		}
		e := v.Elem()
		return map[string]any{"i": typeString(e.Type()), "v": s.val(e)}
	case reflect.Slice:
		if v.IsNil() {
			return nil
		}
		id := len(s.objs) + 1
		o := &Obj{ID: id, Type: typeString(v.Type())}
		s.objs = append(s.objs, o)
		for i := 0; i < v.Len(); i++ {
			o.Items = append(o.Items, s.val(v.Index(i)))
		}
		return map[string]any{"s": id, "len": v.Len()}
	case reflect.Struct:
		var fs []any
		for i := 0; i < v.NumField(); i++ {
			fs = append(fs, s.val(field(v, i)))
		}
		return map[string]any{"struct": fs}
	case reflect.Map:
		if v.IsNil() {
			return nil
		}
		return map[string]any{"emptymap": typeString(v.Type())}
	case reflect.Func, reflect.Chan, reflect.UnsafePointer:
		return nil
	}
	return nil
}

func field(v reflect.Value, i int) reflect.Value {
	f := v.Field(i)
	if f.CanInterface() {
		return f
	}
	if f.CanAddr() {
		return reflect.NewAt(f.Type(), unsafe.Pointer(f.UnsafeAddr())).Elem()
	}
	// copy to addressable
	c := reflect.New(v.Type()).Elem()
	c.Set(v)
	f = c.Field(i)
	return reflect.NewAt(f.Type(), unsafe.Pointer(f.UnsafeAddr())).Elem()
}

func (s *snap) obj(p reflect.Value) int {
	ptr := unsafe.Pointer(p.Pointer())
	if id, ok := s.ids[ptr]; ok {
		return id
	}
	id := len(s.objs) + 1
	s.ids[ptr] = id
	o := &Obj{ID: id, Type: typeString(p.Type().Elem())}
	s.objs = append(s.objs, o)
	e := p.Elem()
	for i := 0; i < e.NumField(); i++ {
		o.Fields = append(o.Fields, s.val(field(e, i)))
	}
	return id
}

func allowType(t reflect.Type) bool {
	pp := t.PkgPath()
	if strings.HasSuffix(pp, "/internal/grammar") {
		return strings.HasSuffix(t.Name(), "Context")
	}
	if pp == "github.com/antlr4-go/antlr/v4" {
		switch t.Name() {
		case "BaseParserRuleContext", "TerminalNodeImpl", "ErrorNodeImpl", "CommonToken", "BaseToken", "TokenSourceCharStreamPair", "InputStream", "CommonTokenStream":
			return true
		}
	}
	return false
}

type DumpOut struct {
	SyntaxErrors []model.SyntaxError `json:"syntax_errors"`
	Tree         any                 `json:"tree"`
	Stream       any                 `json:"stream"`
	Objs         []*Obj              `json:"objs"`
	Panic        string              `json:"panic,omitempty"`
}

func dumpOne(text string, viaFile bool) (out DumpOut) {
	defer func() {
		if r := recover(); r != nil {
			out = DumpOut{Panic: fmt.Sprint(r)}
		}
	}()
	var p *gen.PacketDslParser
	var stream *antlr.CommonTokenStream
	if viaFile {
		// the way the CLI reads a DSL: through the repository's own file reader
		f, err := os.CreateTemp("", "zzverif*.dsl")
		if err != nil {
			return DumpOut{Panic: "helper: " + err.Error()}
		}
		defer os.Remove(f.Name())
		f.WriteString(text)
		f.Close()
		p, stream, err = parser.NewPacketDslParserByFile(f.Name())
		if err != nil {
			return DumpOut{Panic: "NewPacketDslParserByFile: " + err.Error()}
		}
	} else {
		p, stream, _ = parser.NewPacketDslParserByContent(text)
	}
	l := parser.NewSyntaxErrorListener()
	p.RemoveErrorListeners()
	p.AddErrorListener(l)
	tree := p.Packet()
	for _, e := range l.Errors {
		out.SyntaxErrors = append(out.SyntaxErrors, model.SyntaxError{Line: e.Line, Column: e.Column, Msg: e.Msg})
	}
	s := &snap{ids: map[unsafe.Pointer]int{}, allow: allowType}
	out.Tree = s.val(reflect.ValueOf(tree))
	out.Stream = s.val(reflect.ValueOf(stream))
	out.Objs = s.objs
	return out
}

// ---------------------------------------------------------------------------- native runs

type FileSet map[string]string // name -> sha1:len (or content when small / requested)

type GenResult struct {
	Order []string           `json:"order"`
	Files map[string]FileSet `json:"files"` // generator -> files
	Err   map[string]string  `json:"err,omitempty"`
	Panic string             `json:"panic,omitempty"`
}

type RunOut struct {
	ParseErrors []string    `json:"parse_errors"`
	ModelErrors [][]any     `json:"model_errors"` // [line, column, msg]
	Panic       string      `json:"panic,omitempty"`
	ModelDigest string      `json:"model_digest,omitempty"` // position-free, map-order-free print of the visited model
	Stdout      string      `json:"stdout,omitempty"`
	Gens        []GenResult `json:"gens,omitempty"`
	Format      string      `json:"format"`
	FormatErr   string      `json:"format_err,omitempty"`
	FormatPanic string      `json:"format_panic,omitempty"`
	Format2     string      `json:"format2"`
	Format2Err  string      `json:"format2_err,omitempty"`
}

type RunIn struct {
	Texts   []string   `json:"texts"`
	Orders  [][]string `json:"orders"`
	Content bool       `json:"content"`
	Format  bool       `json:"format"`
	Visit   bool       `json:"visit"`
}

func digest(b []byte, content bool) string {
	if content {
		return string(b)
	}
	h := sha1.Sum(b)
	return fmt.Sprintf("%s:%d", hex.EncodeToString(h[:8]), len(b))
}

func genFor(name string, m *model.BinaryModel) parser.Generator {
	switch name {
	case "lua":
		return parser.NewLuaWspGenerator(m)
	case "rust":
		return parser.NewRustGenerator(m)
	case "go":
		return parser.NewGoGenerator(m)
	case "java":
		return parser.NewJavaGenerator(m)
	case "python":
		return parser.NewPythonGenerator(m)
	case "cpp":
		return parser.NewCppGenerator(m)
	}
	return nil
}

func parseModel(text string) (m *model.BinaryModel, perrs []string, pan string) {
	defer func() {
		if r := recover(); r != nil {
			pan = panicSite(r)
		}
	}()
	p, _, _ := parser.NewPacketDslParserByContent(text)
	l := parser.NewSyntaxErrorListener()
	p.RemoveErrorListeners()
	p.AddErrorListener(l)
	tree := p.Packet()
	if l.HasErrors() {
		for _, e := range l.Errors {
			perrs = append(perrs, fmt.Sprintf("%d:%d %s", e.Line, e.Column, e.Msg))
		}
		return nil, perrs, ""
	}
	v := parser.NewPacketDslVisitor()
	res := tree.Accept(v)
	m, _ = res.(*model.BinaryModel)
	return m, nil, ""
}

func panicSite(r any) string {
	st := string(debug.Stack())
	site := ""
	for _, ln := range strings.Split(st, "\n") {
		ln = strings.TrimSpace(ln)
		if strings.Contains(ln, "/internal/") && strings.Contains(ln, ".go:") && !strings.Contains(ln, "zz_verif") {
			site = ln
			if i := strings.Index(site, " +0x"); i > 0 {
				site = site[:i]
			}
			if i := strings.LastIndex(site, "/internal/"); i >= 0 {
				site = site[i+1:]
			}
			break
		}
	}
	return fmt.Sprintf("%v @%s", r, site)
}

func runGens(text string, order []string, content bool) (gr GenResult) {
	gr.Order = order
	gr.Files = map[string]FileSet{}
	gr.Err = map[string]string{}
	m, perrs, pan := parseModel(text)
	if pan != "" || m == nil || len(perrs) > 0 || len(m.SyntaxErrors) > 0 {
		gr.Panic = pan
		return
	}
	for _, g := range order {
		func() {
			defer func() {
				if r := recover(); r != nil {
					gr.Panic = g + ": " + panicSite(r)
				}
			}()
			files, err := genFor(g, m).Generate(m)
			if err != nil {
				gr.Err[g] = err.Error()
				return
			}
			fs := FileSet{}
			for k, v := range files {
				fs[k] = digest(v, content)
			}
			gr.Files[g] = fs
		}()
		if gr.Panic != "" {
			return
		}
	}
	return
}

// modelPrint writes a canonical print of the model: source positions (Line, Column) are left out, maps are printed
// in key order, a pointer met again is printed as a back reference.  Two texts with the same print hand the
// generators the same model, so their outputs have the same distribution whatever the map iteration orders.
func modelPrint(b *strings.Builder, v reflect.Value, seen map[uintptr]int) {
	switch v.Kind() {
	case reflect.Ptr:
		if v.IsNil() {
			b.WriteString("nil")
			return
		}
		if n, ok := seen[v.Pointer()]; ok {
			fmt.Fprintf(b, "^%d", n)
			return
		}
		seen[v.Pointer()] = len(seen)
		fmt.Fprintf(b, "&%d", len(seen)-1)
		modelPrint(b, v.Elem(), seen)
	case reflect.Interface:
		if v.IsNil() {
			b.WriteString("nil")
			return
		}
		b.WriteString(v.Elem().Type().String())
		modelPrint(b, v.Elem(), seen)
	case reflect.Struct:
		b.WriteString("{")
		for i := 0; i < v.NumField(); i++ {
			n := v.Type().Field(i).Name
			if n == "Line" || n == "Column" {
				continue
			}
			b.WriteString(n + ":")
			modelPrint(b, v.Field(i), seen)
			b.WriteString(";")
		}
		b.WriteString("}")
	case reflect.Slice, reflect.Array:
		b.WriteString("[")
		for i := 0; i < v.Len(); i++ {
			modelPrint(b, v.Index(i), seen)
			b.WriteString(",")
		}
		b.WriteString("]")
	case reflect.Map:
		keys := v.MapKeys()
		sort.Slice(keys, func(i, j int) bool { return fmt.Sprint(keys[i]) < fmt.Sprint(keys[j]) })
		b.WriteString("map[")
		for _, k := range keys {
			fmt.Fprintf(b, "%v=", k)
			modelPrint(b, v.MapIndex(k), seen)
			b.WriteString(",")
		}
		b.WriteString("]")
	case reflect.String:
		fmt.Fprintf(b, "%q", v.String())
	case reflect.Bool:
		fmt.Fprintf(b, "%v", v.Bool())
	case reflect.Int, reflect.Int8, reflect.Int16, reflect.Int32, reflect.Int64:
		fmt.Fprintf(b, "%d", v.Int())
	case reflect.Uint, reflect.Uint8, reflect.Uint16, reflect.Uint32, reflect.Uint64:
		fmt.Fprintf(b, "%d", v.Uint())
	default:
		fmt.Fprintf(b, "<%s>", v.Kind())
	}
}

func runOne(in *RunIn, text string) (out RunOut) {
	if in.Visit {
		m, perrs, pan := parseModel(text)
		out.ParseErrors = perrs
		out.Panic = pan
		if m != nil && pan == "" {
			func() {
				defer func() {
					if r := recover(); r != nil {
						out.ModelDigest = ""
					}
				}()
				var b strings.Builder
				mv := reflect.ValueOf(m).Elem()
				seen := map[uintptr]int{}
				for i := 0; i < mv.NumField(); i++ {
					if mv.Type().Field(i).Name == "SyntaxErrors" || !mv.Type().Field(i).IsExported() {
						continue
					}
					b.WriteString(mv.Type().Field(i).Name + ":")
					modelPrint(&b, mv.Field(i), seen)
					b.WriteString("\n")
				}
				h := sha1.Sum([]byte(b.String()))
				out.ModelDigest = hex.EncodeToString(h[:10])
			}()
		}
		if m != nil {
			for _, e := range m.SyntaxErrors {
				out.ModelErrors = append(out.ModelErrors, []any{e.Line, e.Column, e.Msg})
			}
		}
	}
	for _, o := range in.Orders {
		out.Gens = append(out.Gens, runGens(text, o, in.Content))
	}
	if in.Format {
		func() {
			defer func() {
				if r := recover(); r != nil {
					out.FormatPanic = panicSite(r)
				}
			}()
			s, err := parser.FormatPacketDsl(text)
			out.Format = s
			if err != nil {
				out.FormatErr = err.Error()
				return
			}
			s2, err2 := parser.FormatPacketDsl(s)
			out.Format2 = s2
			if err2 != nil {
				out.Format2Err = err2.Error()
			}
		}()
	}
	return
}

func main() {
	mode := "dump"
	if len(os.Args) > 1 {
		mode = os.Args[1]
	}
	rd := bufio.NewReaderSize(os.Stdin, 1<<20)
	dec := json.NewDecoder(rd)
	// the visitor prints debug lines on stdout: keep our protocol on a duplicate of the real stdout
	realOut := os.NewFile(uintptr(dupStdout()), "realstdout")
	w := bufio.NewWriter(realOut)
	defer w.Flush()
	enc := json.NewEncoder(w)
	switch mode {
	case "dump":
		var in struct {
			Texts   []string `json:"texts"`
			ViaFile bool     `json:"via_file"`
		}
		if err := dec.Decode(&in); err != nil {
			fmt.Fprintln(os.Stderr, err)
			os.Exit(2)
		}
		for _, t := range in.Texts {
			enc.Encode(dumpOne(t, in.ViaFile))
		}
	case "run":
		var in RunIn
		if err := dec.Decode(&in); err != nil {
			fmt.Fprintln(os.Stderr, err)
			os.Exit(2)
		}
		for _, t := range in.Texts {
			enc.Encode(runOne(&in, t))
		}
	case "options":
		// documented option table as the implementation has it (used only for reporting)
		keys := []string{}
		_ = keys
		sort.Strings(keys)
	}
}

func dupStdout() int {
	fd, err := syscall.Dup(1)
	if err != nil {
		panic(err)
	}
	null, err := os.OpenFile("/dev/null", os.O_WRONLY, 0)
	if err == nil {
		os.Stdout = null
	}
	return fd
}
