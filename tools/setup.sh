#!/bin/sh
# builds the framework from files on disk only (offline)
set -e
cd "$(dirname "$0")/.."
unset GOSUMDB GOTOOLCHAIN
export GOFLAGS=-mod=mod GOPROXY=off
mkdir -p bin evidence
(cd tools/ssajson && go build -o ../../bin/ssajson .)
python3-vt -c "import z3; print('z3', z3.get_version_string())"
echo setup-ok
