// ssajson: load Go packages (optionally with overlay files), build go/ssa for them and
// dump the functions reachable from the roots, the types they mention and their method
// sets as JSON for the Python symbolic SSA interpreter (symv/gossa.py).
package main

import (
	"encoding/json"
	"flag"
	"fmt"
	"go/constant"
	"go/token"
	"go/types"
	"os"
	"sort"
	"strings"

	"golang.org/x/tools/go/packages"
	"golang.org/x/tools/go/ssa"
)

type TypeJ struct {
	ID       int               `json:"id"`
	Kind     string            `json:"kind"`
	Name     string            `json:"name,omitempty"`
	Str      string            `json:"str"`
	Under    int               `json:"under,omitempty"`
	Elem     int               `json:"elem,omitempty"`
	Key      int               `json:"key,omitempty"`
	Len      int64             `json:"len,omitempty"`
	Basic    string            `json:"basic,omitempty"`
	Fields   []FieldJ          `json:"fields,omitempty"`
	Methods  map[string]string `json:"methods,omitempty"`  // method set of *T
	VMethods map[string]string `json:"vmethods,omitempty"` // method set of T
	IMeths   []string          `json:"imeths,omitempty"`
	Tuple    []int             `json:"tuple,omitempty"`
	TArgs    []int             `json:"targs,omitempty"`
}
type FieldJ struct {
	Name     string `json:"name"`
	Type     int    `json:"type"`
	Embedded bool   `json:"embedded,omitempty"`
}
type ValJ struct {
	K   string `json:"k"` // reg, const, global, func, builtin, none
	N   string `json:"n,omitempty"`
	T   int    `json:"t"`
	C   any    `json:"c,omitempty"`
	Nil bool   `json:"nil,omitempty"`
}
type InstrJ struct {
	Op    string `json:"op"`
	Reg   string `json:"reg,omitempty"`
	T     int    `json:"t,omitempty"`
	Args  []ValJ `json:"args,omitempty"`
	Sub   string `json:"sub,omitempty"`
	Idx   int    `json:"idx,omitempty"`
	Flag  bool   `json:"flag,omitempty"`
	Succs []int  `json:"succs,omitempty"`
	AT    int    `json:"at,omitempty"`
	Pos   string `json:"pos,omitempty"`
	Edges []int  `json:"edges,omitempty"`
}
type BlockJ struct {
	Idx    int      `json:"idx"`
	Instrs []InstrJ `json:"instrs"`
}
type FuncJ struct {
	ID      string   `json:"id"`
	Pkg     string   `json:"pkg,omitempty"`
	Name    string   `json:"name"`
	Params  []ValJ   `json:"params"`
	Free    []ValJ   `json:"free"`
	Blocks  []BlockJ `json:"blocks"`
	Sig     int      `json:"sig"`
	Synth   string   `json:"synth,omitempty"`
	NRes    int      `json:"nres"`
	Recover int      `json:"recover"`
	TArgs   []int    `json:"targs,omitempty"`
	Pos     string   `json:"pos,omitempty"`
}
type GlobalJ struct {
	ID string `json:"id"`
	T  int    `json:"t"`
}
type PkgErrJ struct {
	Pkg  string `json:"pkg"`
	Msg  string `json:"msg"`
	Pos  string `json:"pos"`
	Soft bool   `json:"soft"`
}
type Out struct {
	Types   []*TypeJ            `json:"types"`
	Funcs   []*FuncJ            `json:"funcs"`
	Globals []GlobalJ           `json:"globals"`
	Inits   map[string]string   `json:"inits"` // package path -> init func id
	Extern  []string            `json:"extern"`
	Errors  []PkgErrJ           `json:"errors"`
	Pkgs    []string            `json:"pkgs"`
	Members map[string][]string `json:"members"` // package path -> function ids (package-level funcs and methods)
}

type dumper struct {
	prog   *ssa.Program
	out    Out
	tids   map[string]int
	funcs  map[*ssa.Function]bool
	work   []*ssa.Function
	stop   func(string) bool
	globs  map[*ssa.Global]bool
	extern map[string]bool
	msq    []msItem
}
type msItem struct {
	tj *TypeJ
	tt types.Type
}

func (d *dumper) tid(t types.Type) int {
	if t == nil {
		return 0
	}
	t = types.Unalias(t)
	key := types.TypeString(t, nil)
	if id, ok := d.tids[key]; ok {
		return id
	}
	id := len(d.out.Types) + 1
	d.tids[key] = id
	tj := &TypeJ{ID: id, Str: key}
	d.out.Types = append(d.out.Types, tj)
	switch tt := t.(type) {
	case *types.Named:
		tj.Kind = "named"
		tj.Name = tt.Obj().Name()
		if tt.Obj().Pkg() != nil {
			tj.Name = tt.Obj().Pkg().Path() + "." + tt.Obj().Name()
		}
		tj.Under = d.tid(tt.Underlying())
		if ta := tt.TypeArgs(); ta != nil {
			for i := 0; i < ta.Len(); i++ {
				tj.TArgs = append(tj.TArgs, d.tid(ta.At(i)))
			}
		}
		if _, isI := tt.Underlying().(*types.Interface); !isI {
			d.msq = append(d.msq, msItem{tj, tt})
		}
	case *types.Pointer:
		tj.Kind = "ptr"
		tj.Elem = d.tid(tt.Elem())
	case *types.Slice:
		tj.Kind = "slice"
		tj.Elem = d.tid(tt.Elem())
	case *types.Array:
		tj.Kind = "array"
		tj.Elem = d.tid(tt.Elem())
		tj.Len = tt.Len()
	case *types.Map:
		tj.Kind = "map"
		tj.Key = d.tid(tt.Key())
		tj.Elem = d.tid(tt.Elem())
	case *types.Struct:
		tj.Kind = "struct"
		for i := 0; i < tt.NumFields(); i++ {
			f := tt.Field(i)
			tj.Fields = append(tj.Fields, FieldJ{f.Name(), d.tid(f.Type()), f.Embedded()})
		}
		d.msq = append(d.msq, msItem{tj, tt})
	case *types.Interface:
		tj.Kind = "iface"
		for i := 0; i < tt.NumMethods(); i++ {
			tj.IMeths = append(tj.IMeths, tt.Method(i).Name())
		}
	case *types.Basic:
		tj.Kind = "basic"
		tj.Basic = tt.Name()
	case *types.Signature:
		tj.Kind = "func"
	case *types.Tuple:
		tj.Kind = "tuple"
		for i := 0; i < tt.Len(); i++ {
			tj.Tuple = append(tj.Tuple, d.tid(tt.At(i).Type()))
		}
	case *types.Chan:
		tj.Kind = "chan"
		tj.Elem = d.tid(tt.Elem())
	case *types.TypeParam:
		tj.Kind = "typeparam"
	default:
		tj.Kind = fmt.Sprintf("other:%T", t)
	}
	return id
}

func (d *dumper) flushMS() {
	for len(d.msq) > 0 {
		it := d.msq[len(d.msq)-1]
		d.msq = d.msq[:len(d.msq)-1]
		it.tj.Methods = map[string]string{}
		it.tj.VMethods = map[string]string{}
		for pass, recv := range []types.Type{types.NewPointer(it.tt), it.tt} {
			ms := d.prog.MethodSets.MethodSet(recv)
			for i := 0; i < ms.Len(); i++ {
				sel := ms.At(i)
				fn := d.prog.MethodValue(sel)
				if fn != nil {
					if pass == 0 {
						it.tj.Methods[sel.Obj().Name()] = d.fid(fn)
					} else {
						it.tj.VMethods[sel.Obj().Name()] = d.fid(fn)
					}
				}
			}
		}
	}
}

func fnID(fn *ssa.Function) string {
	id := fn.String()
	if fn.Synthetic != "" {
		if strings.HasPrefix(fn.Synthetic, "bound") {
			id = "bound:" + id
		} else if strings.HasPrefix(fn.Synthetic, "thunk") {
			id = "thunk:" + id
		}
	}
	return id
}

func (d *dumper) fid(fn *ssa.Function) string {
	id := fnID(fn)
	if !d.funcs[fn] {
		d.funcs[fn] = true
		if d.stop(id) || fn.Blocks == nil {
			d.extern[id] = true
		} else {
			d.work = append(d.work, fn)
		}
	}
	return id
}

func (d *dumper) val(v ssa.Value) ValJ {
	switch x := v.(type) {
	case *ssa.Const:
		vj := ValJ{K: "const", T: d.tid(x.Type())}
		if x.Value == nil {
			vj.Nil = true
			return vj
		}
		switch x.Value.Kind() {
		case constant.Bool:
			vj.C = constant.BoolVal(x.Value)
		case constant.String:
			vj.C = "s:" + constant.StringVal(x.Value)
		case constant.Int:
			vj.C = "i:" + x.Value.ExactString()
		case constant.Float:
			f, _ := constant.Float64Val(x.Value)
			vj.C = fmt.Sprintf("f:%v", f)
		default:
			vj.C = "x:" + x.Value.ExactString()
		}
		return vj
	case *ssa.Global:
		if !d.globs[x] {
			d.globs[x] = true
			d.out.Globals = append(d.out.Globals, GlobalJ{x.String(), d.tid(x.Type())})
		}
		return ValJ{K: "global", N: x.String(), T: d.tid(x.Type())}
	case *ssa.Function:
		return ValJ{K: "func", N: d.fid(x), T: d.tid(x.Type())}
	case *ssa.Parameter:
		return ValJ{K: "reg", N: "p:" + x.Name(), T: d.tid(x.Type())}
	case *ssa.FreeVar:
		return ValJ{K: "reg", N: "fv:" + x.Name(), T: d.tid(x.Type())}
	case *ssa.Builtin:
		return ValJ{K: "builtin", N: x.Name(), T: 0}
	default:
		return ValJ{K: "reg", N: v.Name(), T: d.tid(v.Type())}
	}
}

func (d *dumper) pos(p token.Pos) string {
	if p == token.NoPos {
		return ""
	}
	pp := d.prog.Fset.Position(p)
	return fmt.Sprintf("%s:%d", pp.Filename, pp.Line)
}

func (d *dumper) dumpFunc(fn *ssa.Function) {
	fj := &FuncJ{ID: fnID(fn), Name: fn.Name(), Sig: d.tid(fn.Signature), Synth: fn.Synthetic, NRes: fn.Signature.Results().Len(), Recover: -1, Pos: d.pos(fn.Pos())}
	if fn.Pkg != nil {
		fj.Pkg = fn.Pkg.Pkg.Path()
	}
	if fn.Recover != nil {
		fj.Recover = fn.Recover.Index
	}
	for _, ta := range fn.TypeArgs() {
		fj.TArgs = append(fj.TArgs, d.tid(ta))
	}
	for _, p := range fn.Params {
		fj.Params = append(fj.Params, d.val(p))
	}
	for _, p := range fn.FreeVars {
		fj.Free = append(fj.Free, d.val(p))
	}
	for _, b := range fn.Blocks {
		bj := BlockJ{Idx: b.Index}
		for _, in := range b.Instrs {
			if _, ok := in.(*ssa.DebugRef); ok {
				continue
			}
			ij := InstrJ{Op: fmt.Sprintf("%T", in)[5:]}
			if v, ok := in.(ssa.Value); ok {
				ij.Reg = v.Name()
				ij.T = d.tid(v.Type())
			}
			ij.Pos = d.pos(in.Pos())
			ops := in.Operands(nil)
			switch x := in.(type) {
			case *ssa.Alloc:
				ij.Flag = x.Heap
				ij.AT = d.tid(x.Type().Underlying().(*types.Pointer).Elem())
			case *ssa.BinOp:
				ij.Sub = x.Op.String()
			case *ssa.UnOp:
				ij.Sub = x.Op.String()
				ij.Flag = x.CommaOk
			case *ssa.Call:
				d.common(&ij, &x.Call)
			case *ssa.Defer:
				d.common(&ij, &x.Call)
			case *ssa.Go:
				d.common(&ij, &x.Call)
			case *ssa.Field:
				ij.Idx = x.Field
			case *ssa.FieldAddr:
				ij.Idx = x.Field
			case *ssa.Extract:
				ij.Idx = x.Index
			case *ssa.TypeAssert:
				ij.AT = d.tid(x.AssertedType)
				ij.Flag = x.CommaOk
			case *ssa.Lookup:
				ij.Flag = x.CommaOk
			case *ssa.Next:
				ij.Flag = x.IsString
			case *ssa.If:
				ij.Succs = []int{b.Succs[0].Index, b.Succs[1].Index}
			case *ssa.Jump:
				ij.Succs = []int{b.Succs[0].Index}
			case *ssa.Phi:
				for _, p := range b.Preds {
					ij.Edges = append(ij.Edges, p.Index)
				}
			case *ssa.MakeClosure:
				ij.Sub = d.fid(x.Fn.(*ssa.Function))
			case *ssa.MakeInterface:
				ij.AT = d.tid(x.X.Type())
			case *ssa.ChangeType, *ssa.Convert, *ssa.ChangeInterface, *ssa.SliceToArrayPointer, *ssa.MultiConvert:
				ij.AT = d.tid((*ops[0]).Type())
			case *ssa.Slice:
				ij.AT = d.tid(x.X.Type())
			case *ssa.IndexAddr:
				ij.AT = d.tid(x.X.Type())
			case *ssa.Range:
				ij.AT = d.tid(x.X.Type())
			case *ssa.Select:
				dirs := []string{}
				for _, st := range x.States {
					if st.Dir == types.SendOnly {
						dirs = append(dirs, "send")
					} else {
						dirs = append(dirs, "recv")
					}
				}
				ij.Sub = strings.Join(dirs, ",")
				ij.Flag = x.Blocking
			}
			if _, isCall := in.(ssa.CallInstruction); !isCall {
				for _, o := range ops {
					if *o == nil {
						ij.Args = append(ij.Args, ValJ{K: "none"})
					} else {
						ij.Args = append(ij.Args, d.val(*o))
					}
				}
			}
			bj.Instrs = append(bj.Instrs, ij)
		}
		fj.Blocks = append(fj.Blocks, bj)
	}
	d.out.Funcs = append(d.out.Funcs, fj)
}

func (d *dumper) common(ij *InstrJ, c *ssa.CallCommon) {
	if c.IsInvoke() {
		ij.Sub = "invoke:" + c.Method.Name()
	} else {
		ij.Sub = "call"
	}
	ij.Args = append(ij.Args, d.val(c.Value))
	for _, a := range c.Args {
		ij.Args = append(ij.Args, d.val(a))
	}
}

func main() {
	dir := flag.String("dir", ".", "directory to load packages from")
	roots := flag.String("roots", "", "comma separated function ids (ssa String())")
	rootpkgs := flag.String("rootpkgs", "", "comma separated package paths all of whose functions/methods are roots")
	initpkgs := flag.String("initpkgs", "", "comma separated package paths whose init is dumped")
	stops := flag.String("stop", "", "comma separated id prefixes not descended into (intrinsics)")
	overlay := flag.String("overlay", "", "JSON file {path: contents-file} of overlay sources")
	tests := flag.Bool("tests", false, "load test files")
	split := flag.Bool("split", false, "write one JSON per root package into the directory given by -o")
	outp := flag.String("o", "out.json", "")
	flag.Parse()
	cfg := &packages.Config{Mode: packages.LoadAllSyntax, Dir: *dir, Tests: *tests}
	if *overlay != "" {
		raw, err := os.ReadFile(*overlay)
		if err != nil {
			panic(err)
		}
		m := map[string]string{}
		if err := json.Unmarshal(raw, &m); err != nil {
			panic(err)
		}
		cfg.Overlay = map[string][]byte{}
		for k, v := range m {
			b, err := os.ReadFile(v)
			if err != nil {
				panic(err)
			}
			cfg.Overlay[k] = b
		}
	}
	pkgs, err := packages.Load(cfg, flag.Args()...)
	if err != nil {
		fmt.Fprintln(os.Stderr, "load:", err)
		os.Exit(2)
	}
	if len(pkgs) == 0 {
		fmt.Fprintln(os.Stderr, "no packages")
		os.Exit(2)
	}
	prog := ssa.NewProgram(pkgs[0].Fset, ssa.InstantiateGenerics)
	seen := map[*packages.Package]bool{}
	d := &dumper{prog: prog, tids: map[string]int{}, funcs: map[*ssa.Function]bool{}, globs: map[*ssa.Global]bool{}, extern: map[string]bool{}}
	d.out.Inits = map[string]string{}
	d.out.Members = map[string][]string{}
	var visit func(p *packages.Package)
	visit = func(p *packages.Package) {
		if seen[p] {
			return
		}
		seen[p] = true
		for _, q := range p.Imports {
			visit(q)
		}
		for _, e := range p.Errors {
			soft := false
			if e.Kind == packages.TypeError {
				// go/types soft errors: unused imports / variables / labels
				if strings.Contains(e.Msg, "imported and not used") || strings.Contains(e.Msg, "declared and not used") || strings.Contains(e.Msg, "declared but not used") || strings.Contains(e.Msg, "label") && strings.Contains(e.Msg, "not used") {
					soft = true
				}
			}
			d.out.Errors = append(d.out.Errors, PkgErrJ{p.PkgPath, e.Msg, e.Pos, soft})
		}
		if p.Types != nil && p.TypesInfo != nil && !hasHard(p) {
			prog.CreatePackage(p.Types, p.Syntax, p.TypesInfo, true)
		}
	}
	for _, p := range pkgs {
		visit(p)
		d.out.Pkgs = append(d.out.Pkgs, p.PkgPath)
	}
	prog.Build()
	sp := strings.Split(*stops, ",")
	errs := d.out.Errors
	pkgList := d.out.Pkgs
	if *split {
		os.MkdirAll(*outp, 0755)
		for _, rp := range strings.Split(*rootpkgs, ",") {
			if rp == "" {
				continue
			}
			dd := &dumper{prog: prog, tids: map[string]int{}, funcs: map[*ssa.Function]bool{}, globs: map[*ssa.Global]bool{}, extern: map[string]bool{}}
			dd.out.Inits = map[string]string{}
			dd.out.Members = map[string][]string{}
			for _, e := range errs {
				if e.Pkg == rp {
					dd.out.Errors = append(dd.out.Errors, e)
				}
			}
			dd.out.Pkgs = []string{rp}
			dumpAll(dd, prog, sp, *roots, rp, *initpkgs)
			base := rp[strings.LastIndex(rp, "/")+1:]
			writeOut(dd, *outp+"/"+base+".json")
		}
		fmt.Printf("split: %d packages\n", len(pkgList))
		return
	}
	dumpAll(d, prog, sp, *roots, *rootpkgs, *initpkgs)
	writeOut(d, *outp)
	fmt.Printf("types=%d funcs=%d globals=%d extern=%d errors=%d\n", len(d.out.Types), len(d.out.Funcs), len(d.out.Globals), len(d.out.Extern), len(d.out.Errors))
}

func writeOut(d *dumper, path string) {
	for e := range d.extern {
		d.out.Extern = append(d.out.Extern, e)
	}
	sort.Strings(d.out.Extern)
	f, err := os.Create(path)
	if err != nil {
		panic(err)
	}
	enc := json.NewEncoder(f)
	if err := enc.Encode(d.out); err != nil {
		panic(err)
	}
	f.Close()
}

func dumpAll(d *dumper, prog *ssa.Program, sp []string, roots, rootpkgs, initpkgs string) {
	d.stop = func(id string) bool {
		s := id
		for _, pre := range []string{"bound:", "thunk:"} {
			s = strings.TrimPrefix(s, pre)
		}
		s = strings.TrimLeft(s, "(*")
		for _, p := range sp {
			if p != "" && strings.HasPrefix(s, p) {
				return true
			}
		}
		return false
	}
	want := map[string]bool{}
	for _, r := range strings.Split(roots, ",") {
		if r != "" {
			want[r] = true
		}
	}
	wantPkg := map[string]bool{}
	for _, r := range strings.Split(rootpkgs, ",") {
		if r != "" {
			wantPkg[r] = true
		}
	}
	initPkg := map[string]bool{}
	for _, r := range strings.Split(initpkgs, ",") {
		if r != "" {
			initPkg[r] = true
		}
	}
	for _, pkg := range prog.AllPackages() {
		all := wantPkg[pkg.Pkg.Path()]
		var names []string
		for n := range pkg.Members {
			names = append(names, n)
		}
		sort.Strings(names)
		for _, n := range names {
			switch x := pkg.Members[n].(type) {
			case *ssa.Function:
				if x.TypeParams().Len() > 0 {
					continue
				}
				if all || want[x.String()] {
					d.out.Members[pkg.Pkg.Path()] = append(d.out.Members[pkg.Pkg.Path()], d.fid(x))
				}
			case *ssa.Type:
				if nt, ok := x.Type().(*types.Named); ok && nt.TypeParams().Len() > 0 {
					continue
				}
				if all {
					d.tid(x.Type())
				}
				for _, recv := range []types.Type{x.Type(), types.NewPointer(x.Type())} {
					ms := prog.MethodSets.MethodSet(recv)
					for i := 0; i < ms.Len(); i++ {
						fn := prog.MethodValue(ms.At(i))
						if fn != nil && (all || want[fn.String()]) {
							d.out.Members[pkg.Pkg.Path()] = append(d.out.Members[pkg.Pkg.Path()], d.fid(fn))
						}
					}
				}
			case *ssa.Global:
				if all {
					d.val(x)
				}
			}
		}
		if all || initPkg[pkg.Pkg.Path()] {
			if in := pkg.Func("init"); in != nil {
				d.out.Inits[pkg.Pkg.Path()] = d.fid(in)
			}
		}
	}
	for len(d.work) > 0 || len(d.msq) > 0 {
		d.flushMS()
		if len(d.work) == 0 {
			break
		}
		fn := d.work[len(d.work)-1]
		d.work = d.work[:len(d.work)-1]
		d.dumpFunc(fn)
	}
}

func hasHard(p *packages.Package) bool {
	for _, e := range p.Errors {
		if e.Kind != packages.TypeError {
			return true
		}
		if !(strings.Contains(e.Msg, "imported and not used") || strings.Contains(e.Msg, "declared and not used") || strings.Contains(e.Msg, "declared but not used")) {
			return true
		}
	}
	return false
}
