#!/bin/bash
# usage: seed_intake.sh <id> <prop>    takes a sub-agent's deliverables from /tmp/wt/<id>.out into seeded/<id>, removes the agent's
# worktree, confirms the change in a fresh scratch worktree (tools/seed_confirm.sh) and runs the property's check against it
# (tools/seed_run_par.sh).  Prints one RESULT line and one SEED line.
ID=$1; P=$2
cd /verif
O=/tmp/wt/$ID.out
[ -f $O/patch.diff ] || { echo "RESULT $ID no patch.diff"; exit 1; }
rm -rf seeded/$ID; mkdir -p seeded/$ID
cp -r $O/patch.diff $O/meta.json $O/demo seeded/$ID/ 2>/dev/null
grep -rl "/tmp/wt/$ID.out" seeded/$ID | xargs -r sed -i "s#/tmp/wt/$ID.out#/verif/seeded/$ID#g"
git -C /repo worktree remove --force /tmp/wt/$ID >/dev/null 2>&1; rm -rf /tmp/wt/$ID /tmp/wt/$ID.scratch
bash tools/seed_confirm.sh /verif/seeded/$ID 2>&1 | tail -8
rm -f seeded/$ID/patch.rebased.diff
bash tools/seed_run_par.sh seeded/$ID $P 2>&1 | tail -8
