#!/bin/bash
# usage: seed_run.sh <seeded dir> <prop> [prop...]   applies the patch to /repo, runs the checks, undoes the patch
S=$(realpath $1); shift
cd /verif
if [ -n "$(git -C /repo status --porcelain)" ]; then echo "/repo not clean"; exit 9; fi
git -C /repo apply $S/patch.diff || { echo "APPLY-FAIL $S"; exit 8; }
for p in "$@"; do
  out=$(./vcheck $p 2>&1)
  n=$(echo "$out" | grep -c "^VIOLATION")
  echo "SEED $(basename $S) check=$p violations=$n :: $(echo "$out" | tail -1)"
  echo "$out" | grep -A1 "^VIOLATION" | grep "^  " | head -4 | cut -c1-230
done
git -C /repo checkout -- . ; git -C /repo status --porcelain | head -2
git checkout -q -- evidence 2>/dev/null
