#!/usr/bin/env python3
"""drop known-findings entries that no tier of the check reports any more (the defect was repaired, or the
signature moved because the family grew).  Never adds entries: new signatures are added, after triage, with
`vcheck <prop> --tier <t> --update-known`.   usage: prune_known.py C07 [C13 ...] [--tiers quick,thorough]"""
import json, os, re, subprocess, sys

VERIF = os.path.dirname(os.path.dirname(os.path.abspath(__file__)))
args = [a for a in sys.argv[1:] if not a.startswith('--')]
tiers = 'quick,thorough'
for a in sys.argv[1:]:
    if a.startswith('--tiers='):
        tiers = a.split('=', 1)[1]
p = os.path.join(VERIF, 'known_findings.json')
for prop in args:
    seen = set()
    for t in tiers.split(','):
        r = subprocess.run([os.path.join(VERIF, 'vcheck'), prop, '--tier', t], capture_output=True, text=True)
        for chunk in ('\n' + r.stdout).split('\nKNOWN-FINDING: ')[1:]:
            m = re.match(r'property=(\S+) (.*?) :: ', chunk, re.S)     # a signature may hold a multi-line compiler message
            if m:
                seen.add(m.group(2))
        print(prop, t, 'exit', r.returncode, r.stdout.strip().split('\n')[-1][:200])
    d = json.load(open(p))
    keep, drop = [], []
    for k in d['findings']:
        (keep if k.get('property') != prop or k['signature'] in seen else drop).append(k)
    d['findings'] = keep
    json.dump(d, open(p, 'w'), indent=1)
    print(prop, 'kept', len([k for k in keep if k.get('property') == prop]), 'dropped', len(drop))
    for k in drop[:40]:
        print('   dropped', k['signature'][:160])
