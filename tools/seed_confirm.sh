#!/bin/bash
# usage: seed_confirm.sh <mutant dir (with patch.diff, demo/RUN.txt)>
# confirms in a scratch worktree of /repo HEAD: patch applies, builds, suite passes, demo fails with / passes without
set -u
M=$1
export GOFLAGS=-mod=mod GOPROXY=off
W=/tmp/wt/scratch_$$
git -C /repo worktree add -q --detach $W HEAD || exit 9
cleanup() { git -C /repo worktree remove --force $W >/dev/null 2>&1; rm -rf $W; }
trap cleanup EXIT
cd $W
ID=$(basename $(dirname $M)); ID=${ID%.out5}; ID=${ID%.out4}; ID=${ID%.out3}; ID=${ID%.out2}; ID=${ID%.out}
mkdir -p $W.scratch /tmp/wt/$ID.scratch
RUN=$(cat $M/demo/RUN.txt | sed "s#/tmp/wt/$ID\([^.o]\|\$\)#$W\1#g")
for f in $M/demo/*.sh; do [ -f "$f" ] && sed "s#/tmp/wt/$ID\([^.o]\|\$\)#$W\1#g" $f > $f.adapted; done
RUN=$(echo "$RUN" | sed 's#\(demo[A-Za-z0-9_]*\.sh\)#\1.adapted#')
# demo on the unchanged tree must pass
( eval "$RUN" ) >$W.base.log 2>&1; base=$?
grep -q "^--- FAIL\|^FAIL" $W.base.log && base=1
git clean -fdq
if ! git apply --3way $M/patch.diff >$W.apply.log 2>&1; then echo "RESULT $M apply=FAIL"; cat $W.apply.log | tail -3; rm -f $W.*.log; exit 1; fi
git diff HEAD > $W.rebased.diff
go build ./... >$W.build.log 2>&1; b=$?
go test -vet=off -count=1 ./... >$W.test.log 2>&1; t=$?
( eval "$RUN" ) >$W.mut.log 2>&1; mut=$?
grep -q "^--- FAIL\|^FAIL" $W.mut.log && mut=1
echo "RESULT $M apply=ok build=$b suite=$t demo_on_base=$base demo_on_mutant=$mut"
if [ "$base" != 0 ]; then tail -5 $W.base.log; fi
cp $W.rebased.diff $M/patch.rebased.diff
[ "$t" != 0 ] && grep -v "^ok\|no test files" $W.test.log | tail -15
rm -rf $W.*.log $W.rebased.diff $W.scratch /tmp/wt/$ID.scratch $M/demo/*.adapted
