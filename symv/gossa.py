"""Symbolic interpreter for go/ssa dumped by tools/ssajson.

Concrete values are Python values, symbolic integers are z3 bit-vectors of the Go
type's width, symbolic booleans z3 Bools.  Branches on symbolic conditions go through a
core.PathCtl (fork by re-execution).  Panics are outcomes.  Standard-library and
runtime functions that are not descended into are intrinsics (gointr.py)."""
import json, sys, copy
import z3
from .core import Outcome, Unsupported, PathCtl, is_sym, simp, conc

sys.setrecursionlimit(20000)

INTK = {'int': (64, True), 'int8': (8, True), 'int16': (16, True), 'int32': (32, True), 'int64': (64, True),
        'uint': (64, False), 'uint8': (8, False), 'uint16': (16, False), 'uint32': (32, False), 'uint64': (64, False),
        'uintptr': (64, False), 'byte': (8, False), 'rune': (32, True), 'untyped int': (64, True), 'untyped rune': (32, True)}


class GoPanic(Exception):
    def __init__(self, kind, msg, pos='', value=None):
        Exception.__init__(self, '%s: %s @%s' % (kind, msg, pos))
        self.kind, self.msg, self.pos, self.value = kind, msg, pos, value


class GoExit(Exception):
    def __init__(self, code):
        Exception.__init__(self, 'exit %s' % code)
        self.code = code


_STAMP = [0]


class Cell:
    __slots__ = ('v', 'tag', 'stamp')

    def __init__(self, v, tag=None):
        self.v = v
        self.tag = tag
        _STAMP[0] += 1
        self.stamp = _STAMP[0]


class Ptr:
    __slots__ = ('cell', 'path')

    def __init__(self, cell, path=()):
        self.cell = cell
        self.path = path

    def __eq__(self, o):
        return isinstance(o, Ptr) and self.cell is o.cell and self.path == o.path

    def __ne__(self, o):
        return not self.__eq__(o)

    def __hash__(self):
        return hash((id(self.cell), self.path))

    def __repr__(self):
        return '&%x%s' % (id(self.cell) & 0xffff, list(self.path))


class Slice:
    __slots__ = ('cell', 'off', 'len', 'cap')

    def __init__(self, cell, off, ln, cap):
        self.cell, self.off, self.len, self.cap = cell, off, ln, cap

    def items(self):
        return self.cell.v[self.off:self.off + self.len]


class Iface:
    __slots__ = ('t', 'v')

    def __init__(self, t, v):
        self.t, self.v = t, v

    def __eq__(self, o):
        return isinstance(o, Iface) and self.t == o.t and veq(self.v, o.v)

    def __ne__(self, o):
        return not self.__eq__(o)

    def __hash__(self):
        return hash((self.t, keyof(self.v)))

    def __repr__(self):
        return 'I<%s:%r>' % (self.t, self.v)


class Closure:
    __slots__ = ('fid', 'binds')

    def __init__(self, fid, binds=()):
        self.fid, self.binds = fid, binds

    def __repr__(self):
        return 'func<%s>' % self.fid


class Builtin:
    __slots__ = ('name',)

    def __init__(self, name):
        self.name = name


class SymName:
    """identifier text that ranges over a pool of concrete names: supports equality (decided by the
    solver) and map-key use; any other use concretises it through the path controller (force)"""
    __slots__ = ('term', 'allowed', 'table')

    def __init__(self, term, allowed, table):
        self.term, self.allowed, self.table = term, allowed, table

    def eq(self, other):
        """True / False / z3 Bool"""
        if isinstance(other, SymName):
            if other is self:
                return True
            c = z3.simplify(self.term == other.term)
        elif isinstance(other, str):
            i = self.table.index.get(other)
            if i is None or i not in self.allowed:
                return False
            c = z3.simplify(self.term == i)
        else:
            return False
        if z3.is_true(c):
            return True
        if z3.is_false(c):
            return False
        return c

    def force(self, M):
        conds = [self.term == i for i in self.allowed]
        k = M.ctl.choose(conds)
        return self.table.names[self.allowed[k]]

    def __repr__(self):
        return 'SymName(%s)' % self.term


class SymRope:
    """string built from concrete pieces and symbolic names; only stored / concatenated / printed, never inspected"""
    __slots__ = ('parts',)

    def __init__(self, parts):
        self.parts = parts

    def force(self, M):
        return ''.join(p.force(M) if isinstance(p, (SymName, SymRope)) else p for p in self.parts)

    def __repr__(self):
        return 'SymRope(%r)' % (self.parts,)


class SymDigits(SymRope):
    """text of a DIGITS token whose numeric value is a 64-bit solver variable (a `char[N]` size): strconv.Atoi yields the
    variable itself, so every comparison / allocation the compiler makes on N is decided by the solver over the whole range;
    any other use of the text pins N to one witness value through the path controller (PathCtl.concretise)"""
    __slots__ = ('term', 'orig')

    def __init__(self, term, orig):
        SymRope.__init__(self, [self])
        self.term, self.orig = term, orig

    def force(self, M):
        return str(M.ctl.concretise(self.term, prefer=(self.orig,)))

    def __repr__(self):
        return 'SymDigits(%s)' % self.term


class NameTable:
    def __init__(self):
        self.names = []
        self.index = {}

    def intern(self, s):
        i = self.index.get(s)
        if i is None:
            i = self.index[s] = len(self.names)
            self.names.append(s)
        return i


def str_eq(a, b):
    if isinstance(a, SymName):
        return a.eq(b)
    if isinstance(b, SymName):
        return b.eq(a)
    return a == b


class GoMap:
    def __init__(self):
        self.d = {}      # keyof(k) -> [k, v]   (insertion ordered; symbolic keys are keyed by identity)
        _STAMP[0] += 1
        self.stamp = _STAMP[0]

    def has_sym(self):
        return any(isinstance(e[0], SymName) for e in self.d.values())

    def has_symint(self):
        return any(is_sym(e[0]) and conc(e[0]) is None for e in self.d.values())

    def get(self, k):
        e = self.d.get(keyof(k))
        return e

    def set(self, k, v):
        kk = keyof(k)
        e = self.d.get(kk)
        if e is None:
            self.d[kk] = [k, v]
        else:
            e[1] = v

    def delete(self, k):
        self.d.pop(keyof(k), None)

    def sym_find(self, M, k):
        """entry whose key equals k, deciding symbolic equalities through the path controller; None if absent"""
        entries = list(self.d.values())
        conds = []
        cands = []
        for e in entries:
            c = str_eq(k, e[0]) if isinstance(k, (SymName, str)) and isinstance(e[0], (SymName, str)) else (keyof(k) == keyof(e[0]))
            if c is True:
                if not conds:
                    return e
                conds.append(z3.BoolVal(True))
                cands.append(e)
                break
            if c is False:
                continue
            conds.append(c)
            cands.append(e)
        if not conds:
            return None
        excl, prev = [], []
        for c in conds:
            excl.append(z3.And([c] + [z3.Not(p) for p in prev]))
            prev.append(c)
        excl.append(z3.And([z3.Not(p) for p in prev]))
        i = M.ctl.choose(excl)
        return cands[i] if i < len(cands) else None


class GoChan:
    """buffered channel in a single-threaded world: operations that would block are outside the model"""
    def __init__(self, cap):
        self.buf = []
        self.cap = cap
        self.closed = False


class MapIter:
    def __init__(self, entries):
        self.entries = entries
        self.i = 0


class StrIter:
    def __init__(self, s):
        self.s = s
        self.i = 0


def keyof(v):
    if isinstance(v, (int, str, bool, float)) or v is None:
        return v
    if isinstance(v, list):
        return tuple(keyof(x) for x in v)
    if isinstance(v, Iface):
        return ('I', v.t, keyof(v.v))
    if isinstance(v, Ptr):
        return ('P', id(v.cell), v.path)
    if isinstance(v, SymName):
        return ('S', id(v))
    if isinstance(v, tuple):
        return tuple(keyof(x) for x in v)
    if is_sym(v):
        c = conc(v)
        if c is not None:
            return c
        return ('Z', v.get_id())          # symbolic integer key: equalities with other keys are decided by the path controller
    return ('O', id(v))


def veq(a, b):
    if isinstance(a, list) and isinstance(b, list):
        return len(a) == len(b) and all(veq(x, y) for x, y in zip(a, b))
    if is_sym(a) or is_sym(b):
        raise Unsupported('symbolic value inside interface/aggregate equality')
    return a == b


def cp(v):
    """copy of an aggregate value (structs/arrays are Python lists)"""
    if isinstance(v, list):
        return [cp(x) for x in v]
    return v


class Prog:
    def __init__(self, path_or_obj):
        D = json.load(open(path_or_obj)) if isinstance(path_or_obj, str) else path_or_obj
        self.D = D
        for k in ('types', 'funcs', 'globals', 'extern', 'errors', 'pkgs'):
            if D.get(k) is None:
                D[k] = []
        for t in D['types']:
            if t['kind'] == 'struct' and not t.get('fields'):
                t['fields'] = []
            if t['kind'] == 'tuple' and not t.get('tuple'):
                t['tuple'] = []
            if t['kind'] == 'array' and 'len' not in t:
                t['len'] = 0
        self.T = {t['id']: t for t in D['types']}
        self.TS = {t['str']: t for t in D['types']}
        self.F = {f['id']: f for f in D['funcs']}
        self.extern = set(D.get('extern') or [])
        self.inits = D.get('inits') or {}
        self.errors = D.get('errors') or []
        self.members = D.get('members') or {}
        self._under = {}
        self._zero = {}
        for f in D['funcs']:
            for b in f['blocks']:
                ins = b['instrs']
                b['nphi'] = 0
                for i in ins:
                    if i['op'] == 'Phi':
                        b['nphi'] += 1
                    else:
                        break

    def under(self, tid):
        u = self._under.get(tid)
        if u is None:
            t = self.T[tid]
            n = 0
            while t['kind'] == 'named':
                t = self.T[t['under']]
                n += 1
                if n > 50:
                    raise Unsupported('type cycle')
            u = self._under[tid] = t
        return u

    def kind(self, tid):
        return self.under(tid)['kind']

    def intk(self, tid):
        u = self.under(tid)
        if u['kind'] == 'basic':
            return INTK.get(u['basic'])
        return None

    def tstr(self, tid):
        return self.T[tid]['str'] if tid in self.T else '?'

    def zero(self, tid):
        u = self.under(tid)
        k = u['kind']
        if k == 'basic':
            b = u['basic']
            if 'string' in b:
                return ''
            if 'bool' in b:
                return False
            if 'float' in b or 'complex' in b:
                return 0.0
            if b == 'unsafe.Pointer' or b == 'untyped nil':
                return None
            return 0
        if k == 'struct':
            return [self.zero(f['type']) for f in u['fields']]
        if k == 'array':
            return [self.zero(u['elem']) for _ in range(u['len'])]
        return None

    def methods_of_dyn(self, tid):
        """method table for a dynamic (concrete) type id held in an interface"""
        t = self.T[tid]
        if t['kind'] == 'ptr':
            e = self.T[t['elem']]
            return e.get('methods') or {}
        return t.get('vmethods') or {}

    def implements(self, tid, itid):
        it = self.under(itid)
        ms = self.methods_of_dyn(tid)
        return all(m in ms for m in (it.get('imeths') or []))

    def tid_of(self, s):
        t = self.TS.get(s)
        return t['id'] if t else None


def go_str(c):
    """python text -> Go string representation (one char per byte)"""
    return c.encode('utf-8', 'surrogateescape').decode('latin-1')


def wrap(v, bits, signed):
    v &= (1 << bits) - 1
    if signed and v >> (bits - 1):
        v -= 1 << bits
    return v


class _GorKilled(BaseException):
    pass


class _Gor:
    def __init__(self, thread):
        import threading
        self.thread = thread
        self.frames, self.depth = [], 0
        self.ev = threading.Event()
        self.done = False
        self.kill = False
        self.waiting = None
        self.is_main = False


class Frame:
    __slots__ = ('fn', 'regs', 'defers', 'panicking', 'recovered', 'result')

    def __init__(self, fn):
        self.fn = fn
        self.regs = {}
        self.defers = []
        self.panicking = None
        self.recovered = False
        self.result = None


class Machine:
    def __init__(self, prog, ctl=None, intrinsics=None, fuel=3_000_000, max_depth=200):
        self.p = prog
        self.ctl = ctl or PathCtl()
        self.globals = {}
        self.steps = 0
        self.fuel = fuel
        self.depth = 0
        self.max_depth = max_depth
        self.intr = intrinsics or {}
        self.intr_prefix = []
        self.frames = []
        self.effects = []        # environment effect log (stubs append here)
        self.stdout = []
        self.map_order_hook = None
        self.init_allow = set()
        self.mut_hook = None
        self.names = NameTable()
        self.store_hook = None
        self.env = {}

    # ------------------------------------------------------------------ goroutines
    # One schedule is explored, not all interleavings: a goroutine runs when it is spawned, until it ends or blocks; a blocked
    # goroutine resumes (first spawned first) when the operation it waits for can proceed.  What this decides for every schedule
    # is only what does not depend on the schedule: a state in which NO goroutine can proceed is a deadlock ("all goroutines are
    # asleep"), reported as a panic outcome.  Each goroutine is a Python thread; exactly one runs at any time (baton passing).
    def _gor_init(self):
        if getattr(self, 'gor', None) is None:
            import threading
            main = _Gor(None)
            main.is_main = True
            self.gor = {'cur': main, 'all': [main], 'fatal': None, 'threading': threading}
        return self.gor

    def _gor_switch(self, me, to):
        """hand the baton from goroutine `me` to goroutine `to` and sleep until somebody hands it back"""
        me.frames, me.depth = self.frames, self.depth
        self.frames, self.depth = to.frames, to.depth
        self.gor['cur'] = to
        me.ev.clear()
        to.ev.set()
        if not me.done:
            me.ev.wait()
            if me.kill:
                raise _GorKilled()
        # resumed: the machine's frame stack is ours again (the one who handed over has restored it)

    def gor_spawn(self, fn_value, args):
        G = self._gor_init()
        me = G['cur']
        g = _Gor(None)
        G['all'].append(g)
        M = self

        def body():
            g.ev.wait()
            try:
                if not g.kill:
                    M.call_value(fn_value, args)
            except _GorKilled:
                pass
            except BaseException as ex:        # a panic in any goroutine ends the program; engine errors travel to the main one
                if G['fatal'] is None:
                    G['fatal'] = ex
            g.done = True
            if g.kill:
                return
            # pick who runs next: the spawner if it is merely waiting for us to yield, else any runnable goroutine
            nxt = M._gor_pick(exclude=g)
            if nxt is None:
                nxt = G['all'][0]
                if G['fatal'] is None:
                    G['fatal'] = GoPanic('deadlock', 'all goroutines are asleep - deadlock!', '')
            M._gor_switch(g, nxt)
        g.thread = G['threading'].Thread(target=body, daemon=True)
        g.thread.start()
        if self.env.get('gor_policy') == 'deferred':
            return                 # second schedule: a spawned goroutine first runs when the others block (or never, when the program ends first)
        self._gor_switch(me, g)
        self._gor_check_fatal(me)

    def _gor_check_fatal(self, me):
        G = self.gor
        if G['fatal'] is not None and me.is_main:
            ex = G['fatal']
            G['fatal'] = None
            self.gor_killall()
            raise ex

    def _gor_pick(self, exclude=None):
        for g in self.gor['all']:
            if g is exclude or g.done:
                continue
            if g.waiting is None or g.waiting():
                return g
        return None

    def gor_block(self, can_proceed, what):
        """the running goroutine cannot proceed until can_proceed() holds: let the others run"""
        G = self._gor_init()
        me = G['cur']
        while not can_proceed():
            me.waiting = can_proceed
            nxt = self._gor_pick(exclude=me)
            if nxt is None:
                me.waiting = None
                if me.is_main:
                    self.gor_killall()
                    raise GoPanic('deadlock', 'all goroutines are asleep - deadlock! (%s)' % what, '')
                if G['fatal'] is None:
                    G['fatal'] = GoPanic('deadlock', 'all goroutines are asleep - deadlock! (%s)' % what, '')
                me.waiting = lambda: False
                self._gor_switch(me, G['all'][0])
                continue
            self._gor_switch(me, nxt)
            me.waiting = None
            self._gor_check_fatal(me)
        me.waiting = None

    def gor_killall(self):
        G = getattr(self, 'gor', None)
        if not G:
            return
        for g in G['all'][1:]:
            if not g.done:
                g.kill = True
                g.done = True
                g.ev.set()

    # ------------------------------------------------------------------ memory
    def gptr(self, name, tid):
        g = self.globals.get(name)
        if g is None:
            g = self.globals[name] = Ptr(Cell(self.p.zero(self.p.T[tid]['elem']), tag='global:' + name))
        return g

    def load(self, p, pos=''):
        if p is None:
            raise GoPanic('nil-deref', 'invalid memory address or nil pointer dereference', pos)
        if not isinstance(p, Ptr):
            raise Unsupported('load through %r' % type(p))
        v = p.cell.v
        for k in p.path:
            v = v[k]
        return v

    def store(self, p, val, pos=''):
        if p is None:
            raise GoPanic('nil-deref', 'invalid memory address or nil pointer dereference', pos)
        if self.store_hook is not None:
            self.store_hook(self, p, val, pos)
        if not p.path:
            p.cell.v = val
            return
        v = p.cell.v
        for k in p.path[:-1]:
            v = v[k]
        v[p.path[-1]] = val

    def new(self, v, tag=None):
        return Ptr(Cell(v, tag))

    def mkslice(self, items):
        items = list(items)
        return Slice(Cell(items), 0, len(items), len(items))

    # ------------------------------------------------------------------ values
    def val(self, fr, a):
        k = a['k']
        if k == 'reg':
            return fr.regs[a['n']]
        if k == 'const':
            c = a.get('_c', self)
            if c is self:
                c = a['_c'] = self.const(a)
            return c
        if k == 'global':
            return self.gptr(a['n'], a['t'])
        if k == 'func':
            return Closure(a['n'])
        if k == 'builtin':
            return Builtin(a['n'])
        if k == 'none':
            return None
        raise Unsupported('value kind ' + k)

    def const(self, a):
        if a.get('nil'):
            return self.p.zero(a['t'])
        c = a['c']
        if isinstance(c, bool):
            return c
        tag, body = c[:2], c[2:]
        if tag == 's:':
            return go_str(body)
        if tag == 'i:':
            v = int(body)
            ik = self.p.intk(a['t'])
            if ik:
                return wrap(v, *ik)
            u = self.p.under(a['t'])
            if u['kind'] == 'basic' and 'float' in u['basic']:
                return float(v)
            return v
        if tag == 'f:':
            return float(body)
        if tag == 'x:':
            try:
                return float(eval(body.replace('/', '/1.0/') if '/' in body else body))
            except Exception:
                raise Unsupported('constant ' + c)
        raise Unsupported('constant ' + repr(c))

    # ------------------------------------------------------------------ calls
    def call_value(self, f, args, pos=''):
        if f is None:
            raise GoPanic('nil-deref', 'call of nil func', pos)
        if isinstance(f, Closure):
            return self.call(f.fid, args, f.binds, pos)
        if type(f).__name__ == '_WgGo':
            try:
                return self.call_value(f.f, args, pos)
            finally:
                f.w[0] -= 1
        raise Unsupported('call of %r' % (f,))

    def call(self, fid, args, binds=(), pos=''):
        h = self.intr.get(fid)
        if h is not None:
            return h(self, args)
        fn = self.p.F.get(fid)
        if fid.endswith('.init') and fid not in self.init_allow:
            return None       # package initialisers other than the requested ones are not run
        if fn is None:
            if fid.endswith('.init') or '.init#' in fid:
                return None
            for pre, hh in self.intr_prefix:
                if fid.startswith(pre) or fid.lstrip('(*').startswith(pre):
                    return hh(self, fid, args)
            if fid.endswith('.init') or '.init#' in fid:
                return None
            raise Unsupported('extern function without intrinsic: ' + fid)
        self.depth += 1
        if self.depth > self.max_depth:
            self.depth -= 1
            raise GoPanic('stack-overflow', 'call depth %d exceeded in %s' % (self.max_depth, fid), pos)
        try:
            return self.run(fn, args, binds)
        finally:
            self.depth -= 1

    def invoke(self, recv, mname, args, pos):
        if recv is None:
            raise GoPanic('nil-deref', 'method %s called on nil interface' % mname, pos)
        if not isinstance(recv, Iface):
            raise Unsupported('invoke on %r' % type(recv))
        if recv.t < 0:
            h = self.intr.get('invoke:%d.%s' % (recv.t, mname))
            if h is None:
                raise Unsupported('no intrinsic method %s on special type %d' % (mname, recv.t))
            return h(self, [recv.v] + args)
        ms = self.p.methods_of_dyn(recv.t)
        fid = ms.get(mname)
        if fid is None:
            h = self.intr.get('invoke:' + self.p.tstr(recv.t) + '.' + mname)
            if h is not None:
                return h(self, [recv.v] + args)
            raise Unsupported('no method %s on %s' % (mname, self.p.tstr(recv.t)))
        return self.call(fid, [recv.v] + args, (), pos)

    def run(self, fn, args, binds):
        fr = Frame(fn)
        regs = fr.regs
        ps = fn['params'] or []
        if len(ps) != len(args):
            raise Unsupported('arity mismatch calling %s (%d vs %d)' % (fn['id'], len(ps), len(args)))
        for p, v in zip(ps, args):
            regs[p['n']] = v
        for p, v in zip(fn['free'] or [], binds):
            regs[p['n']] = v
        self.frames.append(fr)
        try:
            try:
                return self.exec_blocks(fr, 0)
            except GoPanic as gp:
                if getattr(gp, 'fn', None) is None:
                    gp.fn = fn['id']
                    gp.stack = [f.fn['id'] for f in self.frames[-6:]]
                if not fr.defers:
                    raise
                fr.panicking = gp
                self.run_defers(fr)
                if fr.recovered:
                    fr.panicking = None
                    if fn['recover'] >= 0:
                        return self.exec_blocks(fr, fn['recover'])
                    return self.zero_results(fn)
                raise
        finally:
            self.frames.pop()

    def zero_results(self, fn):
        n = fn['nres']
        if n == 0:
            return None
        sig = self.p.T[fn['sig']]
        return None if n == 1 else tuple([None] * n)

    def run_defers(self, fr):
        while fr.defers:
            f, args, invoke = fr.defers.pop()
            if invoke:
                self.invoke(f, invoke, args, '')
            elif isinstance(f, Builtin):
                self.builtin(fr, f.name, args, {'pos': ''})
            else:
                self.call_value(f, args)

    def exec_blocks(self, fr, bi):
        fn = fr.fn
        blocks = fn['blocks']
        regs = fr.regs
        prev = None
        val = self.val
        while True:
            b = blocks[bi]
            ins_list = b['instrs']
            nphi = b['nphi']
            if nphi:
                tmp = []
                for ins in ins_list[:nphi]:
                    tmp.append((ins['reg'], val(fr, ins['args'][ins['edges'].index(prev)])))
                for r, v in tmp:
                    regs[r] = v
            self.steps += len(ins_list)
            if self.steps > self.fuel:
                raise GoPanic('fuel', 'instruction budget exceeded in %s' % fn['id'], '')
            for ins in ins_list[nphi:]:
                op = ins['op']
                if op == 'Call':
                    regs[ins['reg']] = self.do_call(fr, ins)
                elif op == 'Store':
                    A = ins['args']
                    self.store(val(fr, A[0]), cp(val(fr, A[1])), ins.get('pos', ''))
                elif op == 'UnOp':
                    regs[ins['reg']] = self.unop(fr, ins)
                elif op == 'BinOp':
                    A = ins['args']
                    regs[ins['reg']] = self.binop(ins['sub'], val(fr, A[0]), val(fr, A[1]), A[0]['t'], ins)
                elif op == 'FieldAddr':
                    x = val(fr, ins['args'][0])
                    if x is None:
                        raise GoPanic('nil-deref', 'field address of nil pointer', ins.get('pos', ''))
                    regs[ins['reg']] = Ptr(x.cell, x.path + (ins.get('idx', 0),))
                elif op == 'If':
                    c = val(fr, ins['args'][0])
                    if not isinstance(c, bool):
                        c = self.ctl.branch(c)
                    prev = bi
                    bi = ins['succs'][0] if c else ins['succs'][1]
                    break
                elif op == 'Jump':
                    prev = bi
                    bi = ins['succs'][0]
                    break
                elif op == 'Return':
                    A = ins.get('args') or []
                    if fr.defers:
                        pass
                    if len(A) == 0:
                        return None
                    if len(A) == 1:
                        return cp(val(fr, A[0]))
                    return tuple(cp(val(fr, a)) for a in A)
                else:
                    r = self.other(fr, ins, op)
                    if 'reg' in ins:
                        regs[ins['reg']] = r
            else:
                raise Unsupported('block without terminator in ' + fn['id'])

    def do_call(self, fr, ins):
        A = ins['args']
        sub = ins['sub']
        pos = ins.get('pos', '')
        f = self.val(fr, A[0])
        args = [cp(self.val(fr, a)) for a in A[1:]]
        if sub == 'call':
            if isinstance(f, Builtin):
                return self.builtin(fr, f.name, args, ins)
            return self.call_value(f, args, pos)
        return self.invoke(f, sub[7:], args, pos)

    # ------------------------------------------------------------------ operators
    def unop(self, fr, ins):
        x = self.val(fr, ins['args'][0])
        o = ins['sub']
        if o == '*':
            return cp(self.load(x, ins.get('pos', '')))
        if o == '<-':
            if x is None:
                self.gor_block(lambda: False, 'receive from a nil channel')
            if not x.buf and not x.closed:
                self.gor_block(lambda: bool(x.buf) or x.closed, 'receive from an empty channel')
            if not x.buf and x.closed:
                z = self.p.zero(ins['t']) if not ins.get('flag') else self.p.zero(self.p.T[ins['t']]['tuple'][0])
                return (z, False) if ins.get('flag') else z
            v = x.buf.pop(0)
            return (v, True) if ins.get('flag') else v
        if o == '!':
            if isinstance(x, bool):
                return not x
            return z3.Not(x)
        if o == '-':
            ik = self.p.intk(ins['t'])
            if is_sym(x):
                return -x
            if ik:
                return wrap(-x, *ik)
            return -x
        if o == '^':
            ik = self.p.intk(ins['t'])
            if is_sym(x):
                return ~x
            return wrap(~x, *ik)
        raise Unsupported('unary ' + o)

    def tobv(self, v, bits):
        if is_sym(v):
            return v
        return z3.BitVecVal(v & ((1 << bits) - 1), bits)

    def binop(self, o, x, y, tid, ins):
        if isinstance(x, SymName) or isinstance(y, SymName):
            if o in ('==', '!='):
                c = str_eq(x, y)
                if isinstance(c, bool):
                    return c if o == '==' else not c
                return c if o == '==' else z3.Not(c)
            if o == '+':
                return SymRope([x, y])
            x = x.force(self) if isinstance(x, SymName) else x
            y = y.force(self) if isinstance(y, SymName) else y
        if isinstance(x, SymRope) or isinstance(y, SymRope):
            if o == '+':
                return SymRope([x, y])
            x = x.force(self) if isinstance(x, SymRope) else x
            y = y.force(self) if isinstance(y, SymRope) else y
            if isinstance(x, SymName) or isinstance(y, SymName):
                return self.binop(o, x, y, tid, ins)
        if is_sym(x) or is_sym(y):
            return self.sym_binop(o, x, y, tid, ins)
        if o == '==':
            return veq(x, y) if isinstance(x, list) else x == y
        if o == '!=':
            return (not veq(x, y)) if isinstance(x, list) else x != y
        if isinstance(x, str):
            if o == '+':
                return x + y
            return {'<': x < y, '<=': x <= y, '>': x > y, '>=': x >= y}[o]
        if isinstance(x, float) or isinstance(y, float):
            return {'+': lambda: x + y, '-': lambda: x - y, '*': lambda: x * y, '/': lambda: x / y, '<': lambda: x < y,
                    '<=': lambda: x <= y, '>': lambda: x > y, '>=': lambda: x >= y}[o]()
        if o in ('<', '<=', '>', '>='):
            return {'<': x < y, '<=': x <= y, '>': x > y, '>=': x >= y}[o]
        ik = self.p.intk(ins['t']) or (64, True)
        if o == '+':
            return wrap(x + y, *ik)
        if o == '-':
            return wrap(x - y, *ik)
        if o == '*':
            return wrap(x * y, *ik)
        if o == '/':
            if y == 0:
                raise GoPanic('div-zero', 'integer divide by zero', ins.get('pos', ''))
            q = abs(x) // abs(y)
            return wrap(q if (x < 0) == (y < 0) else -q, *ik)
        if o == '%':
            if y == 0:
                raise GoPanic('div-zero', 'integer divide by zero', ins.get('pos', ''))
            r = abs(x) % abs(y)
            return wrap(r if x >= 0 else -r, *ik)
        if o == '&':
            return wrap(x & y, *ik)
        if o == '|':
            return wrap(x | y, *ik)
        if o == '^':
            return wrap(x ^ y, *ik)
        if o == '&^':
            return wrap(x & ~y, *ik)
        if o == '<<':
            if y < 0:
                raise GoPanic('shift', 'negative shift amount', ins.get('pos', ''))
            return wrap(x << min(y, 128), *ik)
        if o == '>>':
            if y < 0:
                raise GoPanic('shift', 'negative shift amount', ins.get('pos', ''))
            return wrap(x >> min(y, 128), *ik)
        raise Unsupported('binary ' + o)

    def sym_binop(self, o, x, y, tid, ins):
        if z3.is_bool(x) or z3.is_bool(y) or isinstance(x, bool) or isinstance(y, bool):
            bx = x if not isinstance(x, bool) else z3.BoolVal(x)
            by = y if not isinstance(y, bool) else z3.BoolVal(y)
            if o == '==':
                return bx == by
            if o == '!=':
                return bx != by
            raise Unsupported('bool op ' + o)
        ik = self.p.intk(tid)
        if ik is None:
            raise Unsupported('symbolic operand of non-integer type %s' % self.p.tstr(tid))
        bits, signed = ik
        a = self.tobv(x, bits)
        if o in ('<<', '>>'):
            b = self.tobv(y, y.size() if is_sym(y) else bits)
            if b.size() != bits:
                b = z3.ZeroExt(bits - b.size(), b) if b.size() < bits else z3.Extract(bits - 1, 0, b)
            if o == '<<':
                return a << b
            return (a >> b) if signed else z3.LShR(a, b)
        b = self.tobv(y, bits)
        if o == '==':
            return a == b
        if o == '!=':
            return a != b
        if o == '<':
            return a < b if signed else z3.ULT(a, b)
        if o == '<=':
            return a <= b if signed else z3.ULE(a, b)
        if o == '>':
            return a > b if signed else z3.UGT(a, b)
        if o == '>=':
            return a >= b if signed else z3.UGE(a, b)
        if o == '+':
            return a + b
        if o == '-':
            return a - b
        if o == '*':
            return a * b
        if o == '&':
            return a & b
        if o == '|':
            return a | b
        if o == '^':
            return a ^ b
        if o == '&^':
            return a & ~b
        if o in ('/', '%'):
            if self.ctl.branch(b == 0):
                raise GoPanic('div-zero', 'integer divide by zero', ins.get('pos', ''))
            if o == '/':
                return a / b if signed else z3.UDiv(a, b)
            return z3.SRem(a, b) if signed else z3.URem(a, b)
        raise Unsupported('symbolic binary ' + o)

    def cint(self, v, what='index'):
        if isinstance(v, int):
            return v
        c = conc(v)
        if c is None:
            raise Unsupported('symbolic %s' % what)
        return c

    # ------------------------------------------------------------------ the rest
    def other(self, fr, ins, op):
        val = self.val
        A = ins.get('args') or []
        pos = ins.get('pos', '')
        p = self.p
        if op == 'Alloc':
            return Ptr(Cell(p.zero(ins['at'])))
        if op == 'Extract':
            t = val(fr, A[0])
            return t[ins.get('idx', 0)]
        if op == 'Field':
            x = val(fr, A[0])
            return cp(x[ins.get('idx', 0)])
        if op == 'IndexAddr':
            x = val(fr, A[0])
            i = self.cint(val(fr, A[1]))
            if isinstance(x, Slice):
                if i < 0 or i >= x.len:
                    raise GoPanic('index', 'index out of range [%d] with length %d' % (i, x.len), pos)
                return Ptr(x.cell, (x.off + i,))
            if isinstance(x, Ptr):       # *array
                arr = self.load(x, pos)
                if i < 0 or i >= len(arr):
                    raise GoPanic('index', 'index out of range [%d] with length %d' % (i, len(arr)), pos)
                return Ptr(x.cell, x.path + (i,))
            if x is None:
                if p.kind(ins['at']) == 'slice':
                    raise GoPanic('index', 'index out of range [%d] with length 0' % i, pos)
                raise GoPanic('nil-deref', 'index of nil array pointer', pos)
            raise Unsupported('IndexAddr on %r' % type(x))
        if op == 'Index':
            x = val(fr, A[0])
            if isinstance(x, SymName):
                x = x.force(self)
            i = self.cint(val(fr, A[1]))
            if isinstance(x, str):
                if i < 0 or i >= len(x):
                    raise GoPanic('index', 'index out of range [%d] with length %d' % (i, len(x)), pos)
                return ord(x[i])
            if i < 0 or i >= len(x):
                raise GoPanic('index', 'index out of range [%d] with length %d' % (i, len(x)), pos)
            return cp(x[i])
        if op == 'Lookup':
            x = val(fr, A[0])
            k = val(fr, A[1])
            if isinstance(x, SymName):
                x = x.force(self)
            if isinstance(x, str):
                i = self.cint(k)
                if i < 0 or i >= len(x):
                    raise GoPanic('index', 'index out of range [%d] with length %d' % (i, len(x)), pos)
                return ord(x[i])
            return self.map_lookup(x, k, ins)
        if op == 'MapUpdate':
            m = val(fr, A[0])
            if m is None:
                raise GoPanic('nil-map', 'assignment to entry in nil map', pos)
            k = val(fr, A[1])
            if self.mut_hook is not None:
                self.mut_hook(self, 'map', m, pos)
            if isinstance(k, SymName) or (isinstance(k, str) and m.has_sym()):
                e = m.sym_find(self, k)
                if e is not None:
                    e[1] = cp(val(fr, A[2]))
                    return None
            elif (is_sym(k) and conc(k) is None) or (isinstance(k, int) and not isinstance(k, bool) and m.has_symint()) or (is_sym(k) and m.has_symint()):
                e = self.map_find_int(m, k)
                if e is not None:
                    e[1] = cp(val(fr, A[2]))
                    return None
            m.set(k, cp(val(fr, A[2])))
            return None
        if op == 'MakeMap':
            return GoMap()
        if op == 'MakeSlice':
            n = self.cint(val(fr, A[0]), 'slice length')
            c = self.cint(val(fr, A[1]), 'slice capacity')
            if n < 0 or c < n:
                raise GoPanic('makeslice', 'len out of range', pos)
            et = p.under(ins['t'])['elem']
            return Slice(Cell([p.zero(et) for _ in range(c)]), 0, n, c)
        if op == 'MakeClosure':
            return Closure(ins['sub'], tuple(val(fr, a) for a in A[1:]))
        if op == 'MakeInterface':
            return Iface(ins['at'], cp(val(fr, A[0])))
        if op == 'ChangeInterface':
            return val(fr, A[0])
        if op == 'ChangeType':
            return val(fr, A[0])
        if op == 'Convert':
            return self.convert(val(fr, A[0]), ins['at'], ins['t'], pos)
        if op == 'TypeAssert':
            return self.type_assert(val(fr, A[0]), ins, pos)
        if op == 'Slice':
            return self.slice_op(fr, ins, A, pos)
        if op == 'Range':
            x = val(fr, A[0])
            if isinstance(x, SymName):
                x = x.force(self)
            if isinstance(x, str):
                return StrIter(x)
            if x is None:
                return MapIter([])
            entries = [(e[0], e[1]) for e in x.d.values()]
            if self.map_order_hook is not None and len(entries) > 1:
                entries = self.map_order_hook(self, entries, ins, fr)
            return MapIter(entries)
        if op == 'Next':
            it = val(fr, A[0])
            if isinstance(it, StrIter):
                if it.i >= len(it.s):
                    return (False, 0, 0)
                i = it.i
                r, n = decode_rune(it.s, i)
                it.i += n
                return (True, i, r)
            if it.i >= len(it.entries):
                return (False, None, None)
            k, v = it.entries[it.i]
            it.i += 1
            return (True, k, cp(v))
        if op == 'Panic':
            v = val(fr, A[0])
            raise GoPanic('explicit', self.panic_text(v), pos, value=v)
        if op == 'Defer':
            f = val(fr, A[0])
            args = [cp(val(fr, a)) for a in A[1:]]
            sub = ins['sub']
            fr.defers.append((f, args, sub[7:] if sub != 'call' else None))
            return None
        if op == 'RunDefers':
            self.run_defers(fr)
            return None
        if op == 'MakeChan':
            return GoChan(self.cint(val(fr, A[0]), 'channel capacity'))
        if op == 'Send':
            ch = val(fr, A[0])
            if ch is None:
                self.gor_block(lambda: False, 'send on a nil channel')
            if ch.closed:
                raise GoPanic('explicit', 'send on closed channel', ins.get('pos', ''))
            if len(ch.buf) >= max(ch.cap, 0) and not (ch.cap == 0 and getattr(ch, 'receivers', 0) > 0):
                # unbuffered channels are treated as capacity 1 with the sender waiting until the value is taken
                if ch.cap == 0:
                    ch.buf.append(cp(val(fr, A[1])))
                    mark = len(ch.buf)
                    self.gor_block(lambda: not ch.buf, 'send on an unbuffered channel nobody receives from')
                    return None
                self.gor_block(lambda: ch.closed or len(ch.buf) < ch.cap, 'send on a full channel')
                if ch.closed:
                    raise GoPanic('explicit', 'send on closed channel', ins.get('pos', ''))
            ch.buf.append(cp(val(fr, A[1])))
            return None
        if op == 'Select':
            dirs = ins['sub'].split(',') if ins['sub'] else []
            tup = p.T[ins['t']]['tuple']
            recv_slots = [i for i, d in enumerate(dirs) if d == 'recv']
            out = [-1, False] + [p.zero(t) for t in tup[2:]]
            for i, d in enumerate(dirs):
                ch = val(fr, A[2 * i])
                if ch is None:
                    continue
                if d == 'recv' and ch.buf:
                    out[0] = i
                    out[1] = True
                    out[2 + recv_slots.index(i)] = ch.buf.pop(0)
                    return tuple(out)
                if d == 'send' and len(ch.buf) < ch.cap:
                    ch.buf.append(cp(val(fr, A[2 * i + 1])))
                    out[0] = i
                    return tuple(out)
            if ins.get('flag'):
                raise Unsupported('select that would block (no other goroutine is modelled)')
            return tuple(out)
        if op == 'Go':
            f = val(fr, A[0]) if ins['sub'] == 'call' else None
            if ins['sub'] != 'call':
                raise Unsupported('go statement on an interface method')
            self.gor_spawn(f, [cp(val(fr, a)) for a in A[1:]])
            return None
        if op == 'SliceToArrayPointer':
            raise Unsupported(op)
        raise Unsupported('instruction ' + op)

    def panic_text(self, v):
        if isinstance(v, Iface):
            if isinstance(v.v, str):
                return v.v
            return repr(v.v)
        return repr(v)

    def map_lookup(self, m, k, ins):
        commaok = ins.get('flag', False)
        zero = self.p.zero(ins['t']) if not commaok else self.p.zero(self.p.T[ins['t']]['tuple'][0])
        if m is None:
            return (zero, False) if commaok else zero
        if isinstance(k, SymName) or (isinstance(k, str) and m.has_sym()):
            e = m.sym_find(self, k)
            if e is None:
                return (zero, False) if commaok else zero
            return (cp(e[1]), True) if commaok else cp(e[1])
        if hasattr(k, 'sym_eq'):
            entries = list(m.d.values())
            conds = []
            for ek, ev in entries:
                c = k.sym_eq(ek)
                conds.append(z3.BoolVal(c) if isinstance(c, bool) else c)
            conds.append(z3.And([z3.Not(c) for c in conds]) if conds else z3.BoolVal(True))
            i = self.ctl.choose(conds)
            if i == len(entries):
                return (zero, False) if commaok else zero
            v = cp(entries[i][1])
            return (v, True) if commaok else v
        if (is_sym(k) and conc(k) is None) or ((is_sym(k) or (isinstance(k, int) and not isinstance(k, bool))) and m.has_symint()):
            # symbolic key (or symbolic keys in the map): fork over the entries
            e = self.map_find_int(m, k)
            if e is None:
                return (zero, False) if commaok else zero
            v = cp(e[1])
            return (v, True) if commaok else v
        if is_sym(k):
            k = conc(k)
            ik = self.p.intk(self.p.under(ins['args'][0]['t'])['key'])
            if ik:
                k = wrap(k, *ik)
        e = m.get(k)
        if e is None:
            return (zero, False) if commaok else zero
        return (cp(e[1]), True) if commaok else cp(e[1])

    def map_find_int(self, m, k):
        """entry of m whose integer key equals k, symbolic equalities decided through the path controller (one path per
        feasible entry, one for "absent")"""
        entries = [e for e in m.d.values() if is_sym(e[0]) or (isinstance(e[0], int) and not isinstance(e[0], bool))]
        w = k.size() if is_sym(k) else next((e[0].size() for e in entries if is_sym(e[0])), 64)
        kb = self.tobv(k, w)
        conds, cands, prev = [], [], []
        for e in entries:
            c = simp(kb == self.tobv(e[0], w))
            if z3.is_false(c):
                continue
            conds.append(z3.And([c] + [z3.Not(q) for q in prev]))
            cands.append(e)
            prev.append(c)
            if z3.is_true(c):
                break
        else:
            conds.append(z3.And([z3.Not(q) for q in prev]) if prev else z3.BoolVal(True))
        if not cands:
            return None
        i = self.ctl.choose(conds)
        return cands[i] if i < len(cands) else None

    def type_assert(self, x, ins, pos):
        at = ins['at']
        commaok = ins.get('flag', False)
        p = self.p
        ok = False
        if x is not None:
            if not isinstance(x, Iface):
                raise Unsupported('type assert on %r' % type(x))
            if x.t < 0:
                ok = p.kind(at) == 'iface'
                res = x
            elif p.kind(at) == 'iface':
                ok = p.implements(x.t, at)
                res = x
            else:
                ok = x.t == at
                res = x.v
        if ok:
            return (cp(res), True) if commaok else cp(res)
        if commaok:
            return (p.zero(at), False)
        have = 'nil' if x is None else p.tstr(x.t)
        raise GoPanic('type-assert', 'interface conversion: interface is %s, not %s' % (have, p.tstr(at)), pos)

    def slice_op(self, fr, ins, A, pos):
        x = self.val(fr, A[0])
        if isinstance(x, SymName):
            x = x.force(self)
        lo = self.val(fr, A[1]) if A[1]['k'] != 'none' else None
        hi = self.val(fr, A[2]) if A[2]['k'] != 'none' else None
        mx = self.val(fr, A[3]) if len(A) > 3 and A[3]['k'] != 'none' else None
        lo = 0 if lo is None else self.cint(lo, 'slice bound')
        if isinstance(x, str):
            hi = len(x) if hi is None else self.cint(hi, 'slice bound')
            if lo < 0 or hi < lo or hi > len(x):
                raise GoPanic('slice-bounds', 'slice bounds out of range [%d:%d] with length %d' % (lo, hi, len(x)), pos)
            return x[lo:hi]
        if isinstance(x, Ptr):    # *array
            arr = self.load(x, pos)
            hi = len(arr) if hi is None else self.cint(hi, 'slice bound')
            if lo < 0 or hi < lo or hi > len(arr):
                raise GoPanic('slice-bounds', 'slice bounds out of range [%d:%d] with capacity %d' % (lo, hi, len(arr)), pos)
            if x.path:
                # slice of an array embedded in another object: materialise a view cell sharing the list
                return Slice(Cell(arr), lo, hi - lo, len(arr) - lo)
            return Slice(x.cell, lo, hi - lo, len(arr) - lo)
        if x is None:
            hi = 0 if hi is None else self.cint(hi, 'slice bound')
            if lo != 0 or hi != 0:
                raise GoPanic('slice-bounds', 'slice bounds out of range [%d:%d] with capacity 0' % (lo, hi), pos)
            return None
        if isinstance(x, Slice):
            hi = x.len if hi is None else self.cint(hi, 'slice bound')
            cap = x.cap if mx is None else self.cint(mx, 'slice bound')
            if lo < 0 or hi < lo or hi > x.cap or cap > x.cap or hi > cap:
                raise GoPanic('slice-bounds', 'slice bounds out of range [%d:%d] with capacity %d' % (lo, hi, x.cap), pos)
            return Slice(x.cell, x.off + lo, hi - lo, cap - lo)
        raise Unsupported('slice of %r' % type(x))

    def convert(self, x, ft, tt, pos):
        p = self.p
        if isinstance(x, SymName):
            if p.kind(tt) == 'basic':
                return x
            x = x.force(self)
        fu, tu = p.under(ft), p.under(tt)
        fk, tk = fu['kind'], tu['kind']
        if fk == 'basic' and tk == 'basic':
            fb, tb = fu['basic'], tu['basic']
            fi, ti = INTK.get(fb), INTK.get(tb)
            if fi and ti:
                if is_sym(x):
                    fbits, fs = fi
                    tbits, ts = ti
                    if tbits == fbits:
                        return x
                    if tbits < fbits:
                        return simp(z3.Extract(tbits - 1, 0, x))
                    return simp(z3.SignExt(tbits - fbits, x) if fs else z3.ZeroExt(tbits - fbits, x))
                return wrap(x, *ti)
            if fi and 'string' in tb:
                if is_sym(x):
                    raise Unsupported('string(symbolic rune)')
                try:
                    return go_str(chr(x))
                except Exception:
                    return go_str('�')
            if fi and 'float' in tb:
                if is_sym(x):
                    raise Unsupported('symbolic int to float')
                return float(x)
            if 'float' in fb and ti:
                if is_sym(x):
                    raise Unsupported('symbolic float')
                return wrap(int(x), *ti)
            if 'float' in fb and 'float' in tb:
                return x
            if 'string' in fb and 'string' in tb:
                return x
            if fb == 'unsafe.Pointer' or tb == 'unsafe.Pointer':
                return x
            raise Unsupported('convert %s -> %s' % (fb, tb))
        if fk == 'basic' and 'string' in fu['basic'] and tk == 'slice':
            eb = p.under(tu['elem'])['basic']
            if eb in ('uint8', 'byte'):
                return self.mkslice([ord(c) for c in x]) if x != '' else self.mkslice([])
            rs = []
            i = 0
            while i < len(x):
                r, n = decode_rune(x, i)
                rs.append(r)
                i += n
            return self.mkslice(rs)
        if fk == 'slice' and tk == 'basic' and 'string' in tu['basic']:
            if x is None:
                return ''
            items = x.items()
            eb = p.under(fu['elem'])['basic']
            if eb in ('uint8', 'byte'):
                if any(is_sym(b) for b in items):
                    raise Unsupported('string(symbolic bytes)')
                return ''.join(chr(b) for b in items)
            return ''.join(go_str(chr(r)) for r in items)
        if fk == tk:
            return x
        if tk == 'ptr' or fk == 'ptr':
            return x
        raise Unsupported('convert %s -> %s' % (p.tstr(ft), p.tstr(tt)))

    # ------------------------------------------------------------------ builtins
    def builtin(self, fr, name, args, ins):
        pos = ins.get('pos', '')
        if name == 'close':
            ch = args[0]
            if ch is None:
                raise GoPanic('explicit', 'close of nil channel', pos)
            if ch.closed:
                raise GoPanic('explicit', 'close of closed channel', pos)
            ch.closed = True
            return None
        if name in ('len', 'cap') and isinstance(args[0], GoChan):
            return len(args[0].buf) if name == 'len' else args[0].cap
        if name == 'len':
            x = args[0]
            if isinstance(x, SymName):
                x = x.force(self)
            if x is None:
                return 0
            if isinstance(x, str):
                return len(x)
            if isinstance(x, Slice):
                return x.len
            if isinstance(x, GoMap):
                return len(x.d)
            if isinstance(x, list):
                return len(x)
            if isinstance(x, Ptr):
                return len(self.load(x))
            if hasattr(x, 'go_len'):
                return x.go_len()
            raise Unsupported('len of %r' % type(x))
        if name == 'cap':
            x = args[0]
            if x is None:
                return 0
            if isinstance(x, Slice):
                return x.cap
            if isinstance(x, list):
                return len(x)
            raise Unsupported('cap of %r' % type(x))
        if name == 'append':
            a, b = args
            if isinstance(b, str):
                b = self.mkslice([ord(c) for c in b])
            if b is None or b.len == 0:
                return a
            eb = [cp(v) for v in b.items()]
            if a is None:
                return self.mkslice(eb)
            if a.len + len(eb) <= a.cap:
                if self.mut_hook is not None:
                    self.mut_hook(self, 'append', a.cell, pos)
                # in-place (aliasing semantics of Go)
                a.cell.v[a.off + a.len:a.off + a.len + len(eb)] = eb
                return Slice(a.cell, a.off, a.len + len(eb), a.cap)
            items = [cp(v) for v in a.items()] + eb
            newcap = max(2 * a.cap, len(items))
            cell = Cell(items + [copy.copy(self._zero_like(items[0])) for _ in range(newcap - len(items))])
            return Slice(cell, 0, len(items), newcap)
        if name == 'copy':
            d, s = args
            if d is None or s is None:
                return 0
            if isinstance(s, str):
                src = [ord(c) for c in s]
            else:
                src = [cp(v) for v in s.items()]
            n = min(d.len, len(src))
            d.cell.v[d.off:d.off + n] = src[:n]
            return n
        if name == 'delete':
            m, k = args
            if m is not None:
                m.delete(k)
            return None
        if name == 'recover':
            # recover() is effective only when called directly by a deferred function
            for f in reversed(self.frames[:-1]):
                if f.panicking is not None and not f.recovered:
                    f.recovered = True
                    gp = f.panicking
                    if gp.value is not None:
                        return gp.value
                    return Iface(-1, 'runtime error: ' + gp.msg)
                break
            return None
        if name in ('print', 'println'):
            return None
        if name in ('min', 'max'):
            if any(is_sym(a) for a in args):
                raise Unsupported('symbolic min/max')
            return min(args) if name == 'min' else max(args)
        if name == 'clear':
            x = args[0]
            if isinstance(x, GoMap):
                x.d.clear()
            return None
        if name == 'ssa:wrapnilchk':
            if args[0] is None:
                raise GoPanic('nil-deref', 'value method called using nil pointer', pos)
            return args[0]
        raise Unsupported('builtin ' + name)

    def _zero_like(self, v):
        if isinstance(v, list):
            return [self._zero_like(x) for x in v]
        if isinstance(v, bool):
            return False
        if isinstance(v, int):
            return 0
        if isinstance(v, str):
            return ''
        if isinstance(v, float):
            return 0.0
        return None

    # ------------------------------------------------------------------ inits
    def run_init(self, pkg):
        fid = self.p.inits.get(pkg)
        if fid is None:
            return
        fn = self.p.F.get(fid)
        if fn is None:
            return
        self.init_allow.add(fid)
        self.run_init_fn(fn)

    def run_init_fn(self, fn):
        saved = dict(self.intr)
        try:
            self.skip_dep_inits = True
            self.run(fn, [], ())
        finally:
            self.skip_dep_inits = False


def decode_rune(s, i):
    """s: go string (one char per byte). returns (rune, size)"""
    b0 = ord(s[i])
    if b0 < 0x80:
        return b0, 1
    n = 2 if b0 >> 5 == 0b110 else 3 if b0 >> 4 == 0b1110 else 4 if b0 >> 3 == 0b11110 else 0
    if n == 0 or i + n > len(s):
        return 0xFFFD, 1
    try:
        ch = s[i:i + n].encode('latin-1').decode('utf-8')
        return ord(ch), n
    except Exception:
        return 0xFFFD, 1
