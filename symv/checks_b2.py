"""Checks C08, C09, C10, C16 (pipeline B, second part): formatter properties with symbolic
token lines, spelling-equivalence of compilations, and the cmd wrappers with a stubbed
environment."""
import os, sys, json, time, hashlib, collections, itertools, multiprocessing, traceback, re
import z3
from . import core, build, symgo, bfamily, checks_b
from .core import PathCtl, Unsupported, check_valid, is_sym, conc
from .gossa import (Machine, Ptr, Cell, Slice, Iface, Closure, GoMap, GoPanic, GoExit, SymName, SymRope, go_str, cp)
from .symgo import (PARSER, MODEL, MOD, GRAMMAR, ANTLR, Snapshot, to_pystr, filemap_to_py, TOK_TYPE, TOK_LINE, TOK_TEXT, TOK_INDEX, TOK_CHANNEL,
                    TOK_START, TOK_STOP)
from .checks_b import (BFinding, make_machine, decorate, explore, prog_consts, token_types, syntax_errors, panic_sym, model_of, GENS, finish, _CTX)
from .gointr import SYM_MARK, mkerr

VERIF = build.VERIF


# ---------------------------------------------------------------------------- parser stubs: run the real entry points on a snapshot

_RESNAP = {}


def install_parse_stubs(M, snap, native_errors, text=None):
    """the ANTLR front half (lexer + parser) is the native one: its result for the text is the snapshot.  With `text` given, a
    wrapper that hands the library ANOTHER text (truncated, normalised, re-encoded) gets the native parse of that other text"""
    M.env['snap'] = snap
    M.env['listener'] = None
    state = {'snap': snap, 'errors': native_errors}

    def by_content(M_, a):
        p = M_.p
        if text is not None and isinstance(a[0], str) and a[0] != go_str(text):
            got = to_pystr(a[0])
            if got not in _RESNAP:
                _RESNAP[got] = symgo.native_dump([got])[0]
            d2 = _RESNAP[got]
            if d2.get('panic'):
                raise Unsupported('the wrapper alters the text and the native parser panics on the altered text')
            state['snap'] = Snapshot(M_.p, d2).load()
            state['errors'] = d2.get('syntax_errors')
            M_.env['content_altered'] = got
            M_.env['snap'] = state['snap']
        elif text is not None and state.get('calls'):
            # a later call with the original text again (sequences of calls in one machine): a fresh copy of its parse
            state['snap'] = Snapshot(M_.p, snap.dump).load()
            state['errors'] = native_errors
            M_.env['snap'] = state['snap']
        state['calls'] = state.get('calls', 0) + 1
        rec = Ptr(Cell(p.zero(p.tid_of(ANTLR + '.BaseRecognizer')), tag='stub-recognizer'))
        bp = p.zero(p.tid_of(ANTLR + '.BaseParser'))
        bp[0] = rec
        pv = p.zero(p.tid_of(GRAMMAR + '.PacketDslParser'))
        pv[0] = Ptr(Cell(bp, tag='stub-baseparser'))
        stub = Ptr(Cell(pv, tag='stub-parser'))
        M_.env['content'] = a[0]
        return (stub, state['snap'].stream, None)
    M.intr[PARSER + '.NewPacketDslParserByContent'] = by_content
    M.intr['(*%s.BaseRecognizer).RemoveErrorListeners' % ANTLR] = lambda M_, a: None
    M.intr['(*%s.PacketDslParser).RemoveErrorListeners' % GRAMMAR] = lambda M_, a: None
    M.intr['(*%s.BaseRecognizer).AddErrorListener' % ANTLR] = lambda M_, a: add_listener(M_, a)

    def add_listener(M_, a):
        M_.env['listener'] = a[1]
        return None
    M.intr['(*%s.PacketDslParser).AddErrorListener' % GRAMMAR] = add_listener

    def packet(M_, a):
        l = M_.env.get('listener')
        for e in state['errors'] or []:
            if l is not None:
                M_.invoke(l, 'SyntaxError', [None, None, e.get('Line', 1), e.get('Column', 0), go_str(e.get('Msg', 'syntax error')), None], '')
        return state['snap'].tree
    M.intr['(*%s.PacketDslParser).Packet' % GRAMMAR] = packet


def token_seq(dump, consts):
    """[(type, text)] of all tokens (default channel and comments) in stream order, EOF excluded"""
    objs = {o['id']: o for o in dump['objs']}
    st = objs[dump['stream']['p']]
    tl = None
    inp = None
    for f in st['fields']:
        if isinstance(f, dict) and 's' in f:
            tl = objs[f['s']]
    out = []
    data = None
    for o in dump['objs']:
        if o['type'].endswith('.InputStream'):
            for f in o['fields']:
                if isinstance(f, dict) and 's' in f:
                    data = objs[f['s']].get('items') or []
    for it in (tl.get('items') or []) if tl else []:
        o = objs[it['v']['p']]
        bt = o['fields'][0]['struct']
        ty = bt[TOK_TYPE]
        if ty == -1:
            continue
        txt = bt[TOK_TEXT]['str'] if isinstance(bt[TOK_TEXT], dict) else ''
        if not txt and data is not None:
            txt = ''.join(chr(c) for c in data[bt[TOK_START]:bt[TOK_STOP] + 1])
        out.append((ty, txt.rstrip() if ty == consts['LINE_COMMENT'] else txt))
    return out


def comment_relation_constraints(info, toktypes, consts):
    """layout-canonical quantifier: all line assignments that keep every comment on the line of the same token"""
    asm = []
    lines = info['lines']
    n = len(toktypes)
    for i, ty in enumerate(toktypes):
        if ty != consts['LINE_COMMENT'] or i not in lines:
            continue
        L, orig = lines[i]
        if i > 0 and (i - 1) in lines:
            pl, po = lines[i - 1]
            asm.append((L == pl) if orig == po else (L > pl))
        if (i + 1) in lines:
            nl, no = lines[i + 1]
            asm.append(nl > L)         # a line comment extends to the end of its line
    return asm


# ---------------------------------------------------------------------------- C09 / C10

def format_paths(t, dump, prog, mode, sym=True):
    """run the formatter with symbolic lines (sym=False: with the lines the text has); returns list of (output, pc, info)"""
    consts = prog_consts(prog)
    toktypes = token_types(dump)
    holder = {}

    def fmt(c):
        M = make_machine(c)
        snap = Snapshot(prog, dump).load()
        asm, info = decorate(M, snap, sym_lines='all' if sym else False, text=t.text, sym_cols=(sym and mode == 'c10'))
        if sym:
            asm += comment_relation_constraints(info, toktypes, consts)
        holder['info'] = info
        for a in asm:
            c.assume(a)
        install_parse_stubs(M, snap, dump.get('syntax_errors'))
        ost = {}
        if mode in ('c10', 'c09'):
            # the formatter is a function of its input: the iteration order of any Go map it ranges over is a choice of the path
            M.map_order_hook = checks_b.permuting_order_hook(c, ost)
        r = M.call(PARSER + '.FormatPacketDsl', [go_str(t.text)])
        return (to_pystr(r[0]) if isinstance(r[0], str) else r[0], r[1], bool(ost.get('deviated')))
    ctl, paths = explore([], fmt, 128)
    return paths, holder.get('info')


def c09_text(t, dump, tier):
    res = []
    stats = {'paths': 0, 'inconclusive': []}
    prog = symgo.repo_prog()
    consts = prog_consts(prog)
    if dump.get('panic'):
        return res, stats
    try:
        paths, info = format_paths(t, dump, prog, 'c09')
    except Unsupported as u:
        stats['inconclusive'].append('format: %s' % str(u)[:150])
        return res, stats
    outs = []
    for (kind, val), pc in paths:
        stats['paths'] += 1
        if kind != 'ok':
            continue                       # crashes are C11's
        out, err = val[0], val[1]
        if dump.get('syntax_errors'):
            # error path: the input is returned unchanged together with an error
            if err is None:
                res.append(BFinding('C09', 'format', t.tag, 'error-path:no-error', 'syntax errors present but FormatPacketDsl returns a nil error', {'text': t.text}))
            if out != t.text:
                res.append(BFinding('C09', 'format', t.tag, 'error-path:text-changed', 'on a syntax error the returned text differs from the input', {'text': t.text}))
            continue
        if err is not None:
            res.append(BFinding('C09', 'format', t.tag, 'spurious-error', 'valid text: formatter reports %s' % symgo.err_text(None, err) if False else 'valid text: formatter reports an error', {'text': t.text}))
            continue
        if out not in outs:
            outs.append(out)
    if dump.get('syntax_errors') or not outs:
        return res, stats
    # translator validation: the native formatter's output for the text as laid out must be one of the engine's outputs
    try:
        nfm = symgo.native_run([t.text], orders=[], fmt=True, visit=False)[0]
        if not nfm.get('format_panic') and not nfm.get('fatal') and not nfm.get('format_err'):
            stats['validated'] = stats.get('validated', 0) + 1
            if nfm.get('format') not in outs:
                stats.setdefault('validation_failures', []).append('format: native output %r is none of the engine\'s %d outputs' % ((nfm.get('format') or '')[:80], len(outs)))
    except Exception as e:
        stats.setdefault('validation_failures', []).append('native run failed: %s' % str(e)[:100])
    # the formatted text must parse, keep every token (comments and doc strings included) in order, and compile identically
    want = token_seq(dump, consts)
    nat = symgo.native_dump(outs)
    # "compiles identically": decided on the visited model (positions left out, maps in key order), which is what the
    # generators are a function of -- the generated files themselves depend on Go's map iteration order for some texts
    # (C13's subject), so comparing two native runs byte for byte would alarm at random.  When the models differ the
    # outputs are compared as well (four runs each, per-file digests as sets) so that a model difference that no
    # generator can observe is not reported.
    runs = symgo.native_run([t.text] + outs, orders=[], fmt=False, visit=True)
    base = runs[0]
    seps = (consts['COMMA'], consts['SEMICOLON'])
    want = [x for x in want if x[0] not in seps]
    for o, d, r in zip(outs, nat, runs[1:]):
        if d.get('syntax_errors') or d.get('panic'):
            e = (d.get('syntax_errors') or [{}])[0]
            res.append(BFinding('C09', 'format', t.tag, 'output-unparsable', 'formatted text does not parse: line %s: %s' % (e.get('Line'), str(e.get('Msg'))[:80]),
                                {'text': t.text, 'formatted': o}))
            continue
        got = [x for x in token_seq(d, consts) if x[0] not in seps]
        if got != want:
            k = 0
            while k < min(len(got), len(want)) and got[k] == want[k]:
                k += 1
            missing = want[k] if k < len(want) else None
            kindname = [n for n, v in consts.items() if missing and v == missing[0]]
            # the identity of the finding is the exact multiset of tokens that disappear (and appear): another comment or another
            # declaration lost from the same text is another finding
            cw, cg = collections.Counter(want), collections.Counter(got)
            lost = sorted((cw - cg).elements())
            gained = sorted((cg - cw).elements())
            kn = lambda ty: ([n for n, v in consts.items() if v == ty and n.isupper()] or ['T%s' % ty])[0]
            ident = hashlib.sha1(repr((lost, gained)).encode()).hexdigest()[:8]
            what = 'token-lost:%s' % (kindname[0] if kindname else 'EOF')
            if lost or gained:
                what = 'tokens:-%d+%d:%s:%s' % (len(lost), len(gained), '+'.join(sorted(set(kn(x[0]) for x in lost + gained)))[:60], ident)
            else:
                what = 'tokens-reordered:%s:%s' % (kindname[0] if kindname else 'EOF', hashlib.sha1(repr(got).encode()).hexdigest()[:8])
            res.append(BFinding('C09', 'format', t.tag, what,
                                'token sequence changes at position %d: input has %r, output has %r; lost %s; new %s' % (
                                    k, missing, got[k] if k < len(got) else None, [x[1] for x in lost][:8], [x[1] for x in gained][:8]),
                                {'text': t.text, 'formatted': o}))
            continue
        if not base.get('panic') and not base.get('model_errors') and base.get('model_digest'):
            if r.get('model_errors') or r.get('panic'):
                res.append(BFinding('C09', 'format', t.tag, 'compile-differs', 'formatted text is diagnosed (%s) where the input compiles' % str((r.get('model_errors') or [r.get('panic')])[0])[:80],
                                    {'text': t.text, 'formatted': o}))
            elif r.get('model_digest') != base.get('model_digest') and outputs_disjoint(t.text, o):
                res.append(BFinding('C09', 'format', t.tag, 'compile-differs', 'formatted text compiles to a different model and different outputs', {'text': t.text, 'formatted': o}))
    return res, stats


def norm_run(r):
    """order-insensitive digest of the generated files (map-iteration nondeterminism is C13's subject, not C09's)"""
    for g in r.get('gens') or []:
        for gen, files in (g.get('files') or {}).items():
            for k in list(files):
                body = files[k]
                body = re.sub(r'Copyright \d+', 'Copyright Y', body)
                files[k] = hashlib.sha1('\n'.join(sorted(body.split('\n'))).encode()).hexdigest()[:12]
    return r


def outputs_disjoint(a, b, n=4):
    """some generated file of b never equals (as a multiset of lines) any observed version of that file for a, over n runs each"""
    runs = [norm_run(r) for r in symgo.native_run([a] * n + [b] * n, orders=[GENS], fmt=False, visit=False, content=True)]

    def sets(rs):
        d = {}
        for r in rs:
            for g in r.get('gens') or []:
                if g.get('panic'):
                    d.setdefault(('panic', ''), set()).add(g['panic'])
                for gen, files in (g.get('files') or {}).items():
                    for k, v in files.items():
                        d.setdefault((gen, k), set()).add(v)
        return d
    sa, sb = sets(runs[:n]), sets(runs[n:])
    if set(sa) != set(sb):
        return True
    return any(not (sa[k] & sb[k]) for k in sa)


def c10_text(t, dump, tier):
    res = []
    stats = {'paths': 0, 'inconclusive': []}
    prog = symgo.repo_prog()
    if dump.get('panic') or dump.get('syntax_errors'):
        return res, stats
    try:
        paths, info = format_paths(t, dump, prog, 'c10')
    except Unsupported as u:
        stats['inconclusive'].append('format: %s' % str(u)[:150])
        return res, stats
    outs = []
    first = None
    for (kind, val), pc in paths:
        stats['paths'] += 1
        if kind != 'ok' or val[1] is not None:
            continue
        out = val[0]
        if first is None:
            first = (out, pc)
        elif out != first[0] and out not in outs:
            mdl = model_of(pc)
            lay = layout_text(t.text, info, mdl) if mdl is not None else None
            mdl0 = model_of(first[1])
            lay0 = layout_text(t.text, info, mdl0) if mdl0 is not None else None
            if len(val) > 2 and val[2]:
                res.append(BFinding('C10', 'format', t.tag, 'map-order-dependent', 'the formatted text depends on the iteration order of a Go map: the same input formats to different texts from run to run',
                                    {'text': t.text, 'a': first[0][:300], 'b': out[:300]}))
            else:
                res.append(BFinding('C10', 'format', t.tag, 'layout-dependent', 'two layouts of the same tokens (comments kept on the line of the same token) format differently',
                                    {'text': t.text, 'relayout': lay, 'relayout_base': lay0, 'a': first[0][:300], 'b': out[:300]}))
        if out not in outs:
            outs.append(out)
    if not outs:
        return res, stats
    # canonical re-layout: the same tokens one blank apart (line structure of the first path's model) are lexed again by the real
    # lexer - character offsets, columns and the blanks inside multi-token rules all change - and must format to the same text
    try:
        mdl0 = model_of(first[1])
        if mdl0 is not None and info is not None:
            R = layout_text(t.text, info, mdl0)
            dR = symgo.native_dump([R])[0]
            same_tokens = (not dR.get('syntax_errors') and not dR.get('panic')
                           and [x[1] for x in token_seq(dR, prog_consts(prog))] == [x[1] for x in token_seq(dump, prog_consts(prog))])
            if same_tokens:
                pR, _ = format_paths(bfamily.T(t.tag, R), dR, prog, 'c10r', sym=False)
                for (kind, val), pc in pR:
                    stats['paths'] += 1
                    if kind == 'ok' and val[1] is None and val[0] != first[0]:
                        res.append(BFinding('C10', 'format', t.tag, 'layout-dependent:relexed', 'the same tokens written one blank apart format differently',
                                            {'text': t.text, 'relayout': R, 'a': first[0][:300], 'b': val[0][:300]}))
                        break
    except Unsupported as u:
        stats['inconclusive'].append('re-layout: %s' % str(u)[:150])
    # idempotence inside ONE process: format(x) and then format(format(x)) in the same machine (package-level state survives
    # between the two calls, as it does in an editor host that uses the exported library function)
    try:
        def once(c):
            M = make_machine(c)
            snap = Snapshot(prog, dump).load()
            install_parse_stubs(M, snap, None)
            return M.call(PARSER + '.FormatPacketDsl', [go_str(t.text)])
        _, p0 = explore([], once, 4)
        out0 = [to_pystr(v[0]) for (k, v), pc in p0 if k == 'ok' and v[1] is None]
        if out0:
            d0 = symgo.native_dump([out0[0]])[0]
            if not d0.get('syntax_errors') and not d0.get('panic'):
                def twice(c):
                    M = make_machine(c)
                    snap = Snapshot(prog, dump).load()
                    install_parse_stubs(M, snap, None)
                    r1 = M.call(PARSER + '.FormatPacketDsl', [go_str(t.text)])
                    snap2 = Snapshot(prog, d0).load()
                    install_parse_stubs(M, snap2, None)
                    r2 = M.call(PARSER + '.FormatPacketDsl', [go_str(out0[0])])
                    return to_pystr(r1[0]), to_pystr(r2[0]) if isinstance(r2[0], str) else r2[0]
                _, p2 = explore([], twice, 4)
                for (k, v), pc in p2:
                    stats['paths'] += 1
                    if k == 'ok' and v[1] != v[0]:
                        res.append(BFinding('C10', 'format', t.tag, 'not-idempotent:same-process', 'a second format call in the same process changes the already formatted text',
                                            {'text': t.text, 'once': v[0][:400], 'twice': str(v[1])[:400]}))
    except Unsupported as u:
        stats['inconclusive'].append('same-process idempotence: %s' % str(u)[:150])
    nat = symgo.native_dump(outs)
    for o, d in zip(outs, nat):
        if d.get('syntax_errors') or d.get('panic'):
            continue                      # C09's finding
        t2 = bfamily.T(t.tag, o)
        try:
            # idempotence proper: the formatted text as it is laid out (its re-layouts are re-layouts of the original's tokens
            # and are covered by the canonicality obligation above)
            p2, _ = format_paths(t2, d, prog, 'c10b', sym=False)
        except Unsupported as u:
            stats['inconclusive'].append('second pass: %s' % str(u)[:150])
            continue
        for (kind, val), pc in p2:
            stats['paths'] += 1
            if kind != 'ok' or val[1] is not None:
                continue
            if val[0] != o:
                res.append(BFinding('C10', 'format', t.tag, 'not-idempotent', 'formatting the formatted text changes it again', {'text': t.text, 'once': o, 'twice': val[0][:400]}))
                break
    return res, stats


def layout_text(text, info, model):
    """re-layout of the source text realising the model's line assignment (tokens in order, one space apart, line breaks where the lines differ)"""
    toks = info['tokens']
    out = []
    cur = None
    rs = list(text)
    for i, c in enumerate(toks):
        bt = c.v[0]
        if bt[TOK_TYPE] == -1:
            continue
        L = info['lines'][i][0]
        ln = model.eval(L, model_completion=True).as_long()
        s = ''.join(rs[bt[TOK_START]:bt[TOK_STOP] + 1])
        if cur is None:
            cur = ln
        if ln != cur:
            out.append('\n' * min(ln - cur, 2))
            cur = ln
        elif out:
            out.append(' ')
        if i in (info.get('cols') or {}):
            # realise the model's column when the text so far allows it
            col = model.eval(info['cols'][i][0], model_completion=True).as_long()
            sofar = ''.join(out)
            here = len(sofar) - (sofar.rfind('\n') + 1)
            if here <= col < 4096:
                out.append(' ' * (col - here))
        out.append(s)
    return ''.join(out) + '\n'


# ---------------------------------------------------------------------------- C16

def file_mode_obligation(prop, t, dump, tier, res, stats):
    """C09/C10 speak about texts, but users format FILES: `format -f` must leave exactly the formatter's result in the file
    (the wrapper is run in the engine with the file holding the unformatted text); findings are reported under the property
    whose check runs, C16 reports the same thing under its own id"""
    r, s = c16_text(t, dump, tier, modes=('file',), export=False)
    stats['paths'] += s.get('paths', 0)
    stats['inconclusive'].extend('file mode: ' + x for x in s.get('inconclusive', []))
    for f in r:
        res.append(BFinding(prop, f.locus, f.tag, 'file-mode:' + f.symptom, f.detail, f.cex))


def c16_text(t, dump, tier, modes=('dsl', 'file', 'file+readerr', 'file+writeerr', 'none'), export=True):
    """the cmd wrappers run in the engine: formatCmd.Run, FormatPacketDslExport, Execute's argument handling, Compile + WriteCodeToFile"""
    res = []
    stats = {'paths': 0, 'inconclusive': []}
    prog = symgo.repo_prog()
    if dump.get('panic'):
        return res, stats
    run_fn = find_format_run(prog)
    if run_fn is None:
        stats['inconclusive'].append('formatCmd.Run closure not found')
        return res, stats
    # library result for this text (real FormatPacketDsl in the engine)
    lib = lib_format(t, dump, prog)
    if lib is None:
        return res, stats
    lib_out, lib_err = lib
    for mode in modes:
        def run(c, mode=mode):
            M = make_machine(c)
            snap = Snapshot(prog, dump).load()
            install_parse_stubs(M, snap, dump.get('syntax_errors'), text=t.text)
            M.run_init(MOD + '/cmd') if False else None
            set_global(M, MOD + '/cmd.dsl', go_str(t.text) if mode == 'dsl' else '')
            set_global(M, MOD + '/cmd.file', go_str('/work/in.dsl') if mode.startswith('file') else '')
            M.env['fs'].clear()
            if mode.startswith('file'):
                M.env['fs']['/work/in.dsl'] = t.text.encode()
                M.env['readfile'] = None if mode == 'file+readerr' else [ord(ch) for ch in go_str(t.text)]
            if mode == 'file+writeerr':
                M.env['writefile_err'] = mkerr('disk full')
            M.effects = []
            M.stdout = []
            code = 0
            try:
                install_cobra_stubs(M)
                M.run_init(MOD + '/cmd')
                set_global(M, MOD + '/cmd.dsl', go_str(t.text) if mode == 'dsl' else '')
                set_global(M, MOD + '/cmd.file', go_str('/work/in.dsl') if mode.startswith('file') else '')
                fc = M.load(M.gptr(MOD + '/cmd.formatCmd', gtid(M, MOD + '/cmd.formatCmd')))
                M.effects = []
                M.stdout = []
                M.call(run_fn, [fc, None])
            except GoExit as ge:
                code = ge.code
            return code, list(M.effects), [x for x in M.stdout], dict(M.env['fs'])
        try:
            ctl, paths = explore([], run, 16)
        except Unsupported as u:
            stats['inconclusive'].append('%s: %s' % (mode, str(u)[:150]))
            continue
        except (GoPanic, GoExit):
            raise
        except Exception as ex:           # an engine defect in one entry point must not silence the others
            stats['inconclusive'].append('%s: engine error %s: %s' % (mode, type(ex).__name__, str(ex)[:120]))
            continue
        for (kind, val), pc in paths:
            stats['paths'] += 1
            if kind == 'panic':
                continue
            if kind == 'exit':
                code, effects, out, fs = val, [], [], {}
            else:
                code, effects, out, fs = val
            stdout = ''.join(to_pystr(x) if isinstance(x, str) else '<sym>' for x in out)
            writes = [e for e in effects if e[0] in ('WriteFile', 'Write', 'Create', 'OpenFile')]
            if mode == 'dsl':
                if lib_err is None:
                    if stdout not in (lib_out, lib_out + '\n'):
                        res.append(BFinding('C16', 'cmd:format-d', t.tag, 'stdout-differs', 'format -d prints %r, the library result is %r' % (stdout[:120], lib_out[:120]), {'text': t.text}))
                    if code != 0:
                        res.append(BFinding('C16', 'cmd:format-d', t.tag, 'exit-nonzero', 'exit status %s on success' % code, {'text': t.text}))
                else:
                    if code == 0:
                        res.append(BFinding('C16', 'cmd:format-d', t.tag, 'error-exit-zero', 'syntax error but exit status 0', {'text': t.text}))
                if writes:
                    res.append(BFinding('C16', 'cmd:format-d', t.tag, 'writes-file', 'format -d writes files: %s' % writes[:2], {'text': t.text}))
            elif mode == 'file':
                if lib_err is None:
                    if fs.get('/work/in.dsl') != lib_out.encode():
                        res.append(BFinding('C16', 'cmd:format-f', t.tag, 'file-differs', 'format -f leaves %r in the file, the library result is %r' % (
                            (fs.get('/work/in.dsl') or b'')[:100], lib_out[:100]), {'text': t.text}))
                    if [w for w in writes if w[1] != '/work/in.dsl']:
                        res.append(BFinding('C16', 'cmd:format-f', t.tag, 'writes-elsewhere', 'format -f writes %s' % writes[:2], {'text': t.text}))
                    if code != 0:
                        res.append(BFinding('C16', 'cmd:format-f', t.tag, 'exit-nonzero', 'exit status %s on success' % code, {'text': t.text}))
                else:
                    if code == 0:
                        res.append(BFinding('C16', 'cmd:format-f', t.tag, 'error-exit-zero', 'syntax error but exit status 0', {'text': t.text}))
                    if writes or fs.get('/work/in.dsl') != t.text.encode():
                        res.append(BFinding('C16', 'cmd:format-f', t.tag, 'error-touches-file', 'syntax error but the file is written', {'text': t.text}))
            elif mode == 'file+readerr':
                if code == 0 or writes:
                    res.append(BFinding('C16', 'cmd:format-f', t.tag, 'readerr-ignored', 'unreadable file: exit %s, writes %s' % (code, writes[:1]), {'text': t.text}))
            elif mode == 'none':
                if code == 0 or writes:
                    res.append(BFinding('C16', 'cmd:format', t.tag, 'noinput-ignored', 'no input given: exit %s' % code, {'text': t.text}))
    # C export
    exp = MOD + '/cmd.FormatPacketDslExport'
    if export and exp in prog.F:
        def run2(c):
            M = make_machine(c)
            snap = Snapshot(prog, dump).load()
            install_parse_stubs(M, snap, dump.get('syntax_errors'), text=t.text)
            install_cgo_stubs(M)
            r = M.call(exp, [('cstr', go_str(t.text))])
            return r
        try:
            ctl, paths = explore([], run2, 8)
            for (kind, val), pc in paths:
                stats['paths'] += 1
                if kind != 'ok':
                    continue
                s = to_pystr(val[1]) if isinstance(val, tuple) and val[0] == 'cstr' else None
                if lib_err is None:
                    if s != lib_out:
                        res.append(BFinding('C16', 'lib:FormatPacketDslExport', t.tag, 'result-differs', 'C export returns %r, the library result is %r' % ((s or '')[:100], lib_out[:100]), {'text': t.text}))
                else:
                    if s is None or not s.startswith('Error:'):
                        res.append(BFinding('C16', 'lib:FormatPacketDslExport', t.tag, 'error-not-prefixed', 'syntax error: C export returns %r' % ((s or '')[:100]), {'text': t.text}))
        except Unsupported as u:
            stats['inconclusive'].append('export: %s' % str(u)[:150])
        except (GoPanic, GoExit):
            raise
        except Exception as ex:
            stats['inconclusive'].append('export: engine error %s: %s' % (type(ex).__name__, str(ex)[:120]))
        # the library lives inside a long-running host (an editor): the SAME machine answers a sequence of calls - the text, the
        # text again, another text, the text once more - and every answer for the text must be the answer of the first call's
        # specification (package-level state of the wrapper survives between the calls)
        other = 'root packet Zz {\n    u8 q,\n}\n' if 'packet Zz' not in t.text else 'root packet Yy {\n    u8 q,\n}\n'

        def run3(c):
            M = make_machine(c)
            snap = Snapshot(prog, dump).load()
            install_parse_stubs(M, snap, dump.get('syntax_errors'), text=t.text)
            install_cgo_stubs(M)
            outs = []
            for txt in (t.text, t.text, other, t.text):
                # the parse stub answers with the native parse of whatever text the wrapper hands the library
                r = M.call(exp, [('cstr', go_str(txt))])
                outs.append(to_pystr(r[1]) if isinstance(r, tuple) and r[0] == 'cstr' else None)
            return outs
        try:
            if len(t.text) < 20000:
                ctl, paths = explore([], run3, 8)
                for (kind, val), pc in paths:
                    stats['paths'] += 1
                    if kind != 'ok':
                        continue
                    for i in (1, 3):
                        ok = (val[i] == lib_out) if lib_err is None else (val[i] is not None and val[i].startswith('Error:'))
                        ok0 = (val[0] == lib_out) if lib_err is None else (val[0] is not None and val[0].startswith('Error:'))
                        if ok0 and not ok:
                            res.append(BFinding('C16', 'lib:FormatPacketDslExport', t.tag, 'repeated-call-differs', 'call %d of a sequence in one process returns %r where the first call returned %r' % (
                                i + 1, (val[i] or '')[:80], (val[0] or '')[:80]), {'text': t.text}))
                            break
        except Unsupported as u:
            stats['inconclusive'].append('export sequence: %s' % str(u)[:150])
        except (GoPanic, GoExit):
            raise
        except Exception as ex:
            stats['inconclusive'].append('export sequence: engine error %s: %s' % (type(ex).__name__, str(ex)[:120]))
    elif export:
        stats['inconclusive'].append('FormatPacketDslExport not in the SSA dump')
    return res, stats


def install_cgo_stubs(M):
    for fid in list(M.p.F) + list(M.p.extern):
        base = fid.split('.')[-1]
        if base == '_Cfunc_GoString':
            M.intr[fid] = lambda M_, a: a[0][1] if isinstance(a[0], tuple) else ''
        elif base == '_Cfunc_CString':
            M.intr[fid] = lambda M_, a: ('cstr', a[0])
        elif base == '_Cfunc_strlen':
            M.intr[fid] = lambda M_, a: len(a[0][1]) if isinstance(a[0], tuple) else 0
        elif base == '_Cfunc_strnlen':
            M.intr[fid] = lambda M_, a: min(len(a[0][1]), a[1]) if isinstance(a[0], tuple) else 0
        elif base == '_Cfunc_GoStringN':
            M.intr[fid] = lambda M_, a: a[0][1][:max(0, a[1])] if isinstance(a[0], tuple) else ''
        elif base.startswith('_cgo_') or base.startswith('_Cfunc_') or base.startswith('_cgoCheck'):
            M.intr.setdefault(fid, lambda M_, a: None)


def lib_format(t, dump, prog):
    def run(c):
        M = make_machine(c)
        snap = Snapshot(prog, dump).load()
        install_parse_stubs(M, snap, dump.get('syntax_errors'), text=t.text)
        return M.call(PARSER + '.FormatPacketDsl', [go_str(t.text)])
    try:
        ctl, paths = explore([], run, 8)
    except Unsupported:
        return None
    for (kind, val), pc in paths:
        if kind == 'ok':
            return (to_pystr(val[0]) if isinstance(val[0], str) else val[0], val[1])
    return None


def set_global(M, name, v):
    for g in M.p.D['globals']:
        if g['id'] == name:
            M.store(M.gptr(name, g['t']), v)
            return
    raise Unsupported('global %s not in dump' % name)


def find_format_run(prog):
    """the closure assigned to formatCmd.Run: the anonymous function of package main's init that mentions FormatPacketDsl"""
    for fid, fn in prog.F.items():
        if fid.startswith(MOD + '/cmd.init$') or fid.startswith(MOD + '/cmd.init#'):
            for b in fn['blocks']:
                for i in b['instrs']:
                    if i['op'] == 'Call' and i['args'] and i['args'][0].get('n') == PARSER + '.FormatPacketDsl':
                        return fid
    return None


# ---------------------------------------------------------------------------- C16: Execute (argument rewriting) with a minimal cobra model

COBRA = 'github.com/spf13/cobra'


def install_cobra_stubs(M):
    """cobra is third-party and not encoded: the stubs keep the command tree built by the package's init functions and
    dispatch exactly one (sub)command with flags assigned from argv (-x v / --long v / --long=v)"""
    reg = M.env.setdefault('cobra', {'flags': {}, 'children': []})
    p = M.p
    ctid = p.tid_of(COBRA + '.Command')
    if ctid is None:
        raise Unsupported('cobra.Command not in the SSA dump')
    names = [f['name'] for f in p.under(ctid)['fields']]

    def flags(M_, a):
        return ('flagset', a[0])
    M.intr['(*%s.Command).Flags' % COBRA] = flags
    M.intr['(*%s.Command).PersistentFlags' % COBRA] = flags

    def stringvarp(M_, a):
        fs, ptr, name, short = a[0], a[1], a[2], a[3]
        reg['flags'].setdefault(fs[1], []).append((ptr, name, short))
        M_.store(ptr, a[4])
        return None
    M.intr['(*github.com/spf13/pflag.FlagSet).StringVarP'] = stringvarp

    def slicevarp(kind):
        def f(M_, a):
            fs, ptr, name, short = a[0], a[1], a[2], a[3]
            reg['flags'].setdefault(fs[1], []).append((ptr, name, short, kind))
            M_.store(ptr, a[4])
            return None
        return f
    # pflag: a StringSlice value is read as one CSV record and appended; a StringArray value is appended as it is
    M.intr['(*github.com/spf13/pflag.FlagSet).StringSliceVarP'] = slicevarp('slice')
    M.intr['(*github.com/spf13/pflag.FlagSet).StringArrayVarP'] = slicevarp('array')

    def addcommand(M_, a):
        for c in (a[1].items() if a[1] is not None else []):
            reg['children'].append(c)
        return None
    M.intr['(*%s.Command).AddCommand' % COBRA] = addcommand
    M.intr['(*%s.Command).Commands' % COBRA] = lambda M_, a: M_.mkslice(list(reg['children']))

    def cname(M_, a):
        use = M_.load(a[0])[names.index('Use')]
        return use.split(' ')[0]
    M.intr['(*%s.Command).Name' % COBRA] = cname
    M.intr['%s.NoArgs' % COBRA] = lambda M_, a: None

    def execute(M_, a):
        argv = [to_pystr(x) for x in M_.load(M_.gptr('os.Args', gtid(M_, 'os.Args'))).items()]
        args = argv[1:]
        cmd = None
        for c in reg['children']:
            if args and cname(M_, [c]) == args[0]:
                cmd = c
                args = args[1:]
                break
        if cmd is None:
            if '--help' in args or '-h' in args:
                M_.stdout.append('usage\n')
                return None
            return mkerr('unknown command')
        fl = reg['flags'].get(cmd, [])
        i = 0
        while i < len(args):
            a0 = args[i]
            val = None
            key = None
            if a0.startswith('--'):
                key = a0[2:]
                if '=' in key:
                    key, val = key.split('=', 1)
            elif a0.startswith('-'):
                key = a0[1:]
            hit = [f for f in fl if key is not None and key in (to_pystr(f[1]), to_pystr(f[2]))]
            if not hit:
                return mkerr('unknown flag: ' + a0)
            if val is None:
                i += 1
                val = args[i] if i < len(args) else ''
            kind = hit[0][3] if len(hit[0]) > 3 else 'string'
            if kind == 'string':
                M_.store(hit[0][0], go_str(val))
            else:
                import csv as _csv
                if kind == 'slice':
                    try:
                        parts = next(_csv.reader([val], strict=True)) if val != '' else []
                    except Exception:
                        return mkerr('invalid argument %r for flag: parse error' % val)
                else:
                    parts = [val]
                seen_key = ('slice-set', id(hit[0][0].cell) if hasattr(hit[0][0], 'cell') else 0, to_pystr(hit[0][1]))
                cur = M_.load(hit[0][0])
                old = list(cur.items()) if (cur is not None and seen_key in reg) else []       # the first use replaces the default
                reg[seen_key] = True
                M_.store(hit[0][0], M_.mkslice(old + [go_str(x) for x in parts]))
            i += 1
        st = M_.load(cmd)
        run, rune = st[names.index('Run')], st[names.index('RunE')]
        if rune is not None:
            return M_.call_value(rune, [cmd, None])
        if run is not None:
            M_.call_value(run, [cmd, None])
        return None
    M.intr['(*%s.Command).Execute' % COBRA] = execute
    M.intr['(*%s.Command).OutOrStdout' % COBRA] = lambda M_, a: Iface(-5, 'stdout')
    M.intr['(*%s.Command).OutOrStderr' % COBRA] = lambda M_, a: Iface(-5, 'stderr')
    M.intr['(*%s.Command).ErrOrStderr' % COBRA] = lambda M_, a: Iface(-5, 'stderr')

    def fprint(kind):
        def f(M_, a):
            from . import gointr
            w = a[0]
            if kind == 'f':
                sx = gointr.sprintf(M_, a[1], gointr.varargs(a[2]))
            else:
                sx = gointr.sprint(M_, gointr.varargs(a[1]), kind == 'ln')
            if isinstance(w, Iface) and w.v == 'stdout' or (isinstance(w, Ptr) and getattr(w.cell, 'tag', '') == 'global:os.Stdout'):
                M_.stdout.append(sx)
            return (len(sx), None)
        return f
    M.intr['fmt.Fprintf'] = fprint('f')
    M.intr['fmt.Fprintln'] = fprint('ln')
    M.intr['fmt.Fprint'] = fprint('')


def gtid(M, name):
    for g in M.p.D['globals']:
        if g['id'] == name:
            return g['t']
    raise Unsupported('global %s not in the dump' % name)


def c16_execute(t, dump, tier, lib):
    res = []
    stats = {'paths': 0, 'inconclusive': []}
    prog = symgo.repo_prog()
    lib_out, lib_err = lib
    for argv in (['fin-protoc', 'format', '-d', t.text], ['fin-protoc', 'format', '--file', '/work/in.dsl']):
        def run(c, argv=argv):
            M = make_machine(c)
            snap = Snapshot(prog, dump).load()
            install_parse_stubs(M, snap, dump.get('syntax_errors'), text=t.text)
            install_cobra_stubs(M)
            M.run_init(MOD + '/cmd')
            M.store(M.gptr('os.Args', gtid(M, 'os.Args')), M.mkslice([go_str(x) for x in argv]))
            M.env['fs'].clear()
            M.env['fs']['/work/in.dsl'] = t.text.encode()
            M.env['readfile'] = [ord(ch) for ch in go_str(t.text)]
            M.effects = []
            M.stdout = []
            code = 0
            try:
                M.call(MOD + '/cmd.Execute', [])
            except GoExit as ge:
                code = ge.code
            return code, list(M.effects), list(M.stdout), dict(M.env['fs'])
        try:
            ctl, paths = explore([], run, 8)
        except Unsupported as u:
            stats['inconclusive'].append('execute %s: %s' % (argv[1:3], str(u)[:150]))
            continue
        for (kind, val), pc in paths:
            stats['paths'] += 1
            if kind != 'ok':
                continue
            code, effects, out, fs = val
            stdout = ''.join(to_pystr(x) if isinstance(x, str) else '<sym>' for x in out)
            if argv[2] == '-d' and lib_err is None and stdout not in (lib_out, lib_out + '\n'):
                extra = stdout.replace(lib_out, '<result>') if lib_out else stdout
                res.append(BFinding('C16', 'cmd:Execute format -d', t.tag, 'stdout-extra', 'standard output is %r where <result> is the formatter\'s text' % extra[:80], {'text': t.text}))
            if argv[2] == '--file' and lib_err is None and fs.get('/work/in.dsl') != lib_out.encode():
                res.append(BFinding('C16', 'cmd:Execute format -f', t.tag, 'file-differs', 'file holds %r' % (fs.get('/work/in.dsl') or b'')[:80], {'text': t.text}))
            if lib_err is not None and code == 0:
                res.append(BFinding('C16', 'cmd:Execute ' + ' '.join(argv[1:3]), t.tag, 'error-exit-zero', 'syntax error but exit status 0', {'text': t.text}))
    # compile with and without the subcommand word: same exit status, same files - also when a flag VALUE happens to be a
    # subcommand name or the input file is called like one
    if lib_err is None and not dump.get('syntax_errors') and t.tag.startswith(('p:', 'c:', 'l:', 'f:obj', 'f:match', 'f:inline')):
        for tail in (['-f', 'in.dsl', '-g', 'format'], ['-f', 'in.dsl', '-r', 'compile', '-p', 'out/py'], ['-f', 'format', '-j', 'help']):
            outs = []
            for argv in (['fin-protoc'] + tail, ['fin-protoc', 'compile'] + tail):
                def runc(c, argv=argv):
                    M = make_machine(c)
                    snap = Snapshot(prog, dump).load()
                    install_parse_stubs(M, snap, None)
                    install_cobra_stubs(M)
                    M.run_init(MOD + '/cmd')
                    m = M.call(PARSER + '.VerifVisit', [snap.tree])
                    M.env['parse_result'] = m
                    M.store(M.gptr('os.Args', gtid(M, 'os.Args')), M.mkslice([go_str(x) for x in argv]))
                    M.env['fs'].clear()
                    M.effects = []
                    M.stdout = []
                    code = 0
                    try:
                        M.call(MOD + '/cmd.Execute', [])
                    except GoExit as ge:
                        code = ge.code
                    return code, dict(M.env['fs'])
                try:
                    _, pp = explore([], runc, 8)
                except Unsupported as u:
                    stats['inconclusive'].append('execute compile %s: %s' % (tail, str(u)[:120]))
                    outs = None
                    break
                vals = [v for (k, v), pc in pp if k == 'ok']
                stats['paths'] += len(pp)
                if len(vals) != 1:
                    outs = None
                    break
                outs.append(vals[0])
            if outs and outs[0] != outs[1]:
                res.append(BFinding('C16', 'cmd:Execute compile', t.tag, 'implicit-differs:' + '_'.join(x for x in tail if not x.startswith('-'))[:40],
                                    'fin-protoc %s: exit %s and %d files; with the word "compile": exit %s and %d files' % (
                                        ' '.join(tail), outs[0][0], len(outs[0][1]), outs[1][0], len(outs[1][1])), {'text': t.text, 'argv': tail}))
    # output directories with unusual names (comma, blank, quote, equals sign): the files of every requested target land under
    # exactly the directory that was named - compared with a run that uses plain names, directory prefixes substituted
    if lib_err is None and not dump.get('syntax_errors') and t.tag.startswith(('p:many', 'p:oneline', 'c:everywhere', 'f:match_list', 'f:inline_rep', 'l:acronym')):
        odd = {'g': 'gen,v2/go', 'p': 'a b/py', 'j': 'q"x/java', 'r': 'k=v/rs'}
        plain = {'g': 'ref/go', 'p': 'ref/py', 'j': 'ref/java', 'r': 'ref/rs'}
        got = {}
        for label, dirs in (('odd', odd), ('plain', plain)):
            argv = ['fin-protoc', 'compile', '-f', 'in.dsl']
            for k, d in dirs.items():
                argv += ['-' + k, d]

            def rund(c, argv=argv):
                M = make_machine(c)
                snap = Snapshot(prog, dump).load()
                install_parse_stubs(M, snap, None)
                install_cobra_stubs(M)
                M.run_init(MOD + '/cmd')
                m = M.call(PARSER + '.VerifVisit', [snap.tree])
                M.env['parse_result'] = m
                M.store(M.gptr('os.Args', gtid(M, 'os.Args')), M.mkslice([go_str(x) for x in argv]))
                M.env['fs'].clear()
                M.effects = []
                M.stdout = []
                code = 0
                try:
                    M.call(MOD + '/cmd.Execute', [])
                except GoExit as ge:
                    code = ge.code
                return code, dict(M.env['fs'])
            try:
                _, pp = explore([], rund, 8)
                vals = [v for (k, v), pc in pp if k == 'ok']
                stats['paths'] += len(pp)
                got[label] = vals[0] if len(vals) == 1 else None
            except Unsupported as u:
                stats['inconclusive'].append('execute compile (directory names): %s' % str(u)[:120])
                got[label] = None
            except (GoPanic, GoExit):
                raise
            except Exception as ex:
                stats['inconclusive'].append('execute compile (directory names): engine error %s: %s' % (type(ex).__name__, str(ex)[:100]))
                got[label] = None
        if got.get('odd') is not None and got.get('plain') is not None:
            def norm(fs, dirs):
                out = {}
                for path, data in fs.items():
                    key = path
                    for k, d in dirs.items():
                        for pre in (d + '/', '/' + d + '/', './' + d + '/'):
                            if path.startswith(pre):
                                key = '<%s>/' % k + path[len(pre):]
                    out[key] = len(data) if isinstance(data, (bytes, str, list)) else 0
                return out
            a_, b_ = norm(got['odd'][1], odd), norm(got['plain'][1], plain)
            if got['odd'][0] != got['plain'][0] or sorted(a_) != sorted(b_):
                res.append(BFinding('C16', 'cmd:Execute compile', t.tag, 'directory-name',
                                    'output directories %s: exit %s, files %s; with plain names: exit %s, files %s' % (
                                        list(odd.values()), got['odd'][0], sorted(a_)[:4], got['plain'][0], sorted(b_)[:4]), {'text': t.text, 'argv': ['compile', '-f', 'in.dsl'] + [x for k, d in odd.items() for x in ('-' + k, d)]}))
    return res, stats


# ---------------------------------------------------------------------------- C16: compile wrapper

def c16_compile(t, dump, tier):
    res = []
    stats = {'paths': 0, 'inconclusive': []}
    prog = symgo.repo_prog()
    if dump.get('panic') or dump.get('syntax_errors'):
        return res, stats
    # generator file maps (library result)
    M0 = make_machine(PathCtl())
    snap0 = Snapshot(prog, dump).load()
    try:
        m0 = M0.call(PARSER + '.VerifVisit', [snap0.tree])
    except GoPanic:
        return res, stats
    if syntax_errors(M0, m0):
        return res, stats
    # (requested generators, output directory layout, what the output directories hold before the run)
    #   own: one directory per language (the documented use)   shared: every language into one directory (file names do not collide)
    #   longer: files of the same names with more bytes   same: the very files a previous identical compile left (newer than the DSL)
    #   stale: files of the same names and the same length with other content
    cases = [(('go', 'python'), 'own', 'longer'), (('lua', 'rust', 'go', 'java', 'python', 'cpp'), 'own', 'longer'), (('cpp',), 'own', 'longer'), (('rust', 'java'), 'own', 'longer'),
             (('go', 'python'), 'shared', 'longer'), (('java', 'lua', 'python'), 'shared', 'none'), (('go', 'rust'), 'own', 'same'), (('python', 'cpp'), 'own', 'stale'),
             (('go', 'java'), 'own', 'none'), (('lua', 'go'), 'own', 'none'), (('lua', 'rust', 'java'), 'own', 'none'), (('python', 'go'), 'own', 'none')]
    for sub, layout, pre in cases:
        def dirof(g, layout=layout):
            return '/out/shared' if layout == 'shared' else '/out/' + g
        # expected: union of dir/name -> bytes for the requested generators (each alone on a fresh model)
        want = {}
        ok = True
        refusers = []
        for g in sub:
            M1 = make_machine(PathCtl())
            s1 = Snapshot(prog, dump).load()
            try:
                m1 = M1.call(PARSER + '.VerifVisit', [s1.tree])
                r = M1.call(PARSER + '.VerifGenerate', [go_str(g), m1])
            except (GoPanic, Unsupported):
                ok = False
                break
            if r[1] is not None:
                refusers.append(g)
                continue
            for k, v in filemap_to_py(M1, r[0]).items():
                want['%s/%s' % (dirof(g), k)] = v
        if not ok:
            continue
        if refusers:
            # a requested target refuses this program (e.g. no root packet): the command must fail, whatever the other targets do
            def runr(c, sub=sub, dirof=dirof):
                M = make_machine(c)
                snap = Snapshot(prog, dump).load()
                m = M.call(PARSER + '.VerifVisit', [snap.tree])
                M.env['parse_result'] = m
                M.effects = []
                M.stdout = []
                outs = GoMap()
                for g in GENS:
                    outs.set(go_str(g), go_str(dirof(g)) if g in sub else '')
                return M.call(MOD + '/cmd.Compile', [go_str('in.dsl'), outs])
            try:
                _, pr = explore([], runr, 16)
                for (kind, val), pc in pr:
                    stats['paths'] += 1
                    if kind == 'ok' and val is None:
                        res.append(BFinding('C16', 'cmd:compile', t.tag, 'refusal-dropped:' + '+'.join(sub),
                                            'compile -%s: generator %s refuses the program, but the command reports success' % ('+'.join(sub), '+'.join(refusers)), {'text': t.text}))
            except Unsupported as u:
                stats['inconclusive'].append('compile %s: %s' % ('+'.join(sub), str(u)[:150]))
            continue
        lib = seq_outputs(prog, dump, sub, dirof, layout)
        label = '%s[%s,%s]' % ('+'.join(sub), layout, pre)

        def run(c, sub=sub, pre=pre, dirof=dirof, lib=lib):
            M = make_machine(c)
            snap = Snapshot(prog, dump).load()
            state = {'deviated': False}

            def order_hook(M_, entries, ins, fr):
                if not fr.fn['id'].endswith('WriteCodeToFile') or state['deviated'] or len(entries) > 4:
                    return entries
                perms = list(itertools.permutations(range(len(entries))))
                k = c.choose_free(len(perms), 'writeorder')
                if k:
                    state['deviated'] = True
                return [entries[i] for i in perms[k]]
            M.map_order_hook = order_hook
            m = M.call(PARSER + '.VerifVisit', [snap.tree])
            M.env['parse_result'] = m
            M.env['fs_readable'] = True
            for p in want:
                if pre == 'longer':
                    M.env['fs'][p] = b'#' * (len(want[p]) + 17)
                elif pre == 'same':
                    M.env['fs'][p] = lib.get(p, want[p])
                elif pre == 'stale':
                    M.env['fs'][p] = b'#' * len(lib.get(p, want[p]))
            M.effects = []
            M.stdout = []
            outs = GoMap()
            for g in GENS:
                outs.set(go_str(g), go_str(dirof(g)) if g in sub else '')
            err = M.call(MOD + '/cmd.Compile', [go_str('in.dsl'), outs])
            return err, dict(M.env['fs']), list(M.effects)
        try:
            ctl, paths = explore([], run, 64)
        except Unsupported as u:
            stats['inconclusive'].append('compile %s: %s' % (label, str(u)[:150]))
            continue
        for (kind, val), pc in paths:
            stats['paths'] += 1
            if kind != 'ok':
                continue
            err, fs, effects = val
            if err is not None:
                continue
            # note: known interference between generators (C14) changes bytes; C16 compares the file SET and, per file, the bytes of a run of
            # the same generator order on a fresh model (the wrapper must add nothing)
            got_names = sorted(fs)
            if got_names != sorted(want):
                extra = sorted(set(got_names) - set(want))[:3]
                miss = sorted(set(want) - set(got_names))[:3]
                res.append(BFinding('C16', 'cmd:compile', t.tag, 'fileset-differs' + ('' if (layout, pre) == ('own', 'longer') else ':%s,%s' % (layout, pre)),
                                    'compile -%s: extra files %s, missing %s' % (label, [re.sub(r'RND\d+', 'RND', x) for x in extra], miss), {'text': t.text}))
                continue
            bad = [p for p in sorted(lib) if fs.get(p) != lib[p]]
            if bad:
                res.append(BFinding('C16', 'cmd:compile', t.tag, 'bytes-differ' + ('' if (layout, pre) == ('own', 'longer') else ':%s,%s' % (layout, pre)),
                                    'compile -%s: %s on disk differs from the generator\'s bytes (%d vs %d bytes)' % (
                    label, bad[0], len(fs.get(bad[0]) or b''), len(lib[bad[0]])), {'text': t.text}))
    return res, stats


_SEQ = {}


def seq_outputs(prog, dump, sub, dirof=None, layout='own'):
    dirof = dirof or (lambda g: '/out/' + g)
    key = (id(dump), sub, layout)
    if key in _SEQ:
        return _SEQ[key]
    M = make_machine(PathCtl())
    s = Snapshot(prog, dump).load()
    m = M.call(PARSER + '.VerifVisit', [s.tree])
    out = {}
    for g in GENS:
        if g in sub:
            r = M.call(PARSER + '.VerifGenerate', [go_str(g), m])
            for k, v in filemap_to_py(M, r[0]).items():
                out['%s/%s' % (dirof(g), k)] = v
    _SEQ[key] = out
    return out


def c16_all(t, dump, tier):
    r1, s1 = c16_text(t, dump, tier)
    lib = lib_format(t, dump, symgo.repo_prog()) if not dump.get('panic') else None
    if lib is not None:
        r3, s3 = c16_execute(t, dump, tier, lib)
        r1 += r3
        s1['paths'] += s3['paths']
        s1['inconclusive'] += s3['inconclusive']
    r2, s2 = c16_compile(t, dump, tier) if t.wellformed and not t.faults else ([], {'paths': 0, 'inconclusive': []})
    return r1 + r2, {'paths': s1['paths'] + s2['paths'], 'inconclusive': s1['inconclusive'] + s2['inconclusive']}


def c09_with_file_mode(t, dump, tier):
    res, stats = c09_text(t, dump, tier)
    if not dump.get('panic'):
        file_mode_obligation('C09', t, dump, tier, res, stats)
    return res, stats


def c10_with_file_mode(t, dump, tier):
    res, stats = c10_text(t, dump, tier)
    if not dump.get('panic') and not dump.get('syntax_errors'):
        file_mode_obligation('C10', t, dump, tier, res, stats)
    return res, stats


checks_b.TEXT_FUNCS.update({'C09': c09_with_file_mode, 'C10': c10_with_file_mode, 'C16': c16_all})
checks_b.EXPLAIN.update({
    'C09': 'the real FormatPacketDsl runs in the symbolic engine on native parse snapshots with every token line symbolic; each distinct output is re-parsed by the real ANTLR parser and its token sequence (comments and doc strings included) compared with the input; compiled outputs compared natively; the syntax-error path runs with the listener fed the native errors',
    'C10': 'layout-canonical: one symbolic run per text with all token lines bit-vector variables constrained only by "each comment stays on the line of the same token"; every feasible path must give the same text; idempotence: the formatter re-runs on the real parse of its own output',
    'C16': 'formatCmd.Run, FormatPacketDslExport, Compile and WriteCodeToFile run in the engine against a stub file system (pre-existing longer files, read/write errors), stdout log and os.Exit as outcomes; results are compared with the library result computed by the same engine',
})
