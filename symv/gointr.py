"""Intrinsics for the Go SSA interpreter: the parts of the standard library that
fin-protoc (and the code it emits) calls.  Each is the documented behaviour of the
function on values that are concrete on the path; anything else raises Unsupported
(-> INCONCLUSIVE, never a verdict)."""
import re
import z3
from .core import Unsupported, is_sym, conc, Outcome
from .gossa import (GoPanic, GoExit, Ptr, Cell, Slice, Iface, Closure, GoMap, go_str, cp, wrap, decode_rune, SymName, SymRope, SymDigits)

INTR = {}
SYM_MARK = '\x01SYM\x01'


def intr(*names):
    def d(f):
        def g(M, a):
            if any(isinstance(x, (SymName, SymRope)) for x in a):
                a = [x.force(M) if isinstance(x, (SymName, SymRope)) else x for x in a]
            return f(M, a)
        for n in names:
            INTR[n] = g
        return f
    return d


# ------------------------------------------------------------------ errors

class GoError:
    """value of an error created by errors.New / fmt.Errorf (dynamic type id -2)"""
    def __init__(self, msg, wrapped=None):
        self.msg = msg
        self.wrapped = wrapped

    def __repr__(self):
        return 'error(%r)' % self.msg


ERR_T = -2


def mkerr(msg, wrapped=None):
    return Iface(ERR_T, GoError(msg, wrapped))


def err_text(M, e):
    if e is None:
        return '<nil>'
    if isinstance(e, Iface):
        if isinstance(e.v, GoError):
            return e.v.msg
        if isinstance(e.v, str):
            return e.v
        ms = M.p.methods_of_dyn(e.t) if e.t in M.p.T else {}
        if 'Error' in ms:
            return M.call(ms['Error'], [e.v])
    raise Unsupported('error text of %r' % (e,))


def _err_invoke(M, a):
    return a[0].msg


INTR['invoke:%d.Error' % ERR_T] = _err_invoke


# ------------------------------------------------------------------ fmt

def fmt_value(M, v, verb='v', plus=False):
    """%v / %s / %d of a Go value (as held in an `any`)"""
    if isinstance(v, Iface) and isinstance(v.v, (SymName, SymRope)):
        v = Iface(v.t, v.v.force(M))
    if isinstance(v, (SymName, SymRope)):
        v = v.force(M)
    if isinstance(v, Iface):
        if v.t == ERR_T:
            return v.v.msg
        inner = v.v
        ms = M.p.methods_of_dyn(v.t) if v.t in M.p.T else {}
        if verb in ('v', 's') and 'Error' in ms:
            return M.call(ms['Error'], [inner])
        if verb in ('v', 's') and 'String' in ms:
            return M.call(ms['String'], [inner])
        return fmt_typed(M, inner, v.t, verb)
    if v is None:
        return '<nil>' if verb != 's' else '%!s(<nil>)'
    return fmt_plain(v, verb, M)


def fmt_plain(v, verb, M=None):
    if isinstance(v, (SymName, SymRope)) and M is not None:
        v = v.force(M)
    if is_sym(v):
        c = conc(v)
        if c is None:
            if M is not None and getattr(M.ctl, 'allow_concretise', False) and z3.is_bv(v):
                c = M.ctl.concretise(v)          # a symbolic size printed into text: pinned to a witness value
                if c >> (v.size() - 1):
                    c -= 1 << v.size()
            else:
                return SYM_MARK       # a symbolic number printed into text: visible to the checks as a marker
        v = c
    if isinstance(v, bool):
        return 'true' if v else 'false'
    if isinstance(v, int):
        if verb == 'x':
            return '%x' % v
        if verb == 'c':
            return go_str(chr(v))
        if verb == 'q':
            return "'" + go_str(chr(v)) + "'"
        return str(v)
    if isinstance(v, str):
        if verb == 'q':
            return '"' + v.replace('\\', '\\\\').replace('"', '\\"') + '"'
        if verb == 'd':
            return '%!d(string=' + v + ')'
        return v
    if isinstance(v, float):
        return repr(v)
    if is_sym(v):
        raise Unsupported('formatting a symbolic value')
    raise Unsupported('fmt of %r' % type(v))


def fmt_typed(M, v, tid, verb):
    p = M.p
    u = p.under(tid)
    k = u['kind']
    if k == 'basic':
        b = u['basic']
        if verb == 't' and not isinstance(v, bool):
            return '%!t(' + b + '=' + fmt_plain(v, 'v', M) + ')'
        if verb == 'd' and isinstance(v, bool):
            return '%!d(bool=' + ('true' if v else 'false') + ')'
        if verb == 'v' and b in ('uint8', 'byte') and False:
            return str(v)
        return fmt_plain(v, verb, M)
    if k == 'map':
        if v is None:
            return 'map[]'
        items = []
        for kk, vv in sorted(((e[0], e[1]) for e in v.d.values()), key=lambda e: e[0]):
            items.append('%s:%s' % (fmt_typed(M, kk, u['key'], 'v'), fmt_typed(M, vv, u['elem'], 'v')))
        return 'map[' + ' '.join(items) + ']'
    if k == 'slice':
        if v is None:
            return '[]'
        return '[' + ' '.join(fmt_typed(M, x, u['elem'], verb) for x in v.items()) + ']'
    if k == 'struct':
        return '{' + ' '.join(fmt_typed(M, x, f['type'], verb) for x, f in zip(v, u['fields'])) + '}'
    if k == 'ptr':
        if v is None:
            return '<nil>'
        eu = p.under(u['elem'])
        if eu['kind'] == 'struct':
            return '&' + fmt_typed(M, M.load(v), u['elem'], verb)
        return '0xc000010000'
    if k == 'iface':
        return fmt_value(M, v, verb)
    raise Unsupported('fmt of kind ' + k)


def sprintf(M, f, args):
    out = []
    i = 0
    ai = 0
    n = len(f)
    while i < n:
        c = f[i]
        if c != '%':
            out.append(c)
            i += 1
            continue
        i += 1
        if i >= n:
            out.append('%!(NOVERB)')
            break
        flags = ''
        while i < n and f[i] in '+-# 0':
            flags += f[i]
            i += 1
        width = ''
        while i < n and f[i].isdigit():
            width += f[i]
            i += 1
        prec = None
        if i < n and f[i] == '.':
            i += 1
            prec = ''
            while i < n and f[i].isdigit():
                prec += f[i]
                i += 1
        verb = f[i]
        i += 1
        if verb == '%':
            out.append('%')
            continue
        if ai >= len(args):
            out.append('%!' + verb + '(MISSING)')
            continue
        a = args[ai]
        ai += 1
        if verb == 'w':
            verb = 'v'
        if verb == 'T':
            s = M.p.tstr(a.t) if isinstance(a, Iface) and a.t in M.p.T else '<nil>'
        elif verb == 'f' and isinstance(a, Iface) and isinstance(a.v, float):
            s = ('%.' + (prec or '6') + 'f') % a.v
        else:
            s = fmt_value(M, a, verb)
        if width:
            w = int(width)
            if '-' in flags:
                s = s.ljust(w)
            elif '0' in flags:
                s = s.rjust(w, '0')
            else:
                s = s.rjust(w)
        out.append(s)
    if ai < len(args):
        out.append('%!(EXTRA ' + ', '.join((M.p.tstr(a.t) if isinstance(a, Iface) and a.t in M.p.T else 'nil') + '=' + fmt_value(M, a) for a in args[ai:]) + ')')
    return ''.join(out)


def varargs(a):
    return [] if a is None else a.items()


def has_symname(args):
    for x in args:
        v = x.v if isinstance(x, Iface) else x
        if isinstance(v, (SymName, SymRope)):
            return True
    return False


def _sprintf(M, a):
    args = varargs(a[1])
    if has_symname(args) and isinstance(a[0], str):
        return SymRope([a[0]] + [x.v if isinstance(x, Iface) else x for x in args])
    return sprintf(M, a[0], args)


INTR['fmt.Sprintf'] = _sprintf


def _errorf(M, a):
    args = varargs(a[1])
    if has_symname(args):
        return mkerr(SymRope([a[0]] + [x.v if isinstance(x, Iface) else x for x in args]))
    wrapped = None
    if '%w' in a[0]:
        for x in args:
            if isinstance(x, Iface) and (x.t == ERR_T or 'Error' in (M.p.methods_of_dyn(x.t) if x.t in M.p.T else {})):
                wrapped = x
    return mkerr(sprintf(M, a[0], args), wrapped)


INTR['fmt.Errorf'] = _errorf


@intr('errors.New')
def _errnew(M, a):
    return mkerr(a[0])


def sprint(M, args, ln):
    parts = []
    prev_str = True
    for i, x in enumerate(args):
        s = fmt_value(M, x)
        is_str = isinstance(x, Iface) and isinstance(x.v, str)
        if ln:
            if i:
                parts.append(' ')
        elif i and not is_str and not prev_str:
            parts.append(' ')
        parts.append(s)
        prev_str = is_str
    return ''.join(parts) + ('\n' if ln else '')


@intr('fmt.Sprint')
def _sprint(M, a):
    return sprint(M, varargs(a[0]), False)


@intr('fmt.Sprintln')
def _sprintln(M, a):
    return sprint(M, varargs(a[0]), True)


def _println(M, a):
    if has_symname(varargs(a[0])) or any(isinstance(x, Iface) and isinstance(x.v, GoMap) and x.v.has_sym() for x in varargs(a[0])):
        M.stdout.append(SymRope(['<line with symbolic names>\n']))
        return (0, None)
    s = sprint(M, varargs(a[0]), True)
    M.stdout.append(s)
    return (len(s), None)


INTR['fmt.Println'] = _println


@intr('fmt.Print')
def _print(M, a):
    s = sprint(M, varargs(a[0]), False)
    M.stdout.append(s)
    return (len(s), None)


@intr('fmt.Printf')
def _printf(M, a):
    s = sprintf(M, a[0], varargs(a[1]))
    M.stdout.append(s)
    return (len(s), None)


# ------------------------------------------------------------------ strings / strconv / sort

def need_conc(*xs):
    for x in xs:
        if not isinstance(x, (str, int, bool)) and x is not None and not isinstance(x, Slice):
            raise Unsupported('non-concrete argument to a string intrinsic: %r' % type(x))


@intr('strings.ToLower')
def _(M, a):
    need_conc(a[0])
    return a[0].lower() if a[0].isascii() else ''.join(c.lower() if c.isascii() else c for c in a[0])


@intr('strings.ToUpper')
def _(M, a):
    need_conc(a[0])
    return ''.join(c.upper() if c.isascii() else c for c in a[0])


@intr('strings.Contains')
def _(M, a):
    need_conc(*a)
    return a[1] in a[0]


@intr('strings.HasPrefix')
def _(M, a):
    need_conc(*a)
    return a[0].startswith(a[1])


@intr('strings.HasSuffix')
def _(M, a):
    need_conc(*a)
    return a[0].endswith(a[1])


@intr('strings.Index')
def _(M, a):
    need_conc(*a)
    return a[0].find(a[1])


@intr('strings.Trim')
def _(M, a):
    need_conc(*a)
    return a[0].strip(a[1]) if a[1] else a[0]


@intr('strings.TrimRight')
def _(M, a):
    need_conc(*a)
    return a[0].rstrip(a[1]) if a[1] else a[0]


@intr('strings.TrimLeft')
def _(M, a):
    need_conc(*a)
    return a[0].lstrip(a[1]) if a[1] else a[0]


GO_SPACE = ' \t\n\v\f\r\x85\xa0'


@intr('strings.TrimSpace')
def _(M, a):
    need_conc(a[0])
    return a[0].strip(' \t\n\v\f\r')


@intr('strings.TrimPrefix')
def _(M, a):
    need_conc(*a)
    return a[0][len(a[1]):] if a[0].startswith(a[1]) else a[0]


@intr('strings.TrimSuffix')
def _(M, a):
    need_conc(*a)
    return a[0][:-len(a[1])] if a[1] and a[0].endswith(a[1]) else a[0]


MAX_ALLOC = 1 << 48          # runtime.maxAlloc on linux/amd64: a larger make panics whatever the machine's memory


@intr('strings.Repeat')
def _(M, a):
    need_conc(a[0])
    n = a[1]
    ln = max(1, len(a[0]))
    if is_sym(n) and conc(n) is None:
        if M.ctl.branch(n < 0):
            raise GoPanic('explicit', 'strings: negative Repeat count', '')
        if len(a[0]) > 0 and M.ctl.branch(z3.UGE(n, (MAX_ALLOC + ln - 1) // ln)):
            raise GoPanic('runtime', 'makeslice: len out of range (strings.Repeat of %d bytes x a count the input chooses)' % len(a[0]), '')
        n = M.ctl.concretise(n)
    elif is_sym(n):
        n = conc(n)
    if n < 0:
        raise GoPanic('explicit', 'strings: negative Repeat count', '')
    if len(a[0]) * n >= MAX_ALLOC:
        raise GoPanic('runtime', 'makeslice: len out of range', '')
    if len(a[0]) * n > (1 << 26):
        raise Unsupported('strings.Repeat builds %d bytes' % (len(a[0]) * n))
    return a[0] * n


@intr('strings.ReplaceAll')
def _(M, a):
    need_conc(*a)
    return a[0].replace(a[1], a[2])


@intr('strings.Replace')
def _(M, a):
    need_conc(*a)
    return a[0].replace(a[1], a[2], a[3] if a[3] >= 0 else -1) if a[3] != 0 else a[0]


# unicode / utf8 on concrete values (Go strings are carried one char per byte)
def _rune_pred(fn):
    def h(M, a):
        need_conc(a[0])
        r = a[0]
        try:
            return bool(fn(chr(r))) if 0 <= r <= 0x10FFFF and not (0xD800 <= r <= 0xDFFF) else False
        except ValueError:
            return False
    return h


INTR['unicode.IsUpper'] = _rune_pred(lambda c: c.isupper())
INTR['unicode.IsLower'] = _rune_pred(lambda c: c.islower())
INTR['unicode.IsLetter'] = _rune_pred(lambda c: c.isalpha())
INTR['unicode.IsDigit'] = _rune_pred(lambda c: c.isdecimal())
INTR['unicode.IsNumber'] = _rune_pred(lambda c: c.isnumeric())
INTR['unicode.IsSpace'] = _rune_pred(lambda c: c in '\t\n\v\f\r \x85\xa0' or (ord(c) > 0xff and c.isspace()))
INTR['unicode.IsPunct'] = _rune_pred(lambda c: __import__('unicodedata').category(c).startswith('P'))
INTR['unicode.ToUpper'] = lambda M, a: (need_conc(a[0]), ord(chr(a[0]).upper()) if len(chr(a[0]).upper()) == 1 else a[0])[1]
INTR['unicode.ToLower'] = lambda M, a: (need_conc(a[0]), ord(chr(a[0]).lower()) if len(chr(a[0]).lower()) == 1 else a[0])[1]


def _utf8_decode(M, a):
    need_conc(a[0])
    s = a[0]
    if len(s) == 0:
        return (0xFFFD, 0)
    return decode_rune(s, 0)


def _utf8_decode_bytes(M, a):
    bs = _bytes_of(a[0])
    if not bs:
        return (0xFFFD, 0)
    return decode_rune(''.join(chr(b) for b in bs), 0)


def _utf8_count(M, a):
    need_conc(a[0])
    s, i, n = a[0], 0, 0
    while i < len(s):
        i += decode_rune(s, i)[1]
        n += 1
    return n


INTR['unicode/utf8.DecodeRuneInString'] = _utf8_decode
INTR['unicode/utf8.DecodeRune'] = _utf8_decode_bytes
INTR['unicode/utf8.RuneCountInString'] = _utf8_count
INTR['unicode/utf8.RuneLen'] = lambda M, a: (need_conc(a[0]), -1 if a[0] < 0 or a[0] > 0x10FFFF or 0xD800 <= a[0] <= 0xDFFF else 1 if a[0] < 0x80 else 2 if a[0] < 0x800 else 3 if a[0] < 0x10000 else 4)[1]
INTR['unicode/utf8.ValidString'] = lambda M, a: (need_conc(a[0]), all(True for _ in [a[0].encode('latin-1').decode('utf-8', 'strict')]) if _try_utf8(a[0]) else False)[1]


def _try_utf8(s):
    try:
        s.encode('latin-1').decode('utf-8')
        return True
    except Exception:
        return False


def _bytes_of(x):
    if x is None:
        return []
    if isinstance(x, str):
        return [ord(c) for c in x]
    items = list(x.items())
    need_conc(*items)
    return items


INTR['bytes.Equal'] = lambda M, a: _bytes_of(a[0]) == _bytes_of(a[1])
INTR['bytes.Compare'] = lambda M, a: (_bytes_of(a[0]) > _bytes_of(a[1])) - (_bytes_of(a[0]) < _bytes_of(a[1]))
INTR['bytes.HasPrefix'] = lambda M, a: _bytes_of(a[0])[:len(_bytes_of(a[1]))] == _bytes_of(a[1])
INTR['bytes.HasSuffix'] = lambda M, a: (lambda x, y: len(y) == 0 or x[-len(y):] == y)(_bytes_of(a[0]), _bytes_of(a[1]))
INTR['bytes.Contains'] = lambda M, a: bytes(_bytes_of(a[1])) in bytes(_bytes_of(a[0]))


# path/filepath and path on concrete strings (POSIX separators, Go's Clean rules)
def _go_clean(p):
    import posixpath
    if p == '':
        return '.'
    r = posixpath.normpath(p)
    if r.startswith('//'):
        r = '/' + r.lstrip('/')
    return r


def _fp_join(M, a):
    items = [] if a[0] is None else list(a[0].items())
    need_conc(*items)
    items = [x for x in items if x != '']
    return _go_clean('/'.join(items)) if items else ''


def _fp_base(M, a):
    need_conc(a[0])
    p = a[0]
    if p == '':
        return '.'
    p = p.rstrip('/')
    if p == '':
        return '/'
    return p.rsplit('/', 1)[-1]


def _fp_dir(M, a):
    need_conc(a[0])
    p = a[0]
    i = p.rfind('/')
    return _go_clean(p[:i + 1])


def _fp_ext(M, a):
    need_conc(a[0])
    p = a[0]
    for i in range(len(p) - 1, -1, -1):
        if p[i] == '/':
            break
        if p[i] == '.':
            return p[i:]
    return ''


for _pk in ('path/filepath', 'path'):
    INTR[_pk + '.Join'] = _fp_join
    INTR[_pk + '.Base'] = _fp_base
    INTR.setdefault(_pk + '.Dir', _fp_dir)
    INTR[_pk + '.Ext'] = _fp_ext
    INTR[_pk + '.Clean'] = lambda M, a: (need_conc(a[0]), _go_clean(a[0]))[1]
    INTR[_pk + '.IsAbs'] = lambda M, a: (need_conc(a[0]), a[0].startswith('/'))[1]


# strings.Replacer: an opaque pointer whose cell holds the (old, new) pairs; Replace follows the documented algorithm
# (matches are taken in the order they appear in the target, without overlap; at one position the pairs are tried in
# argument order)
@intr('strings.NewReplacer')
def _(M, a):
    items = [] if a[0] is None else list(a[0].items())
    need_conc(*items)
    if len(items) % 2:
        raise GoPanic('panic', 'strings.NewReplacer: odd argument count', '')
    return Ptr(Cell([list(zip(items[0::2], items[1::2]))], tag='strings.Replacer'))


@intr('(*strings.Replacer).Replace')
def _(M, a):
    pairs = a[0].cell.v[0]
    s = a[1]
    need_conc(s)
    out = []
    i = 0
    while i <= len(s):
        for old, new in pairs:
            if old == '':
                continue
            if s.startswith(old, i):
                out.append(new)
                i += len(old)
                break
        else:
            if i < len(s):
                out.append(s[i])
            i += 1
    return ''.join(out)


@intr('strings.Join')
def _(M, a):
    items = [] if a[0] is None else a[0].items()
    items = [x.force(M) if isinstance(x, SymName) else x for x in items]
    need_conc(*items)
    return a[1].join(items)


@intr('strings.Split')
def _(M, a):
    need_conc(*a)
    if a[1] == '':
        parts = list(a[0])
    else:
        parts = a[0].split(a[1])
    return M.mkslice(parts)


@intr('strings.Fields')
def _(M, a):
    need_conc(a[0])
    return M.mkslice(a[0].split())


@intr('strings.EqualFold')
def _(M, a):
    need_conc(*a)
    return a[0].lower() == a[1].lower()


@intr('strings.Count')
def _(M, a):
    need_conc(*a)
    return a[0].count(a[1]) if a[1] else len(a[0]) + 1


@intr('strings.ContainsAny')
def _(M, a):
    need_conc(*a)
    return any(c in a[0] for c in a[1])


@intr('strings.Title')
def _(M, a):
    need_conc(a[0])
    return re.sub(r'(^|[^A-Za-z0-9_])([a-z])', lambda m: m.group(1) + m.group(2).upper(), a[0])


def _atoi_sym(M, a):
    if isinstance(a[0], SymDigits):
        return (a[0].term, None)         # the text is all digits and below 10^18 by construction (decorate)
    return _atoi_forced(M, a)


@intr('strconv.Atoi')
def _(M, a):
    need_conc(a[0])
    s = a[0]
    if re.fullmatch(r'[+-]?[0-9]+', s):
        v = int(s)
        if -(1 << 63) <= v < (1 << 63):
            return (v, None)
        return ((1 << 63) - 1 if v > 0 else -(1 << 63), mkerr('strconv.Atoi: parsing "%s": value out of range' % s))
    return (0, mkerr('strconv.Atoi: parsing "%s": invalid syntax' % s))


_atoi_forced = INTR['strconv.Atoi']
INTR['strconv.Atoi'] = _atoi_sym


def _parse_int(fn, s, base, bits, signed):
    """strconv.ParseInt / ParseUint on a concrete string (base prefixes and underscores only with base 0)"""
    t = s
    neg = False
    if signed and t[:1] in ('+', '-'):
        neg = t[0] == '-'
        t = t[1:]
    b = base
    if base == 0:
        b = 10
        low = t.lower()
        for pre, bb in (('0x', 16), ('0b', 2), ('0o', 8)):
            if low.startswith(pre):
                b, t = bb, t[2:]
                break
        else:
            if len(t) > 1 and t[0] == '0':
                b, t = 8, t[1:]
        t = t.replace('_', '')
    digits = '0123456789abcdefghijklmnopqrstuvwxyz'[:b] if 2 <= b <= 36 else ''
    if not t or not digits or any(ch not in digits for ch in t.lower()):
        return (0, mkerr('strconv.%s: parsing "%s": invalid syntax' % (fn, s)))
    v = int(t, b)
    if bits == 0:
        bits = 64
    if signed:
        v = -v if neg else v
        lo, hi = -(1 << (bits - 1)), (1 << (bits - 1)) - 1
    else:
        lo, hi = 0, (1 << bits) - 1
    if v < lo or v > hi:
        return (hi if v > hi else lo, mkerr('strconv.%s: parsing "%s": value out of range' % (fn, s)))
    return (v, None)


@intr('strconv.ParseUint')
def _(M, a):
    for x in a[:3]:
        need_conc(x)
    return _parse_int('ParseUint', a[0], a[1], a[2], False)


@intr('strconv.ParseInt')
def _(M, a):
    for x in a[:3]:
        need_conc(x)
    return _parse_int('ParseInt', a[0], a[1], a[2], True)


@intr('strconv.FormatInt')
def _(M, a):
    for x in a[:2]:
        need_conc(x)
    v, b = a[0], a[1]
    if b == 10:
        return str(v)
    digs = '0123456789abcdefghijklmnopqrstuvwxyz'
    n, out = abs(v), ''
    while True:
        out = digs[n % b] + out
        n //= b
        if n == 0:
            break
    return ('-' if v < 0 else '') + out


@intr('strconv.ParseBool')
def _(M, a):
    need_conc(a[0])
    if a[0] in ('1', 't', 'T', 'TRUE', 'true', 'True'):
        return (True, None)
    if a[0] in ('0', 'f', 'F', 'FALSE', 'false', 'False'):
        return (False, None)
    return (False, mkerr('strconv.ParseBool: parsing "%s": invalid syntax' % a[0]))


@intr('strconv.Itoa')
def _(M, a):
    need_conc(a[0])
    return str(a[0])


@intr('strconv.Quote')
def _(M, a):
    need_conc(a[0])
    return '"' + a[0].replace('\\', '\\\\').replace('"', '\\"') + '"'


@intr('sort.Strings')
def _(M, a):
    s = a[0]
    if s is None:
        return None
    items = sorted(x.force(M) if isinstance(x, SymName) else x for x in s.items())
    if M.mut_hook is not None:
        M.mut_hook(M, 'sort', s.cell, '')
    s.cell.v[s.off:s.off + s.len] = items
    return None


def _sort_slice(M, a, stable):
    sl = a[0].v if isinstance(a[0], Iface) else a[0]
    less = a[1]
    if sl is None or sl.len < 2:
        return None
    if M.mut_hook is not None:
        M.mut_hook(M, 'sort', sl.cell, '')
    items = sl.cell.v
    base = sl.off
    n = sl.len
    ties = False
    # insertion sort with the caller's less(i, j) on the live slice (what sort.SliceStable does for short slices)
    for i in range(1, n):
        j = i
        while j > 0:
            r = M.call_value(less, [j, j - 1])
            if not isinstance(r, bool):
                raise Unsupported('symbolic comparison in sort')
            if not r:
                if not stable and not M.call_value(less, [j - 1, j]):
                    ties = True
                break
            items[base + j], items[base + j - 1] = items[base + j - 1], items[base + j]
            j -= 1
    if ties and not stable and n > 12:
        # sort.Slice is pdqsort: slices of at most 12 elements are sorted by plain insertion sort (which is what ran above, ties
        # keep their input order); for longer slices the order of equal elements depends on the algorithm's pivots
        raise Unsupported('sort.Slice of more than 12 elements with equal elements: resulting order is algorithm specific')
    return None


INTR['sort.SliceStable'] = lambda M, a: _sort_slice(M, a, True)
INTR['sort.Slice'] = lambda M, a: _sort_slice(M, a, False)


# strings.Builder: struct{addr *Builder; buf []byte}; the state lives in field 1 as a python list
def _sb(M, p):
    st = M.load(p)
    if not isinstance(st[1], list):
        st[1] = []
    return st[1]


@intr('(*strings.Builder).WriteString')
def _(M, a):
    need_conc(a[1])
    _sb(M, a[0]).append(a[1])
    return (len(a[1]), None)


@intr('(*strings.Builder).WriteByte')
def _(M, a):
    _sb(M, a[0]).append(chr(M.cint(a[1])))
    return None


@intr('(*strings.Builder).WriteRune')
def _(M, a):
    s = go_str(chr(M.cint(a[1])))
    _sb(M, a[0]).append(s)
    return (len(s), None)


@intr('(*strings.Builder).Write')
def _(M, a):
    items = [] if a[1] is None else a[1].items()
    _sb(M, a[0]).append(''.join(chr(b) for b in items))
    return (len(items), None)


@intr('(*strings.Builder).String')
def _(M, a):
    sb = _sb(M, a[0])
    s = ''.join(sb)
    sb[:] = [s]
    return s


@intr('(*strings.Builder).Len')
def _(M, a):
    return sum(len(x) for x in _sb(M, a[0]))


@intr('(*strings.Builder).Grow')
def _(M, a):
    return None


@intr('(*strings.Builder).Reset')
def _(M, a):
    _sb(M, a[0])[:] = []
    return None


# ------------------------------------------------------------------ misc

@intr('path/filepath.Dir')
def _(M, a):
    import posixpath
    need_conc(a[0])
    d = posixpath.dirname(posixpath.normpath(a[0])) if a[0] else '.'
    return d or '.'


@intr('os.Exit')
def _(M, a):
    raise GoExit(M.cint(a[0]))


@intr('(*sync.Once).Do')
def _(M, a):
    st = M.load(a[0])
    if st and st[0] == 'done':
        return None
    M.store(a[0], ['done'] + list(st[1:]) if isinstance(st, list) and st else ['done'])
    M.call_value(a[1], [])
    return None


@intr('(*sync.Mutex).Lock', '(*sync.Mutex).Unlock', '(*sync.RWMutex).Lock', '(*sync.RWMutex).Unlock',
      '(*sync.RWMutex).RLock', '(*sync.RWMutex).RUnlock')
def _(M, a):
    return None


# sync.WaitGroup: the counter lives in the machine, keyed by the cell of the WaitGroup (see Machine.gor_* for the goroutine model)
def _wg(M, p):
    d = M.env.setdefault('waitgroups', {})
    k = id(p.cell) if hasattr(p, 'cell') else id(p)
    path = tuple(getattr(p, 'path', ()) or ())
    return d.setdefault((k, path), [0, p])


@intr('(*sync.WaitGroup).Add')
def _(M, a):
    w = _wg(M, a[0])
    w[0] += M.cint(a[1])
    if w[0] < 0:
        raise GoPanic('explicit', 'sync: negative WaitGroup counter', '')
    return None


@intr('(*sync.WaitGroup).Done')
def _(M, a):
    w = _wg(M, a[0])
    w[0] -= 1
    if w[0] < 0:
        raise GoPanic('explicit', 'sync: negative WaitGroup counter', '')
    return None


@intr('(*sync.WaitGroup).Wait')
def _(M, a):
    w = _wg(M, a[0])
    if w[0] > 0:
        M.gor_block(lambda: w[0] <= 0, 'sync.WaitGroup.Wait')
    return None


@intr('(*sync.WaitGroup).Go')
def _(M, a):
    w = _wg(M, a[0])
    w[0] += 1
    f = a[1]

    class _Done:
        pass
    # run f in a goroutine, then Done: expressed through a Python-level closure marker understood by call_value
    M.gor_spawn(_WgGo(f, w), [])
    return None


class _WgGo:
    def __init__(self, f, w):
        self.f, self.w = f, w


# sync.Map: the state lives in field 0 of the struct as a GoMap
def _syncmap(M, p):
    st = M.load(p)
    if not isinstance(st[0], GoMap):
        if M.mut_hook is not None:
            M.mut_hook(M, 'syncmap', p.cell, '')
        st[0] = GoMap()
    return st[0]


@intr('(*sync.Map).Load')
def _(M, a):
    st = M.load(a[0])
    if not isinstance(st[0], GoMap):
        return (None, False)
    e = st[0].get(a[1])
    return (e[1], True) if e is not None else (None, False)


@intr('(*sync.Map).Store')
def _(M, a):
    _syncmap(M, a[0]).set(a[1], a[2])
    return None


@intr('(*sync.Map).LoadOrStore')
def _(M, a):
    m = _syncmap(M, a[0])
    e = m.get(a[1])
    if e is not None:
        return (e[1], True)
    m.set(a[1], a[2])
    return (a[2], False)


@intr('(*sync.Map).Delete')
def _(M, a):
    st = M.load(a[0])
    if isinstance(st[0], GoMap):
        st[0].delete(a[1])
    return None


def install(M):
    M.intr.update(INTR)
