"""Java front-end of pipeline A: emitted sources are compiled by javac against
runtimes/java, the class files are disassembled with `javap -c -p -v` and the bytecode
of encode/decode/<clinit>/factories is executed symbolically.  netty ByteBuf, the
java.util collections the emitted code uses, boxing and the codec package are
intrinsics (runtimes/CONTRACT.md)."""
import os, re, subprocess, shutil, json, glob
import z3
from .core import (bv, sbv, bytes_of, from_bytes, simp, conc, conc_signed, is_sym, Outcome, Unsupported, PathCtl)
from .pspec import WIDTH
from . import build
from . import ref as refmod
from .fe_py import MissingMember, trim, all_packets
from .names import find, norm


# ---------------------------------------------------------------------------- lowering

def class_string_constants(data):
    """(internal class name, {constant pool index of a CONSTANT_String: hex of its (modified) UTF-8 bytes}) of a class file"""
    import struct
    assert data[:4] == b'\xca\xfe\xba\xbe'
    n = struct.unpack('>H', data[8:10])[0]
    pos = 10
    cp = [None] * n
    i = 1
    while i < n:
        tag = data[pos]
        if tag == 1:
            ln = struct.unpack('>H', data[pos + 1:pos + 3])[0]
            cp[i] = ('utf8', data[pos + 3:pos + 3 + ln])
            pos += 3 + ln
        elif tag in (3, 4):
            pos += 5
        elif tag in (5, 6):
            pos += 9
            i += 1
        elif tag == 7:
            cp[i] = ('class', struct.unpack('>H', data[pos + 1:pos + 3])[0])
            pos += 3
        elif tag == 8:
            cp[i] = ('string', struct.unpack('>H', data[pos + 1:pos + 3])[0])
            pos += 3
        elif tag in (9, 10, 11, 12, 17, 18):
            pos += 5
        elif tag == 15:
            pos += 4
        elif tag in (16, 19, 20):
            pos += 3
        else:
            raise ValueError('constant pool tag %d' % tag)
        i += 1
    this_class = struct.unpack('>H', data[pos + 2:pos + 4])[0]
    name = cp[cp[this_class][1]][1].decode()
    out = {}
    for k, e in enumerate(cp):
        if e and e[0] == 'string':
            out[str(k)] = cp[e[1]][1].hex()
    return name, out


def java_rt_dir():
    return build.shared_dir('java_rt', glob.glob(os.path.join(build.VERIF, 'runtimes', 'java', '**', '*.java'), recursive=True))


def lower_java(progs, emits, tag):
    """javac all programs (one package per program is not possible: the JavaPackage option is
    shared), so each program is compiled into its own output directory; javap text is cached."""
    cd = build.cache_dir()
    base = os.path.join(cd, 'java_' + tag)
    done = os.path.join(base, 'DONE')
    rt = java_rt_dir()
    if not os.path.exists(os.path.join(rt, 'DONE')):
        shutil.rmtree(rt, ignore_errors=True)
        os.makedirs(rt)
        srcs = glob.glob(os.path.join(build.VERIF, 'runtimes', 'java', '**', '*.java'), recursive=True)
        r = subprocess.run(['javac', '-nowarn', '-d', rt] + srcs, capture_output=True, text=True)
        if r.returncode != 0:
            raise RuntimeError('javac of runtime failed: ' + r.stderr)
        open(os.path.join(rt, 'DONE'), 'w').write('ok')
    out = {}
    if not os.path.exists(done):
        shutil.rmtree(base, ignore_errors=True)
        os.makedirs(base)
        from concurrent.futures import ThreadPoolExecutor

        def one(p):
            e = emits[p.name]
            files = e['files'].get('java', {})
            srcs = [path for rel, path in files.items() if rel.endswith('.java') and '/test/' not in '/' + rel and not rel.startswith('test/')]
            d = os.path.join(base, p.name)
            os.makedirs(d)
            if e['rc'] != 0 or not srcs:
                json.dump({'errors': ['no java emitted'], 'classes': {}}, open(os.path.join(d, 'lower.json'), 'w'))
                return
            r = subprocess.run(['javac', '-nowarn', '-proc:none', '-cp', rt, '-d', os.path.join(d, 'classes')] + srcs,
                               capture_output=True, text=True)
            res = {'errors': [], 'classes': {}}
            if r.returncode != 0:
                errs = re.findall(r'error: (.*)', r.stderr)
                res['errors'] = errs or [r.stderr[-300:]]
            else:
                cls = glob.glob(os.path.join(d, 'classes', '**', '*.class'), recursive=True)
                rj = subprocess.run(['javap', '-c', '-p', '-v'] + cls, capture_output=True, text=True)
                if rj.returncode != 0:
                    res['errors'] = ['javap failed: ' + rj.stderr[-200:]]
                else:
                    open(os.path.join(d, 'javap.txt'), 'w').write(rj.stdout)
                    # javap prints string constants without their trailing blanks: take them from the class files themselves
                    strs = {}
                    for cf in cls:
                        try:
                            name, consts = class_string_constants(open(cf, 'rb').read())
                            strs[name] = consts
                        except Exception:
                            pass
                    json.dump(strs, open(os.path.join(d, 'strings.json'), 'w'))
            shutil.rmtree(os.path.join(d, 'classes'), ignore_errors=True)
            json.dump(res, open(os.path.join(d, 'lower.json'), 'w'))

        with ThreadPoolExecutor(16) as ex:
            list(ex.map(one, progs))
        open(done, 'w').write('ok')
    for p in progs:
        out[p.name] = os.path.join(base, p.name)
    return out


class JClass:
    def __init__(self, name):
        self.name = name
        self.super = None
        self.interfaces = []
        self.fields = []        # (name, desc, static)
        self.methods = {}       # name+desc -> JMethod
        self.bootstrap = {}     # idx -> list of arg strings
        self.flags = ''


class JMethod:
    def __init__(self, cls, name, desc, static):
        self.cls, self.name, self.desc, self.static = cls, name, desc, static
        self.code = []          # list of (pc, op, operand-text, comment)
        self.pcidx = {}
        self.exc = []
        self.maxlocals = 0


def parse_javap(text):
    classes = {}
    cur = None
    meth = None
    lines = text.split('\n')
    i = 0
    n = len(lines)
    in_members = False
    in_code = False
    pending_decl = None
    while i < n:
        ln = lines[i]
        if ln.startswith('Classfile '):
            cur = None
            in_members = False
            meth = None
            in_code = False
        m = re.match(r'\s+this_class: #\d+\s+// (\S+)', ln)
        if m:
            cur = JClass(m.group(1).strip('"'))
            classes[cur.name] = cur
        m = re.match(r'\s+super_class: #\d+\s+// (\S+)', ln)
        if m and cur:
            cur.super = m.group(1)
        if cur and re.match(r'^(public |final |abstract |class |interface |enum )', ln) and ' implements ' in ln:
            impl = ln.split(' implements ')[1]
            cur.interfaces = [x.strip().split('<')[0].replace('.', '/') for x in impl.split(',')]
        if ln == '{':
            in_members = True
            i += 1
            continue
        if ln == '}':
            in_members = False
            meth = None
            in_code = False
        if cur and in_members:
            md = re.match(r'^  (\S.*);$', ln)
            if md and not ln.startswith('   '):
                pending_decl = md.group(1)
                meth = None
                in_code = False
                # descriptor on next line
                d = re.match(r'\s+descriptor: (\S+)', lines[i + 1]) if i + 1 < n else None
                f = re.match(r'\s+flags: \(0x[0-9a-f]+\)\s*(.*)', lines[i + 2]) if i + 2 < n else None
                desc = d.group(1) if d else ''
                flags = f.group(1) if f else ''
                static = 'ACC_STATIC' in flags
                if desc.startswith('('):
                    decl = pending_decl
                    if decl.strip() == 'static {}':
                        name = '<clinit>'
                    else:
                        before = decl.split('(')[0].strip()
                        name = before.split(' ')[-1]
                        if name.replace('.', '/') == cur.name or name == cur.name.replace('/', '.'):
                            name = '<init>'
                    meth = JMethod(cur, name, desc, static)
                    cur.methods[name + desc] = meth
                else:
                    name = pending_decl.split(' ')[-1]
                    cur.fields.append((name, desc, static))
                i += 3
                continue
            if meth is not None:
                if re.match(r'^    Code:', ln):
                    in_code = True
                    mm = re.match(r'\s+stack=(\d+), locals=(\d+)', lines[i + 1])
                    if mm:
                        meth.maxlocals = int(mm.group(2))
                    i += 2
                    continue
                if in_code:
                    mi = re.match(r'^\s+(\d+): (\w+)\s*(.*)$', ln)
                    if mi:
                        pc, op, rest = int(mi.group(1)), mi.group(2), mi.group(3)
                        comment = ''
                        if '//' in rest:
                            k = rest.index('//')
                            comment = rest[k + 2:]
                            # a string constant is shown verbatim after "// String ": its own leading/trailing blanks are content
                            comment = comment[1:] if comment.startswith(' ') else comment
                            if not comment.startswith('String '):
                                comment = comment.strip()
                            rest = rest[:k].strip()
                        if op in ('lookupswitch', 'tableswitch'):
                            table = {}
                            i += 1
                            while i < n and '}' not in lines[i]:
                                ms = re.match(r'\s+(-?\d+|default): (\d+)', lines[i])
                                if ms:
                                    table[ms.group(1)] = int(ms.group(2))
                                i += 1
                            meth.pcidx[pc] = len(meth.code)
                            meth.code.append((pc, op, table, ''))
                            i += 1
                            continue
                        meth.pcidx[pc] = len(meth.code)
                        meth.code.append((pc, op, rest, comment))
                    elif re.match(r'^\s+Exception table:', ln):
                        i += 2
                        while i < n:
                            me = re.match(r'\s+(\d+)\s+(\d+)\s+(\d+)\s+(.*)$', lines[i])
                            if not me:
                                break
                            meth.exc.append((int(me.group(1)), int(me.group(2)), int(me.group(3)), me.group(4).strip()))
                            i += 1
                        continue
                    elif re.match(r'^\s+(LineNumberTable|LocalVariableTable|StackMapTable|LocalVariableTypeTable)', ln):
                        pass
        if cur and ln.startswith('BootstrapMethods:'):
            i += 1
            idx = None
            while i < n and lines[i].startswith('  '):
                mb = re.match(r'^  (\d+): #\d+ (\S+) (.*)$', lines[i])
                if mb:
                    idx = int(mb.group(1))
                    cur.bootstrap[idx] = {'bsm': mb.group(3), 'args': []}
                else:
                    ma = re.match(r'^      #\d+ (.*)$', lines[i])
                    if ma and idx is not None:
                        cur.bootstrap[idx]['args'].append(ma.group(1).strip())
                i += 1
            continue
        i += 1
    return classes


def parse_desc(desc):
    """'(Lx/Y;IJ)V' -> ([types], ret)"""
    assert desc[0] == '('
    i = 1
    args = []
    while desc[i] != ')':
        j = i
        while desc[j] == '[':
            j += 1
        if desc[j] == 'L':
            j = desc.index(';', j)
        args.append(desc[i:j + 1])
        i = j + 1
    return args, desc[i + 1:]


# ---------------------------------------------------------------------------- values

class JObj:
    def __init__(self, cls):
        self.cls = cls
        self.f = {}


class JStr:
    def __init__(self, bs, opaque=False):
        self.bs = list(bs)
        self.opaque = opaque


class JArr:
    def __init__(self, items, et='B'):
        self.items = list(items)
        self.et = et


class JList:
    def __init__(self):
        self.items = []


class JMap:
    def __init__(self):
        self.entries = []   # (key, value)


class JBox:
    def __init__(self, kind, v):
        self.kind, self.v = kind, v     # kind: Byte Short Integer Long Float Double Boolean Character


class JFloat:
    def __init__(self, bits):
        self.bits = bits


class JDouble:
    def __init__(self, bits):
        self.bits = bits


class JSupplier:
    def __init__(self, kind, target):
        self.kind, self.target = kind, target


class JBuf:
    def __init__(self, data=None):
        self.b = list(data or [])
        self.r = 0


class JToken:
    def __init__(self, name):
        self.name = name


class JCks:
    def __init__(self, alg):
        self.alg = alg


class JThrow(Exception):
    def __init__(self, obj):
        Exception.__init__(self, 'java exception')
        self.obj = obj


def utf16_units(bs):
    """String.length() of the string whose UTF-8 encoding is bs: one unit per non-continuation byte, one more per
    four-byte lead byte.  Equal to the byte count only for ASCII content."""
    n = 0
    terms = []
    for b in bs:
        if is_sym(b):
            terms.append(z3.If((b & 0xC0) != 0x80, z3.BitVecVal(1, 32), z3.BitVecVal(0, 32)) + z3.If(z3.UGE(b, 0xF0), z3.BitVecVal(1, 32), z3.BitVecVal(0, 32)))
        else:
            v = conc(b) if not isinstance(b, int) else b
            n += (1 if (v & 0xC0) != 0x80 else 0) + (1 if v >= 0xF0 else 0)
    if not terms:
        return n
    t = z3.BitVecVal(n, 32)
    for x in terms:
        t = t + x
    return simp(t)


def i32(v):
    if isinstance(v, int):
        v &= 0xffffffff
        return v - (1 << 32) if v >> 31 else v
    return v


def i64(v):
    if isinstance(v, int):
        v &= (1 << 64) - 1
        return v - (1 << 64) if v >> 63 else v
    return v


def as_bv(v, w):
    if isinstance(v, int):
        return z3.BitVecVal(v & ((1 << w) - 1), w)
    return v


def narrow(v, w):
    """int (32-bit) -> sign-extended low w bits (i2b / i2s), result still a 32-bit int"""
    if isinstance(v, int):
        v &= (1 << w) - 1
        return v - (1 << w) if v >> (w - 1) else v
    return simp(z3.SignExt(32 - w, z3.Extract(w - 1, 0, v)))


BOXW = {'Byte': 8, 'Short': 16, 'Integer': 32, 'Long': 64, 'Character': 16, 'Boolean': 1}
PRIMW = {'B': 8, 'S': 16, 'I': 32, 'J': 64, 'C': 16, 'Z': 1, 'F': 32, 'D': 64}


class JavaFE:
    lang = 'java'

    def __init__(self, spec, emit, ldir=None):
        self.spec = spec
        self.rejects = []
        self.soft = []
        self.classes = {}
        self.functions_encoded = []
        if ldir is None or not os.path.exists(os.path.join(ldir, 'lower.json')):
            self.rejects.append('no java lowered')
            return
        lj = json.load(open(os.path.join(ldir, 'lower.json')))
        if lj['errors']:
            self.rejects = [norm_javac(e) for e in lj['errors']]
            return
        self.classes = parse_javap(open(os.path.join(ldir, 'javap.txt')).read())
        sp = os.path.join(ldir, 'strings.json')
        self.strconsts = json.load(open(sp)) if os.path.exists(sp) else {}
        for c in self.classes.values():
            for k, m in c.methods.items():
                self.functions_encoded.append(c.name + '.' + m.name)
        self.statics = {}
        self.inited = set()
        self.ctl = PathCtl()
        self.cks_registered = True
        self.cks_at_init = None      # registration state while static initialisers run (None: as at call time)
        self.cks_hint = {'*': (4, False)}
        self.steps = 0

    # ------------------------------------------------------------------ class helpers
    def find_class(self, packet, parent=None):
        cands = [c for c in self.classes if norm(c.split('/')[-1].split('$')[-1]) == norm(packet.name)]
        if not cands:
            return None
        if len(cands) > 1:
            if parent is not None:
                inner = [c for c in cands if c.startswith(parent.name + '$')]
                if inner:
                    return self.classes[inner[0]]
            top = [c for c in cands if '$' not in c.split('/')[-1]]
            if len(top) == 1:
                return self.classes[top[0]]
            raise Unsupported('ambiguous class name %s' % packet.name)
        return self.classes[cands[0]]

    def inst_fields(self, cls):
        return [(n, d) for n, d, st in cls.fields if not st]

    def members(self, cname):
        return [n for n, d in self.inst_fields(self.classes[cname])]

    def find_method(self, cname, name, desc):
        c = self.classes.get(cname)
        while c is not None:
            m = c.methods.get(name + desc)
            if m is not None:
                return m
            c = self.classes.get(c.super) if c.super else None
        return None

    def ensure_init(self, cname):
        if cname in self.inited or cname not in self.classes:
            return
        self.inited.add(cname)
        c = self.classes[cname]
        for n, d, st in c.fields:
            if st:
                self.statics[(cname, n)] = default_of(d)
        m = c.methods.get('<clinit>()V')
        if m is not None:
            # a static initialiser runs when the class is loaded - the registry may have looked different then (cks_at_init)
            now = self.cks_registered
            if getattr(self, 'cks_at_init', None) is not None:
                self.cks_registered = self.cks_at_init
            try:
                self.exec_method(m, [])
            finally:
                self.cks_registered = now

    def new_obj(self, cname):
        c = self.classes[cname]
        o = JObj(c)
        k = c
        while k is not None:
            for n, d, st in k.fields:
                if not st:
                    o.f[n] = default_of(d)
            k = self.classes.get(k.super) if k.super else None
        return o

    # ------------------------------------------------------------------ interpreter
    def exec_method(self, m, args):
        if not m.code:
            raise Unsupported('method without code: %s.%s' % (m.cls.name, m.name))
        locs = [None] * (m.maxlocals + 4)
        ptypes, ret = parse_desc(m.desc)
        i = 0
        ai = 0
        if not m.static:
            locs[0] = args[0]
            i = 1
            ai = 1
        for t in ptypes:
            locs[i] = args[ai]
            ai += 1
            i += 2 if t in ('J', 'D') else 1
        stack = []
        code = m.code
        idx = 0
        push = stack.append
        pop = stack.pop
        while True:
            self.steps += 1
            if self.steps > 2_000_000:
                raise Outcome('unwind', 'instruction budget exceeded')
            pc, op, arg, cmt = code[idx]
            nxt = idx + 1
            try:
                if op.startswith(('aload', 'iload', 'lload', 'fload', 'dload')):
                    k = int(op.split('_')[1]) if '_' in op else int(arg)
                    push(locs[k])
                elif op.startswith(('astore', 'istore', 'lstore', 'fstore', 'dstore')):
                    k = int(op.split('_')[1]) if '_' in op else int(arg)
                    locs[k] = pop()
                elif op == 'getfield':
                    o = pop()
                    cn, fn, fd = fieldref(cmt, m.cls.name)
                    if o is None:
                        raise JThrow(self.mkexc('java/lang/NullPointerException', 'getfield %s on null' % fn))
                    push(o.f.get(fn, default_of(fd)))
                elif op == 'putfield':
                    v = pop()
                    o = pop()
                    cn, fn, fd = fieldref(cmt, m.cls.name)
                    if o is None:
                        raise JThrow(self.mkexc('java/lang/NullPointerException', 'putfield %s on null' % fn))
                    o.f[fn] = v
                elif op == 'getstatic':
                    cn, fn, fd = fieldref(cmt, m.cls.name)
                    if cn in self.classes:
                        self.ensure_init(cn)
                        push(self.statics.get((cn, fn)))
                    else:
                        push(JToken(cn + '.' + fn))
                elif op == 'putstatic':
                    cn, fn, fd = fieldref(cmt, m.cls.name)
                    self.ensure_init(cn)
                    self.statics[(cn, fn)] = pop()
                elif op in ('invokevirtual', 'invokeinterface', 'invokespecial', 'invokestatic'):
                    cn, mn, md = methodref(cmt, m.cls.name)
                    ptys, rty = parse_desc(md)
                    a = [pop() for _ in ptys][::-1]
                    recv = None
                    if op != 'invokestatic':
                        recv = pop()
                    r = self.invoke(op, cn, mn, md, recv, a)
                    if rty != 'V':
                        push(r)
                elif op == 'invokedynamic':
                    push(self.indy(m, cmt, stack))
                elif op == 'new':
                    cn = cmt.split()[1].strip('"')
                    if cn in self.classes:
                        self.ensure_init(cn)
                        push(self.new_obj(cn))
                    else:
                        push(self.new_lib(cn))
                elif op == 'dup':
                    push(stack[-1])
                elif op == 'dup_x1':
                    a = pop(); b = pop(); push(a); push(b); push(a)
                elif op == 'dup2':
                    v = stack[-1]
                    if is_cat2(v):
                        push(v)
                    else:
                        a, b = stack[-2], stack[-1]
                        push(a); push(b)
                elif op == 'pop':
                    pop()
                elif op == 'pop2':
                    v = pop()
                    if not is_cat2(v):
                        pop()
                elif op == 'swap':
                    a = pop(); b = pop(); push(a); push(b)
                elif op == 'aconst_null':
                    push(None)
                elif op.startswith('iconst_'):
                    push(-1 if op == 'iconst_m1' else int(op[7:]))
                elif op.startswith('lconst_'):
                    push(JLong(int(op[7:])))
                elif op.startswith('fconst_'):
                    import struct
                    push(JFloat(z3.BitVecVal(struct.unpack('>I', struct.pack('>f', float(op[7:])))[0], 32)))
                elif op.startswith('dconst_'):
                    import struct
                    push(JDouble(z3.BitVecVal(struct.unpack('>Q', struct.pack('>d', float(op[7:])))[0], 64)))
                elif op in ('bipush', 'sipush'):
                    push(int(arg))
                elif op in ('ldc', 'ldc_w', 'ldc2_w'):
                    hx = (self.strconsts.get(m.cls.name) or {}).get(str(arg).lstrip('#')) if cmt.startswith('String') else None
                    if hx is not None:
                        push(JStr([z3.BitVecVal(c, 8) for c in bytes.fromhex(hx)]))
                    else:
                        push(self.ldc(cmt))
                elif op == 'i2b':
                    push(narrow(pop(), 8))
                elif op == 'i2s':
                    push(narrow(pop(), 16))
                elif op == 'i2c':
                    v = pop()
                    push(v & 0xffff if isinstance(v, int) else simp(z3.ZeroExt(16, z3.Extract(15, 0, v))))
                elif op == 'i2l':
                    v = pop()
                    push(JLong(v if isinstance(v, int) else simp(z3.SignExt(32, v))))
                elif op == 'l2i':
                    v = pop().v
                    push(i32(v) if isinstance(v, int) else simp(z3.Extract(31, 0, v)))
                elif op in ('iadd', 'isub', 'imul', 'iand', 'ior', 'ixor', 'ishl', 'ishr', 'iushr'):
                    b = pop(); a = pop()
                    push(self.iarith(op[1:], a, b, 32))
                elif op in ('ladd', 'lsub', 'lmul', 'land', 'lor', 'lxor'):
                    b = pop().v; a = pop().v
                    push(JLong(self.iarith(op[1:], a, b, 64)))
                elif op == 'ineg':
                    a = pop()
                    push(i32(-a) if isinstance(a, int) else -a)
                elif op == 'lcmp':
                    b = pop().v; a = pop().v
                    if isinstance(a, int) and isinstance(b, int):
                        push((a > b) - (a < b))
                    else:
                        A, B = as_bv(a, 64), as_bv(b, 64)
                        push(z3.If(A > B, z3.BitVecVal(1, 32), z3.If(A < B, z3.BitVecVal(-1, 32), z3.BitVecVal(0, 32))))
                elif op == 'iinc':
                    k, d = [int(x) for x in arg.split(',')]
                    v = locs[k]
                    locs[k] = i32(v + d) if isinstance(v, int) else v + d
                elif op in ('goto', 'goto_w'):
                    nxt = m.pcidx[int(arg)]
                elif op.startswith('if_icmp'):
                    b = pop(); a = pop()
                    if self.icmp(op[7:], a, b):
                        nxt = m.pcidx[int(arg)]
                elif op in ('ifeq', 'ifne', 'iflt', 'ifge', 'ifgt', 'ifle'):
                    a = pop()
                    if self.icmp(op[2:], a, 0):
                        nxt = m.pcidx[int(arg)]
                elif op in ('ifnull', 'ifnonnull'):
                    a = pop()
                    if (a is None) == (op == 'ifnull'):
                        nxt = m.pcidx[int(arg)]
                elif op in ('if_acmpeq', 'if_acmpne'):
                    b = pop(); a = pop()
                    if (a is b) == (op == 'if_acmpeq'):
                        nxt = m.pcidx[int(arg)]
                elif op in ('return',):
                    return None
                elif op in ('areturn', 'ireturn', 'lreturn', 'freturn', 'dreturn'):
                    return pop()
                elif op == 'athrow':
                    e = pop()
                    raise JThrow(e)
                elif op == 'checkcast':
                    pass
                elif op == 'instanceof':
                    o = pop()
                    cn = cmt.split()[1].strip('"')
                    push(1 if self.instance_of(o, cn) else 0)
                elif op == 'arraylength':
                    a = pop()
                    if a is None:
                        raise JThrow(self.mkexc('java/lang/NullPointerException', 'arraylength'))
                    push(len(a.items))
                elif op in ('anewarray', 'newarray'):
                    nlen = self.cint(pop())
                    push(JArr([None if op == 'anewarray' else 0] * nlen, 'L' if op == 'anewarray' else arg.strip()))
                elif op in ('aastore', 'bastore', 'iastore', 'castore', 'sastore'):
                    v = pop(); k = self.cint(pop()); a = pop()
                    if k < 0 or k >= len(a.items):
                        raise JThrow(self.mkexc('java/lang/ArrayIndexOutOfBoundsException', str(k)))
                    a.items[k] = v
                elif op in ('aaload', 'baload', 'iaload', 'caload', 'saload'):
                    k = self.cint(pop()); a = pop()
                    if k < 0 or k >= len(a.items):
                        raise JThrow(self.mkexc('java/lang/ArrayIndexOutOfBoundsException', str(k)))
                    v = a.items[k]
                    if op == 'baload' and is_sym(v) and v.size() == 8:
                        v = simp(z3.SignExt(24, v))
                    push(v)
                elif op in ('lookupswitch', 'tableswitch'):
                    v = self.cint(pop())
                    tgt = arg.get(str(v), arg['default'])
                    nxt = m.pcidx[tgt]
                elif op == 'nop':
                    pass
                elif op in ('f2d', 'd2f', 'i2f', 'i2d', 'l2d', 'l2f', 'f2i', 'd2i', 'fadd', 'dadd', 'fcmpl', 'fcmpg', 'dcmpl', 'dcmpg'):
                    raise Unsupported('floating point bytecode ' + op)
                else:
                    raise Unsupported('bytecode ' + op)
            except JThrow as jt:
                h = self.find_handler(m, pc, jt.obj)
                if h is None:
                    raise
                stack[:] = [jt.obj]
                nxt = m.pcidx[h]
            idx = nxt

    def find_handler(self, m, pc, exc):
        for a, b, tgt, typ in m.exc:
            if a <= pc < b:
                if typ == 'any' or self.instance_of(exc, typ.replace('Class ', '').strip()):
                    return tgt
        return None

    def cint(self, v):
        if isinstance(v, int):
            return v
        c = conc_signed(v)
        if c is None:
            if z3.is_bv(v):
                u = self.ctl.concretise(v)
                return u - (1 << v.size()) if u >> (v.size() - 1) else u
            raise Unsupported('symbolic int where a concrete one is needed')
        return c

    def iarith(self, op, a, b, w):
        wrapf = i32 if w == 32 else i64
        if isinstance(a, int) and isinstance(b, int):
            if op == 'add':
                return wrapf(a + b)
            if op == 'sub':
                return wrapf(a - b)
            if op == 'mul':
                return wrapf(a * b)
            if op == 'and':
                return wrapf(a & b)
            if op == 'or':
                return wrapf(a | b)
            if op == 'xor':
                return wrapf(a ^ b)
            if op == 'shl':
                return wrapf(a << (b & (w - 1)))
            if op == 'shr':
                return wrapf(a >> (b & (w - 1)))
            if op == 'ushr':
                return wrapf((a & ((1 << w) - 1)) >> (b & (w - 1)))
        A, B = as_bv(a, w), as_bv(b, w)
        if op == 'add':
            return A + B
        if op == 'sub':
            return A - B
        if op == 'mul':
            return A * B
        if op == 'and':
            return A & B
        if op == 'or':
            return A | B
        if op == 'xor':
            return A ^ B
        raise Unsupported('symbolic ' + op)

    def icmp(self, rel, a, b):
        if isinstance(a, int) and isinstance(b, int):
            return {'eq': a == b, 'ne': a != b, 'lt': a < b, 'ge': a >= b, 'gt': a > b, 'le': a <= b}[rel]
        A, B = as_bv(a, 32), as_bv(b, 32)
        c = {'eq': A == B, 'ne': A != B, 'lt': A < B, 'ge': A >= B, 'gt': A > B, 'le': A <= B}[rel]
        return self.ctl.branch(c)

    def ldc(self, cmt):
        kind, _, rest = cmt.partition(' ')
        if kind == 'String':
            s = rest
            try:
                s = bytes(rest, 'utf-8').decode('unicode_escape').encode('latin-1', 'ignore').decode('utf-8', 'ignore') if '\\' in rest else rest
            except Exception:
                s = rest
            return JStr([z3.BitVecVal(c, 8) for c in s.encode()])
        if kind == 'int':
            return int(rest)
        if kind == 'long':
            return JLong(int(rest.rstrip('lL')))
        if kind == 'float':
            import struct
            return JFloat(z3.BitVecVal(struct.unpack('>I', struct.pack('>f', float(rest.rstrip('fF'))))[0], 32))
        if kind == 'double':
            import struct
            return JDouble(z3.BitVecVal(struct.unpack('>Q', struct.pack('>d', float(rest.rstrip('dD'))))[0], 64))
        if kind == 'class':
            return JToken('class:' + rest.strip('"'))
        raise Unsupported('ldc ' + cmt)

    def instance_of(self, o, cn):
        if o is None:
            return False
        if isinstance(o, JObj):
            c = o.cls
            while c is not None:
                if c.name == cn or cn in c.interfaces:
                    return True
                c = self.classes.get(c.super) if c.super else None
            if getattr(o, 'libcls', None):
                return exc_isa(o.libcls, cn)
            return False
        if isinstance(o, JLibObj):
            return exc_isa(o.cname, cn)
        return True

    def mkexc(self, cname, msg=''):
        return JLibObj(cname, msg)

    def new_lib(self, cn):
        if cn == 'java/util/ArrayList' or cn == 'java/util/LinkedList':
            return JList()
        if cn in ('java/util/HashMap', 'java/util/LinkedHashMap', 'java/util/concurrent/ConcurrentHashMap', 'java/util/TreeMap'):
            return JMap()
        if cn == 'java/lang/StringBuilder':
            return JLibObj(cn, '')
        return JLibObj(cn, '')

    def indy(self, m, cmt, stack):
        mm = re.match(r'InvokeDynamic #(\d+):(\w+):(\(.*)$', cmt)
        if not mm:
            raise Unsupported('invokedynamic ' + cmt)
        bidx, name, desc = int(mm.group(1)), mm.group(2), mm.group(3)
        ptys, rty = parse_desc(desc)
        args = [stack.pop() for _ in ptys][::-1]
        bs = m.cls.bootstrap.get(bidx)
        if name == 'makeConcatWithConstants':
            return JStr([], opaque=True)
        if bs and 'LambdaMetafactory' in bs['bsm']:
            impl = bs['args'][1] if len(bs['args']) > 1 else ''
            mi = re.match(r'(REF_\w+) (\S+?)\.("?<?\w+>?"?):(\S+)', impl)
            if not mi:
                raise Unsupported('lambda impl ' + impl)
            kind, cn, mn, md = mi.group(1), mi.group(2), mi.group(3).strip('"'), mi.group(4)
            return JSupplier(kind, (cn, mn, md, args))
        raise Unsupported('invokedynamic ' + cmt)

    # ------------------------------------------------------------------ calls
    def invoke(self, op, cn, mn, md, recv, a):
        # emitted classes
        if op == 'invokestatic' and cn in self.classes:
            self.ensure_init(cn)
            m = self.find_method(cn, mn, md)
            if m is None:
                raise Unsupported('static method %s.%s' % (cn, mn))
            return self.exec_method(m, a)
        if op != 'invokestatic':
            if recv is None:
                raise JThrow(self.mkexc('java/lang/NullPointerException', 'invoke %s.%s on null' % (cn, mn)))
            if isinstance(recv, JObj):
                start = cn if op == 'invokespecial' else recv.cls.name
                m = self.find_method(start, mn, md)
                if m is not None and m.code:
                    return self.exec_method(m, [recv] + a)
                # default methods of the codec interface and library superclasses
                return self.lib_call(cn, mn, md, recv, a)
        return self.lib_call(cn, mn, md, recv, a)

    def lib_call(self, cn, mn, md, recv, a):
        key = cn + '.' + mn
        # ---- ByteBuf
        if isinstance(recv, JBuf):
            return self.bytebuf(recv, mn, md, a)
        if cn == 'java/lang/Object' and mn == '<init>':
            return None
        if cn == 'java/lang/Enum' and mn == '<init>':
            recv.f['$name'] = a[0]
            recv.f['$ordinal'] = a[1]
            return None
        if mn == 'clone' and isinstance(recv, JArr):
            return JArr(recv.items, recv.et)
        if key == 'io/netty/util/internal/StringUtil.isNullOrEmpty':
            s = a[0]
            return 1 if (s is None or len(s.bs) == 0) else 0
        if cn == 'java/lang/String':
            if mn == 'getBytes':
                return JArr(list(recv.bs), 'B')
            if mn == 'length':
                return utf16_units(recv.bs)
            if mn == 'isEmpty':
                return 1 if not recv.bs else 0
            if mn in ('toString', 'intern', 'trim'):
                if mn == 'trim':
                    # String.trim(): drop leading and trailing chars <= U+0020 (the string is carried as UTF-8 bytes; bytes of a
                    # multi-byte sequence are all >= 0x80, so a byte-wise trim is the same thing)
                    bs = list(recv.bs)
                    while bs:
                        b0 = bs[0]
                        c = (conc(b0) <= 0x20) if conc(b0) is not None else self.ctl.branch(z3.ULE(b0, 0x20))
                        if not c:
                            break
                        bs.pop(0)
                    while bs:
                        b0 = bs[-1]
                        c = (conc(b0) <= 0x20) if conc(b0) is not None else self.ctl.branch(z3.ULE(b0, 0x20))
                        if not c:
                            break
                        bs.pop()
                    return JStr(bs)
                return recv
            if mn == 'valueOf':
                return JStr([], opaque=True)
            if mn == 'equals':
                return self.obj_equals(recv, a[0])
        if cn == 'java/lang/CharSequence' and mn == 'toString':
            return recv
        if cn == 'java/lang/Object' and mn == 'toString':
            return recv if isinstance(recv, JStr) else JStr([], opaque=True)
        if cn == 'java/lang/Object' and mn == 'getClass':
            return JToken('class:' + (recv.cls.name if isinstance(recv, JObj) else type(recv).__name__))
        # ---- boxing
        if cn in ('java/lang/Byte', 'java/lang/Short', 'java/lang/Integer', 'java/lang/Long', 'java/lang/Character', 'java/lang/Boolean',
                  'java/lang/Float', 'java/lang/Double', 'java/lang/Number'):
            kind = cn.split('/')[-1]
            if mn in ('parseUnsignedLong', 'parseLong', 'parseInt', 'parseUnsignedInt', 'parseShort', 'parseByte') and recv is None and isinstance(a[0], JStr):
                txt = bytes(conc(b) for b in a[0].bs).decode()
                w = 64 if 'Long' in mn else (32 if 'Int' in mn else (16 if 'Short' in mn else 8))
                try:
                    v = int(txt, conc(a[1]) if len(a) > 1 else 10)
                except ValueError:
                    raise JThrow(self.mkexc('java/lang/NumberFormatException', 'For input string: "%s"' % txt))
                lo, hi = ((0, (1 << w) - 1) if 'Unsigned' in mn else (-(1 << (w - 1)), (1 << (w - 1)) - 1))
                if not lo <= v <= hi:
                    raise JThrow(self.mkexc('java/lang/NumberFormatException', 'out of range: "%s"' % txt))
                return z3.BitVecVal(v & ((1 << w) - 1), w if w == 64 else 32) if w == 64 else ((v + (1 << 31)) % (1 << 32) - (1 << 31))
            if mn == 'valueOf' and recv is None:
                return JBox(kind, a[0])
            if mn.endswith('Value'):
                if recv is None:
                    raise JThrow(self.mkexc('java/lang/NullPointerException', 'unboxing null'))
                return self.unbox(recv, mn[:-5])
            if mn == 'equals':
                return self.obj_equals(recv, a[0])
            if mn == 'toString':
                return JStr([], opaque=True)
        # ---- collections
        if isinstance(recv, JList):
            if mn == '<init>':
                return None
            if mn == 'add':
                recv.items.append(a[0])
                return 1
            if mn == 'get':
                k = self.cint(a[0])
                if k < 0 or k >= len(recv.items):
                    raise JThrow(self.mkexc('java/lang/IndexOutOfBoundsException', 'Index %d' % k))
                return recv.items[k]
            if mn == 'size':
                return len(recv.items)
            if mn == 'isEmpty':
                return 1 if not recv.items else 0
            if mn == 'iterator':
                return JIter(recv.items)
        if isinstance(recv, JIter):
            if mn == 'hasNext':
                return 1 if recv.i < len(recv.items) else 0
            if mn == 'next':
                v = recv.items[recv.i]
                recv.i += 1
                return v
        if isinstance(recv, JMap):
            if mn == '<init>':
                return None
            if mn == 'put':
                for i, (k, v) in enumerate(recv.entries):
                    e = self.key_eq(k, a[0])
                    if e is True:
                        old = v
                        recv.entries[i] = (k, a[1])
                        return old
                    if e is not False:
                        raise Unsupported('symbolic key in Map.put')
                recv.entries.append((a[0], a[1]))
                return None
            if mn == 'get' or mn == 'remove' or mn == 'containsKey':
                conds = []
                for k, v in recv.entries:
                    e = self.key_eq(k, a[0])
                    if e is True:
                        return self.map_hit(recv, mn, k, v)
                    if e is False:
                        continue
                    conds.append((e, k, v))
                if not conds:
                    return None if mn != 'containsKey' else 0
                excl = []
                prev = []
                for e, k, v in conds:
                    excl.append(z3.And([e] + [z3.Not(p) for p in prev]))
                    prev.append(e)
                excl.append(z3.And([z3.Not(p) for p in prev]))
                i = self.ctl.choose(excl)
                if i == len(conds):
                    return None if mn != 'containsKey' else 0
                return self.map_hit(recv, mn, conds[i][1], conds[i][2])
        if isinstance(recv, JSupplier) and mn == 'get':
            kind, (tcn, tmn, tmd, cap) = recv.kind, recv.target
            if kind == 'REF_newInvokeSpecial':
                if tcn not in self.classes:
                    raise Unsupported('supplier of library class ' + tcn)
                self.ensure_init(tcn)
                o = self.new_obj(tcn)
                m = self.find_method(tcn, '<init>', tmd)
                if m is None:
                    raise Unsupported('constructor %s%s' % (tcn, tmd))
                self.exec_method(m, [o] + list(cap))
                return o
            if kind == 'REF_invokeStatic':
                m = self.find_method(tcn, tmn, tmd)
                return self.exec_method(m, list(cap))
            raise Unsupported('supplier kind ' + kind)
        # ---- codec package
        if key == 'com/finproto/codec/ChecksumServiceFactory.getInstance':
            return JToken('cksfactory')
        if key == 'com/finproto/codec/ChecksumServiceFactory.getChecksumService':
            if not self.cks_registered:
                return None
            nm = a[0]
            return JCks(bytes(conc(b) for b in nm.bs).decode() if isinstance(nm, JStr) else '?')
        if isinstance(recv, JCks) and mn == 'calc':
            buf = a[0]
            w, signed = self.cks_hint.get(recv.alg, self.cks_hint['*'])
            # the contract gives the service the type ChecksumService<ByteBuf, Integer>: a 32-bit result
            if w <= 4:
                v = refmod.cks_uf(recv.alg, w, list(buf.b))
                v32 = simp(z3.SignExt(32 - 8 * w, v)) if 8 * w < 32 else v
            else:
                v32 = refmod.cks_uf(recv.alg + '_int', 4, list(buf.b))
            return JBox('Integer', v32)
        if cn == 'com/finproto/codec/BinaryCodec' or (isinstance(recv, JObj) and mn in ('writeFixedString', 'readFixedString')):
            if mn == 'writeFixedString':
                return self.write_fixed(a)
            if mn == 'readFixedString':
                return self.read_fixed(a)
        # ---- exceptions / misc
        if mn == '<init>' and isinstance(recv, JLibObj):
            if a and isinstance(a[0], JStr):
                recv.msg = 'msg'
            return None
        if cn == 'java/util/Objects':
            if mn == 'equals':
                return self.obj_equals(a[0], a[1])
            if mn == 'hash' or mn == 'hashCode':
                return 0
            if mn == 'requireNonNull':
                if a[0] is None:
                    raise JThrow(self.mkexc('java/lang/NullPointerException', 'requireNonNull'))
                return a[0]
        if cn == 'java/lang/StringBuilder':
            if mn in ('append',):
                return recv
            if mn == 'toString':
                return JStr([], opaque=True)
        raise Unsupported('library call %s.%s%s' % (cn, mn, md))

    def map_hit(self, mp, mn, k, v):
        if mn == 'get':
            return v
        if mn == 'containsKey':
            return 1
        mp.entries = [(kk, vv) for kk, vv in mp.entries if kk is not k]
        return v

    def unbox(self, box, to):
        v = box.v
        src = box.kind
        if isinstance(v, (JFloat, JDouble)):
            return v
        w = {'byte': 8, 'short': 16, 'int': 32, 'long': 64, 'char': 16, 'boolean': 32}[to]
        if isinstance(v, JLong):
            v = v.v
            sw = 64
        else:
            sw = 32
        if to == 'long':
            if isinstance(v, int):
                return JLong(v)
            return JLong(simp(z3.SignExt(64 - v.size(), v)) if v.size() < 64 else v)
        if isinstance(v, int):
            return narrow(v, w) if w < 32 else i32(v)
        if v.size() > 32:
            v = simp(z3.Extract(31, 0, v))
        return narrow(v, w) if w < 32 else v

    def key_eq(self, k, q):
        """Object.equals between map keys: True / False / z3 Bool"""
        if isinstance(k, JBox) and isinstance(q, JBox):
            if k.kind != q.kind:
                return False
            w = BOXW.get(k.kind, 32)
            a = k.v.v if isinstance(k.v, JLong) else k.v
            b = q.v.v if isinstance(q.v, JLong) else q.v
            if isinstance(a, int) and isinstance(b, int):
                return (a - b) % (1 << w) == 0
            ww = 64 if k.kind == 'Long' else 32
            A, B = as_bv(a, ww), as_bv(b, ww)
            c = simp(z3.Extract(w - 1, 0, A) == z3.Extract(w - 1, 0, B))
            if z3.is_true(c):
                return True
            if z3.is_false(c):
                return False
            return c
        if isinstance(k, JStr) and isinstance(q, JStr):
            if len(k.bs) != len(q.bs):
                return False
            cs = [simp(bv(x, 8) == bv(y, 8)) for x, y in zip(k.bs, q.bs)]
            if any(z3.is_false(c) for c in cs):
                return False
            cs = [c for c in cs if not z3.is_true(c)]
            return z3.And(cs) if cs else True
        if q is None or k is None:
            return k is q
        if type(k) is not type(q):
            return False
        return k is q

    def obj_equals(self, a, b):
        e = self.key_eq(a, b)
        if e is True:
            return 1
        if e is False:
            return 0
        return 1 if self.ctl.branch(e) else 0

    # ------------------------------------------------------------------ ByteBuf contract
    def bytebuf(self, buf, mn, md, a):
        m = re.match(r'(write|read|set|get)(Byte|Short|Int|Long|Float|Double|Medium)(LE)?$', mn)
        if m:
            kind, ty, le = m.group(1), m.group(2), bool(m.group(3))
            k = {'Byte': 1, 'Short': 2, 'Int': 4, 'Long': 8, 'Float': 4, 'Double': 8, 'Medium': 3}[ty]
            if kind == 'write':
                buf.b.extend(bytes_of(self.raw(a[0], k), k, le))
                return buf
            if kind == 'set':
                pos = self.cint(a[0])
                if pos < 0 or pos + k > len(buf.b):
                    raise JThrow(self.mkexc('java/lang/IndexOutOfBoundsException', 'set%s at %d' % (ty, pos)))
                buf.b[pos:pos + k] = bytes_of(self.raw(a[1], k), k, le)
                return buf
            if kind == 'read':
                if buf.r + k > len(buf.b):
                    raise JThrow(self.mkexc('java/lang/IndexOutOfBoundsException', 'read past end'))
                v = from_bytes(buf.b[buf.r:buf.r + k], le)
                buf.r += k
                return self.widen(v, ty)
            if kind == 'get':
                pos = self.cint(a[0])
                if pos < 0 or pos + k > len(buf.b):
                    raise JThrow(self.mkexc('java/lang/IndexOutOfBoundsException', 'get'))
                return self.widen(from_bytes(buf.b[pos:pos + k], le), ty)
        m = re.match(r'readUnsigned(Byte|Short|Int)(LE)?$', mn)
        if m:
            k = {'Byte': 1, 'Short': 2, 'Int': 4}[m.group(1)]
            if buf.r + k > len(buf.b):
                raise JThrow(self.mkexc('java/lang/IndexOutOfBoundsException', 'read past end'))
            v = from_bytes(buf.b[buf.r:buf.r + k], bool(m.group(2)))
            buf.r += k
            if k == 4:
                return JLong(simp(z3.ZeroExt(32, v)) if is_sym(v) else v)
            c = conc(v)
            return c if c is not None else simp(z3.ZeroExt(32 - 8 * k, v))
        if mn == 'writeBoolean':
            buf.b.extend(bytes_of(self.raw(a[0], 1), 1, False))
            return buf
        if mn == 'writeZero':
            buf.b.extend([z3.BitVecVal(0, 8)] * self.cint(a[0]))
            return buf
        if mn == 'skipBytes':
            n = self.cint(a[0])
            if n < 0 or buf.r + n > len(buf.b):
                raise JThrow(self.mkexc('java/lang/IndexOutOfBoundsException', 'skipBytes(%d)' % n))
            buf.r += n
            return buf
        if mn == 'isReadable':
            return 1 if (len(buf.b) - buf.r >= (self.cint(a[0]) if a else 1)) else 0
        if mn == 'readerIndex' and a:
            i = self.cint(a[0])
            if i < 0 or i > len(buf.b):
                raise JThrow(self.mkexc('java/lang/IndexOutOfBoundsException', 'readerIndex(%d)' % i))
            buf.r = i
            return buf
        if mn == 'writerIndex' and not a:
            return len(buf.b)
        if mn == 'readerIndex' and not a:
            return buf.r
        if mn == 'readableBytes':
            return len(buf.b) - buf.r
        if mn == 'writeBytes':
            arr = a[0]
            if arr is None:
                raise JThrow(self.mkexc('java/lang/NullPointerException', 'writeBytes(null)'))
            if isinstance(arr, JArr):
                buf.b.extend([x if is_sym(x) and x.size() == 8 else bv(x, 8) for x in arr.items])
                return buf
        if mn == 'writeCharSequence':
            sq = a[0]
            if sq is None:
                raise JThrow(self.mkexc('java/lang/NullPointerException', 'writeCharSequence(null)'))
            if isinstance(sq, JStr):
                # the string is carried as its UTF-8 bytes; the call returns the number of bytes written
                buf.b.extend([x if is_sym(x) and x.size() == 8 else bv(x, 8) for x in sq.bs])
                return len(sq.bs)
        if mn == 'readBytes' and isinstance(a[0], JArr):
            n = len(a[0].items)
            if buf.r + n > len(buf.b):
                raise JThrow(self.mkexc('java/lang/IndexOutOfBoundsException', 'read past end'))
            a[0].items[:] = buf.b[buf.r:buf.r + n]
            buf.r += n
            return buf
        if mn == 'readCharSequence':
            n = self.cint(a[0])
            if n < 0 or buf.r + n > len(buf.b):
                raise JThrow(self.mkexc('java/lang/IndexOutOfBoundsException', 'readCharSequence(%d)' % n))
            s = JStr(buf.b[buf.r:buf.r + n])
            buf.r += n
            return s
        raise Unsupported('ByteBuf.%s%s' % (mn, md))

    def raw(self, v, k):
        """bits written for an argument (int/long/float/double); ints are truncated to k bytes"""
        if isinstance(v, JLong):
            v = v.v
        if isinstance(v, JFloat) or isinstance(v, JDouble):
            v = v.bits
        if isinstance(v, int):
            return v & ((1 << (8 * k)) - 1)
        if v.size() > 8 * k:
            return simp(z3.Extract(8 * k - 1, 0, v))
        if v.size() < 8 * k:
            return simp(z3.SignExt(8 * k - v.size(), v))
        return v

    def widen(self, v, ty):
        if ty == 'Long':
            return JLong(v)
        if ty == 'Float':
            return JFloat(v)
        if ty == 'Double':
            return JDouble(v)
        w = v.size()
        c = conc_signed(v)
        if c is not None:
            return c
        return simp(z3.SignExt(32 - w, v)) if w < 32 else v

    def write_fixed(self, a):
        buf, s, n = a[0], a[1], self.cint(a[2])
        pad, left = (z3.BitVecVal(0x20, 8), False) if len(a) == 3 else (bv(as_bv(a[3], 32), 8), bool(self.cint(a[4])))
        bs = [] if s is None else list(s.bs)
        if len(bs) > n:
            raise JThrow(self.mkexc('java/lang/IllegalArgumentException', 'string longer than fixed size'))
        p = [pad] * (n - len(bs))
        buf.b.extend(p + bs if left else bs + p)
        return None

    def read_fixed(self, a):
        buf, n = a[0], self.cint(a[1])
        pad, left = (z3.BitVecVal(0x20, 8), False) if len(a) == 2 else (bv(as_bv(a[2], 32), 8), bool(self.cint(a[3])))
        if buf.r + n > len(buf.b):
            raise JThrow(self.mkexc('java/lang/IndexOutOfBoundsException', 'read past end'))
        bs = buf.b[buf.r:buf.r + n]
        buf.r += n
        return JStr(trim(self.ctl, bs, pad, left))

    # ------------------------------------------------------------------ API for checks
    def reset(self, ctl, cks_registered, packet):
        self.ctl = ctl
        self.cks_registered = cks_registered
        self.statics = {}
        self.inited = set()
        self.steps = 0
        self.cks_hint = refmod.cks_hints(self.spec, packet)

    def to_lang(self, packet, msg, parent=None):
        c = self.find_class(packet, parent)
        if c is None:
            raise MissingMember('class for packet %s' % packet.name)
        self.ensure_init(c.name)
        o = self.new_obj(c.name)
        fl = self.inst_fields(c)
        if len(fl) != len(packet.fields):
            raise MissingMember('packet %s: members %s for fields %s' % (packet.name, [n for n, d in fl], [f.name for f in packet.fields]))
        for f, (fn, fd) in zip(packet.fields, fl):
            sem = self.spec.resolve(f)
            v = msg.v[f.name]
            is_list = isinstance(fd, str) and ('java/util/List' in fd or 'java/util/ArrayList' in fd or 'java/util/Collection' in fd)
            if f.repeat:
                if isinstance(fd, str) and not is_list:
                    raise MissingMember('packet %s: the member of repeated field %s is no list (Java type %s)' % (packet.name, f.name, fd))
                lst = JList()
                lst.items = [self.elem_to_lang(sem, x, None, c) for x in v]
                o.f[fn] = lst
            else:
                if is_list:
                    raise MissingMember('packet %s: the member of plain field %s is a list (Java type %s)' % (packet.name, f.name, fd))
                o.f[fn] = self.elem_to_lang(sem, v, fd, c)
        return o

    def elem_to_lang(self, sem, v, fd, parent=None):
        if sem[0] in ('basic', 'lengthof', 'checksum'):
            t = sem[1]
            signed = t.startswith('i')
            if fd is None:
                # list element: boxed according to the scalar type's natural Java type
                kind = {1: 'Byte', 2: 'Short', 4: 'Integer', 8: 'Long'}[WIDTH[t]]
                if t == 'f32':
                    return JBox('Float', JFloat(v))
                if t == 'f64':
                    return JBox('Double', JDouble(v))
                if WIDTH[t] == 8:
                    return JBox(kind, JLong(v))
                return JBox(kind, simp(z3.SignExt(32 - v.size(), v)) if v.size() < 32 else v)
            if fd == 'F':
                return JFloat(v)
            if fd == 'D':
                return JDouble(v)
            if fd == 'J':
                return JLong(simp((z3.SignExt if signed else z3.ZeroExt)(64 - v.size(), v)) if v.size() < 64 else v)
            if fd in ('B', 'S', 'I', 'C', 'Z'):
                # a Java field of a narrower/equal signed type holds the same bits (sign-extended to int)
                w = PRIMW[fd]
                if v.size() > w:
                    v = z3.Extract(w - 1, 0, v)
                if fd == 'C':
                    return simp(z3.ZeroExt(32 - v.size(), v))
                return simp(z3.SignExt(32 - v.size(), v)) if v.size() < 32 else v
            if fd == 'Ljava/lang/String;':
                return JStr([v])
            raise Unsupported('scalar field with Java type ' + fd)
        if sem[0] in ('fixed', 'dyn'):
            return JStr(v)
        if sem[0] == 'obj':
            return self.to_lang(sem[1], v, parent)
        if sem[0] == 'match':
            return self.to_lang(v.packet, v)
        raise ValueError(sem)

    def run(self, fn):
        try:
            return fn()
        except JThrow as jt:
            o = jt.obj
            cname = o.cname if isinstance(o, JLibObj) else (o.cls.name if isinstance(o, JObj) else '?')
            kind = 'panic' if cname.split('/')[-1] in ('NullPointerException', 'IndexOutOfBoundsException', 'ArrayIndexOutOfBoundsException',
                                                      'ClassCastException', 'StackOverflowError') else 'error'
            raise Outcome(kind, '%s: %s' % (cname.split('/')[-1], getattr(o, 'msg', '')))
        except RecursionError:
            raise Outcome('panic', 'StackOverflowError')

    def encode(self, ctl, packet, msg, cks_registered=True):
        self.reset(ctl, cks_registered, packet)

        def go():
            o = self.to_lang(packet, msg)
            buf = JBuf()
            m = self.find_method(o.cls.name, 'encode', '(Lio/netty/buffer/ByteBuf;)V')
            if m is None:
                raise MissingMember('%s has no encode' % o.cls.name)
            self.exec_method(m, [o, buf])
            return buf.b, o
        return self.run(go)

    def decode(self, ctl, packet, data, cks_registered=True):
        self.reset(ctl, cks_registered, packet)

        def go():
            c = self.find_class(packet)
            if c is None:
                raise MissingMember('class for packet %s' % packet.name)
            self.ensure_init(c.name)
            o = self.new_obj(c.name)
            init = self.find_method(c.name, '<init>', '()V')
            if init is not None:
                self.exec_method(init, [o])
            buf = JBuf(data)
            m = self.find_method(c.name, 'decode', '(Lio/netty/buffer/ByteBuf;)V')
            if m is None:
                raise MissingMember('%s has no decode' % c.name)
            self.exec_method(m, [o, buf])
            return o, buf.r
        return self.run(go)

    def redecode(self, ctl, o, packet, data):
        self.ctl = ctl

        def go():
            buf = JBuf(data)
            m = self.find_method(o.cls.name, 'decode', '(Lio/netty/buffer/ByteBuf;)V')
            self.exec_method(m, [o, buf])
            return o, buf.r
        return self.run(go)

    def reencode(self, ctl, o, cks_registered=True):
        self.ctl = ctl

        def go():
            buf = JBuf()
            m = self.find_method(o.cls.name, 'encode', '(Lio/netty/buffer/ByteBuf;)V')
            self.exec_method(m, [o, buf])
            return buf.b
        return self.run(go)

    def to_logical(self, packet, o):
        from .compare import LObj
        fl = self.inst_fields(o.cls)
        if len(fl) != len(packet.fields):
            raise MissingMember('packet %s: members %s' % (packet.name, [n for n, d in fl]))
        out = {}
        for f, (fn, fd) in zip(packet.fields, fl):
            out[f.name] = self.val_to_logical(o.f.get(fn), fd)
        return LObj(o.cls.name, out)

    def val_to_logical(self, v, fd):
        from .compare import LInt, LBytes, LList, LObj, LFloat, LNull
        if v is None:
            return LNull()
        if isinstance(v, JList):
            return LList([self.val_to_logical(x, None) for x in v.items])
        if isinstance(v, JBox):
            inner = v.v
            w = BOXW.get(v.kind, 32)
            if isinstance(inner, (JFloat, JDouble)):
                return LFloat(inner.bits)
            if isinstance(inner, JLong):
                return LInt(as_bv(inner.v, 64), True)
            x = as_bv(inner, 32)
            return LInt(simp(z3.Extract(w - 1, 0, x)) if w < 32 else x, True)
        if isinstance(v, JLong):
            return LInt(as_bv(v.v, 64), True)
        if isinstance(v, JFloat) or isinstance(v, JDouble):
            return LFloat(v.bits)
        if isinstance(v, JStr):
            return LBytes(v.bs)
        if isinstance(v, JObj):
            pk = self.packet_of(v.cls.name)
            if pk is None:
                return LObj(v.cls.name, {})
            return self.to_logical(pk, v)
        if isinstance(v, int) or is_sym(v):
            w = PRIMW.get(fd, 32)
            x = as_bv(v, 32)
            return LInt(simp(z3.Extract(w - 1, 0, x)) if w < 32 else x, True)
        raise Unsupported('java value %r' % type(v))

    def packet_of(self, cname):
        n = cname.split('/')[-1].split('$')[-1]
        for pk in all_packets(self.spec):
            if norm(pk.name) == norm(n):
                return pk
        return None


class JLong:
    def __init__(self, v):
        self.v = v


class JLibObj:
    def __init__(self, cname, msg=''):
        self.cname = cname
        self.msg = msg


class JIter:
    def __init__(self, items):
        self.items = list(items)
        self.i = 0


def is_cat2(v):
    return isinstance(v, (JLong, JDouble))


EXC_PARENTS = {
    'java/lang/NullPointerException': 'java/lang/RuntimeException',
    'java/lang/IllegalArgumentException': 'java/lang/RuntimeException',
    'java/lang/IndexOutOfBoundsException': 'java/lang/RuntimeException',
    'java/lang/ArrayIndexOutOfBoundsException': 'java/lang/IndexOutOfBoundsException',
    'java/lang/ClassCastException': 'java/lang/RuntimeException',
    'java/lang/IllegalStateException': 'java/lang/RuntimeException',
    'java/lang/RuntimeException': 'java/lang/Exception',
    'java/lang/Exception': 'java/lang/Throwable',
}


def exc_isa(c, want):
    while c:
        if c == want:
            return True
        c = EXC_PARENTS.get(c)
    return False


def default_of(desc):
    if desc in ('B', 'S', 'I', 'C', 'Z'):
        return 0
    if desc == 'J':
        return JLong(0)
    if desc == 'F':
        return JFloat(z3.BitVecVal(0, 32))
    if desc == 'D':
        return JDouble(z3.BitVecVal(0, 64))
    return None


def fieldref(cmt, curcls):
    # 'Field msgType:S'  or 'Field com/x/Y.name:Ldesc;'
    body = cmt.split(' ', 1)[1]
    name, desc = body.rsplit(':', 1)
    if '.' in name:
        cn, fn = name.rsplit('.', 1)
    else:
        cn, fn = curcls, name
    return cn.strip('"'), fn, desc


def methodref(cmt, curcls):
    body = cmt.split(' ', 1)[1]
    k = body.index(':(')
    name, desc = body[:k], body[k + 1:]
    if '.' in name:
        cn, mn = name.rsplit('.', 1)
    else:
        cn, mn = curcls, name
    return cn.strip('"'), mn.strip('"'), desc


def norm_javac(e):
    e = re.sub(r'\s+', ' ', e.strip())
    return e[:120]
