"""Checks C01..C07 (pipeline A): command-line driver, parallel cell evaluation, known
findings, replay files and evidence."""
import os, sys, json, time, hashlib, traceback, collections, multiprocessing, re, subprocess
import z3
from . import core, build, pipea
from .core import Outcome, Unsupported, PathCtl, check_valid, neq_bytes, eval_bytes, bv, simp
from .pspec import family, shapes_for, count_alts, build_msg, Shape, WIDTH, Msg
from .ref import RefCtx, ref_enc
from .fe_py import MissingMember, all_packets
from .pipea import Finding, compare_bytes, construct_of, option_cell, norm_detail, first_model, concretise, path_at
from .compare import diff_obj

VERIF = build.VERIF
LANGS = ['python', 'go', 'java', 'rust', 'cpp']
FAMS = {
    'C01': None, 'C02': None, 'C03': None,
    'C04': ('lengthof', 'combined'),
    'C05': ('dispatch', 'match'),
    'C06': ('checksum', 'combined'),
    'C07': None, 'C15': None,
}
_LOW = {}


def lower_all(progs, emits, tier):
    tier = tier + '_' + hashlib.sha1('\n'.join(p.name + p.render() for p in progs).encode()).hexdigest()[:10]
    from .fe_go import lower_go
    from .fe_java import lower_java
    from .fe_rust import lower_rust
    from .fe_cpp import lower_cpp
    from concurrent.futures import ThreadPoolExecutor
    with ThreadPoolExecutor(4) as ex:
        fs = {'go': ex.submit(lower_go, progs, emits, tier), 'java': ex.submit(lower_java, progs, emits, tier),
              'rust': ex.submit(lower_rust, progs, emits, tier), 'cpp': ex.submit(lower_cpp, progs, emits, tier)}
        return {k: f.result() for k, f in fs.items()}


def make_fe(lang, spec, emit, low):
    if lang == 'python':
        from .fe_py import PyFE
        return PyFE(spec, emit)
    if lang == 'go':
        from .fe_go import GoFE
        return GoFE(spec, emit, low['go'].get(spec.name))
    if lang == 'java':
        from .fe_java import JavaFE
        return JavaFE(spec, emit, low['java'].get(spec.name))
    if lang == 'rust':
        from .fe_rust import RustFE
        return RustFE(spec, emit, low['rust'].get(spec.name))
    if lang == 'cpp':
        from .fe_cpp import CppFE
        return CppFE(spec, emit, low['cpp'].get(spec.name))
    raise KeyError(lang)


# ---------------------------------------------------------------------------- property cells

def sig(f):
    return '%s|%s|%s|%s|%s|%s' % (f.prop, f.lang, f.prog, f.packet, f.construct, f.symptom)


def cells_c01(prop, fe, spec, pk, sh, stats, res):
    for f in pipea.run_c01(fe, spec, pk, sh, [], stats):
        f.prop = prop
        res.append(f)


def cells_c02(prop, fe, spec, pk, sh, stats, res, ntrail):
    seen = set()
    # with trailing bytes (the decoder must stop where the message ends) and, for some shapes, with none at all (the message's
    # last byte is the buffer's last byte: guards of the kind "enough bytes left" are exact there)
    for nt in ([ntrail, 0] if (sh.s in (1, 'full') and not sh.salt) or ntrail > 1 else [ntrail]):
        for f in pipea.run_c02(fe, spec, pk, sh, [], stats, ntrail=nt):
            f.prop = prop
            if nt == 0:
                f.symptom = 'exact-buffer:' + f.symptom
            k = (f.construct, f.symptom.replace('exact-buffer:', ''))
            if k in seen:
                continue
            seen.add(k)
            res.append(f)


def has_checksum(spec, pk, depth=0):
    """the packet, or a packet nested in it (object, inline object, match payload), declares a checksum field"""
    if depth > 4:
        return False
    for f in pk.fields:
        sem = spec.resolve(f)
        if sem[0] == 'checksum':
            return True
        if sem[0] == 'obj' and sem[1] is not None and has_checksum(spec, sem[1], depth + 1):
            return True
        if sem[0] == 'match' and any(spec.packet(p) is not None and has_checksum(spec, spec.packet(p), depth + 1) for _, p in f.pairs):
            return True
    return False


def cells_c06(prop, fe, spec, pk, sh, stats, res, ntrail):
    if not has_checksum(spec, pk):
        return
    for reg in (True, False):
        for f in pipea.run_c01(fe, spec, pk, sh, [], stats, cks_registered=reg):
            f.prop = prop
            f.symptom = ('registered:' if reg else 'unregistered:') + f.symptom
            if f.construct.startswith('checksum') or f.construct == 'packet':
                res.append(f)
        for f in pipea.run_c02(fe, spec, pk, sh, [], stats, ntrail=ntrail, cks_registered=reg):
            f.prop = prop
            f.symptom = ('registered:' if reg else 'unregistered:') + f.symptom
            if f.construct.startswith('checksum') or f.construct == 'packet':
                res.append(f)
    # the registry is consulted when a message is encoded, not when its class was loaded: the service registered (or removed)
    # AFTER the emitted classes ran their static initialisers (Java)
    if hasattr(fe, 'cks_at_init') and sh.s == 1 and not sh.salt:
        for reg in (True, False):
            fe.cks_at_init = not reg
            try:
                plain = set((g.construct, g.symptom.split(':', 1)[1]) for g in res if g.symptom.startswith('registered:' if reg else 'unregistered:'))
                for f in pipea.run_c01(fe, spec, pk, sh, [], stats, cks_registered=reg):
                    f.prop = prop
                    if (f.construct, f.symptom) in plain:
                        continue            # the same failure without the change of registration: reported above
                    f.symptom = ('registered-after-load:' if reg else 'removed-after-load:') + f.symptom
                    if f.construct.startswith('checksum') or f.construct == 'packet':
                        res.append(f)
            finally:
                fe.cks_at_init = None


def cells_c04(prop, fe, spec, pk, sh, stats, res, ntrail):
    if not any(f.kind == 'lengthof' for f in pk.fields):
        return
    fs = pipea.run_c01(fe, spec, pk, sh, [], stats) + pipea.run_c02(fe, spec, pk, sh, [], stats, ntrail=ntrail)
    for f in fs:
        f.prop = prop
        if f.construct.startswith('lengthof') or f.construct == 'packet':
            res.append(f)


def run_c04_absent(fe, spec, pk, sh, stats):
    """languages whose emitted encoder guards a nil/null length-of target (Go, Java): an unset target occupies zero bytes,
    so the length field must be 0 on the wire whatever the caller stored in it"""
    import copy
    res = []
    if fe.lang not in ('go', 'java'):
        return res
    lf = [f for f in pk.fields if f.kind == 'lengthof']
    if not lf:
        return res
    tgt = [f for f in pk.fields if f.name == lf[0].target]
    if not tgt or tgt[0].kind not in ('match', 'obj') or tgt[0].repeat:
        return res
    asm = []
    msg = build_msg(spec, pk, sh, pk.name, asm)
    # reference: the same packet with the target replaced by an empty object
    from .pspec import Packet, F, PSpec
    spec2 = copy.copy(spec)
    spec2.packets = list(spec.packets) + [Packet('VerifEmpty', [])]
    pk2 = Packet(pk.name, [F('obj', f.name, typ='VerifEmpty') if f is tgt[0] else f for f in pk.fields], root=pk.root)
    msg2 = Msg(pk2)
    for f in pk.fields:
        msg2.v[f.name] = Msg(spec2.packet('VerifEmpty')) if f is tgt[0] else msg.v[f.name]
    rctx = RefCtx(spec2)
    want = ref_enc(rctx, pk2, msg2)
    idx = pk.fields.index(tgt[0])

    def run(c):
        if fe.lang == 'java':
            fe.reset(c, True, pk)
            o = fe.to_lang(pk, msg)
            o.f[fe.members(o.cls.name)[idx]] = None
            from .fe_java import JBuf
            buf = JBuf()
            m = fe.find_method(o.cls.name, 'encode', '(Lio/netty/buffer/ByteBuf;)V')
            return fe.run(lambda: (fe.exec_method(m, [o, buf]), buf.b)[1])
        M = fe.machine(c, True, pk)
        obj, tid = fe.to_lang(pk, msg)
        obj.cell.v[idx] = None
        buf = fe.newbuf()
        fe.run_method(M, tid, 'Encode', obj, buf)
        from .fe_go import bufstate
        return bufstate(M, buf).b
    for r, pc in list(PathCtl(asm).explore(run)):
        stats.obligations += 1
        if isinstance(r, Outcome):
            res.append(Finding('C04', fe.lang, spec.name, pk.name, sh.ident(), 'lengthof:%s:%s' % (lf[0].typ, lf[0].spelling), '*',
                               'absent-target:outcome:%s:%s' % (r.kind, norm_detail(r.detail)), detail='target unset: %s' % r, cex=first_model(asm + pc, msg)))
            continue
        f = compare_bytes('C04', fe.lang, spec2, pk2, sh, rctx, want, r, asm + pc, msg)
        if f:
            f.symptom = 'absent-target:' + f.symptom
            f.prog = spec.name
            f.detail = 'length-of target left unset (zero bytes on the wire): ' + f.detail
            res.append(f)
    return res


def run_reuse(prop, fe, spec, pk, sh, stats):
    """decoding a message into an object that already holds another decoded message gives that message
    (a recycled value, or Decode after Decode): payload alternative a first, then alternative b"""
    res = []
    if not hasattr(fe, 'redecode'):
        return res
    mfs = [f for f in pk.fields if f.kind == 'match']
    nal = count_alts(spec, pk)
    if not mfs or nal < 2:
        return res
    asm = []
    msg_a = build_msg(spec, pk, sh, pk.name, asm)
    sh_b = Shape(sh.s, sh.k, sh.alt + 1, sh.salt)
    msg_b = build_msg(spec, pk, sh_b, pk.name + "'", asm)
    da = ref_enc(RefCtx(spec), pk, msg_a)
    rb = RefCtx(spec)
    db = ref_enc(rb, pk, msg_b)

    def fresh(c):
        o, r = fe.decode(c, pk, list(db))
        return r, fe.to_logical(pk, o)
    # baseline: a fresh decode of the second message must itself be right, otherwise the defect is not about
    # reuse and the plain decode obligations report it
    for r, pc in list(PathCtl(asm, max_paths=32).explore(fresh)):
        if isinstance(r, Outcome):
            return res
        diffs = []
        diff_obj(spec, pk, msg_b, r[1], pk.name, diffs)
        for path, aspect, term in diffs:
            if term is True or check_valid('reuse-base', asm + pc, term).status != 'unsat':
                return res
        if r[0] != len(db):
            return res

    def run(c):
        try:
            o, r = fe.decode(c, pk, list(da))
        except Outcome:
            return None      # the first decode fails by itself: reported by the plain decode obligations
        o, r2 = fe.redecode(c, o, pk, list(db))
        return r2, fe.to_logical(pk, o)
    for r, pc in list(PathCtl(asm, max_paths=32).explore(run)):
        if r is None:
            continue
        stats.obligations += 1
        A = asm + pc
        if isinstance(r, Outcome):
            res.append(Finding(prop, fe.lang, spec.name, pk.name, sh.ident(), 'match', '*', 'reuse:outcome:%s:%s' % (r.kind, norm_detail(r.detail)),
                               detail='second decode into the same object: %s' % r, cex=first_model(A, msg_b)))
            continue
        ridx, lv = r
        diffs = []
        diff_obj(spec, pk, msg_b, lv, pk.name, diffs)
        for path, aspect, term in diffs:
            if term is True:
                bad, cex = True, first_model(A, msg_b)
            else:
                v = check_valid('reuse', A, term)
                bad, cex = v.status == 'sat', (concretise(msg_b, v.model) if v.status == 'sat' else None)
            if bad:
                desc = construct_of(spec, pk, path[len(pk.name) + 1:])
                res.append(Finding(prop, fe.lang, spec.name, pk.name, sh.ident(), desc, '*', 'reuse:decode:' + norm_detail(aspect),
                                   detail='after decoding another message into the same object: %s %s' % (path, aspect), cex=cex))
                break
        else:
            if ridx != len(db):
                res.append(Finding(prop, fe.lang, spec.name, pk.name, sh.ident(), 'packet', '*', 'reuse:position%+d' % (ridx - len(db)),
                                   detail='second decode consumed %d of %d bytes' % (ridx, len(db)), cex=first_model(A, msg_b)))
    return res


def run_c05(fe, spec, pk, sh, stats):
    """symbolic key over its whole type: decode dispatches exactly as the table says; encode writes the caller's payload"""
    res = []
    mfs = [f for f in pk.fields if f.kind == 'match']
    if not mfs:
        return res
    asm = []
    msg = build_msg(spec, pk, sh, pk.name, asm, symkey=True)
    # (1) encoder: the payload written is the caller's, whatever the key says
    rctx = RefCtx(spec)
    want = ref_enc(rctx, pk, msg)
    ctl = PathCtl(asm)
    for r, pc in list(ctl.explore(lambda c: fe.encode(c, pk, msg)[0])):
        stats.obligations += 1
        if isinstance(r, Outcome):
            res.append(Finding('C05', fe.lang, spec.name, pk.name, sh.ident(), 'match', '*', 'encode:outcome:%s:%s' % (r.kind, norm_detail(r.detail)),
                               detail=str(r), cex=first_model(asm + pc, msg)))
            continue
        f = compare_bytes('C05', fe.lang, spec, pk, sh, rctx, want, r, asm + pc, msg)
        if f:
            f.symptom = 'encode:' + f.symptom
            res.append(f)
    # (2) decoder: key symbolic, payload = 8 arbitrary bytes (the dispatch family's payload packets decode from any bytes)
    if spec.family != 'dispatch':
        return res
    mf = mfs[0]
    table = {}
    for ks, pn in mf.pairs:
        for k in ks:
            table[k] = pn
    # bytes up to and including the key field come from the reference; then the arbitrary payload
    keyf = [f for f in pk.fields if f.name == mf.key][0]
    idx_key = pk.fields.index(keyf)
    idx_m = pk.fields.index(mf)
    pre_fields = pk.fields[:idx_m]
    from .pspec import Packet
    # a length-of field in front of the match travels as a plain number here: the peer chooses it.  It is assumed consistent
    # with the table (the byte count of the packet the key selects; anything for a key outside the table)
    asm = list(asm)
    wire_pre = []
    for f in pre_fields:
        if f.kind == 'lengthof':
            g = f.clone(kind='basic')
            wl = z3.BitVec('wirelen', 8 * WIDTH[spec.resolve(f)[1]])
            msg.v[f.name] = wl
            if not isinstance(keyval_of(msg, mf), list):
                kv = keyval_of(msg, mf)
                for k, pn in table.items():
                    sz = fixed_size(spec, spec.packet(pn))
                    if sz is not None:
                        asm.append(z3.Implies(kv == z3.BitVecVal(int(k) & ((1 << kv.size()) - 1), kv.size()), wl == sz))
            wire_pre.append(g)
        else:
            wire_pre.append(f)
    prepk = Packet(pk.name, wire_pre)
    premsg = Msg(prepk)
    for f in pre_fields:
        premsg.v[f.name] = msg.v[f.name]
    pre = ref_enc(RefCtx(spec), prepk, premsg)
    payload = [z3.BitVec('pay#%d' % i, 8) for i in range(8)]
    data = list(pre) + payload
    from .pspec import PAYLOAD_DOMAIN
    if pk.root:
        for i, vals in PAYLOAD_DOMAIN.get(spec.name, []):
            asm.append(z3.Or([payload[i] == v for v in vals]))
    keyval = msg.v[mf.key]
    ctl = PathCtl(asm, max_paths=64)

    def run(c):
        o, r = fe.decode(c, pk, data)
        return fe.to_logical(pk, o)
    for r, pc in list(ctl.explore(run)):
        A = asm + pc
        stats.obligations += 1
        in_table = key_in(keyval, list(table))
        if isinstance(r, Outcome):
            if r.kind != 'error':
                res.append(Finding('C05', fe.lang, spec.name, pk.name, sh.ident(), 'match', '*', 'decode:outcome:%s:%s' % (r.kind, norm_detail(r.detail)),
                                   detail='decode crashes: %s' % r, cex=model_key(A, keyval)))
                continue
            # reported error: must only happen for keys outside the table
            v = check_valid('C05:err', A, in_table)
            if v.status == 'sat':
                res.append(Finding('C05', fe.lang, spec.name, pk.name, sh.ident(), 'match', '*', 'decode:mapped-key-rejected',
                                   detail='key %s is in the table but decoding fails: %s' % (show_key(v.model, keyval), r), cex={'key': show_key(v.model, keyval)}))
            elif v.status == 'unknown':
                raise Unsupported('solver unknown')
            continue
        got = r.fields.get(mf.name)
        from .compare import LObj
        if not isinstance(got, LObj):
            v = check_valid('C05:none', A, True)
            res.append(Finding('C05', fe.lang, spec.name, pk.name, sh.ident(), 'match', '*', 'decode:no-payload',
                               detail='decode succeeds without a payload object', cex=model_key(A, keyval)))
            continue
        from .names import norm
        tgt = [pn for pn in set(table.values()) if norm(pn) == norm(got.cname.replace('/', '.').split('.')[-1].split('$')[-1].split('::')[-1])]
        if not tgt:
            res.append(Finding('C05', fe.lang, spec.name, pk.name, sh.ident(), 'match', '*', 'decode:foreign-type',
                               detail='payload decoded as %s' % got.cname, cex=model_key(A, keyval)))
            continue
        keys_t = [k for k, pn in table.items() if pn == tgt[0]]
        v = check_valid('C05:disp', A, z3.Not(key_in(keyval, keys_t)) if not isinstance(key_in(keyval, keys_t), bool) else not key_in(keyval, keys_t))
        if v.status == 'sat':
            res.append(Finding('C05', fe.lang, spec.name, pk.name, sh.ident(), 'match', '*', 'decode:dispatch(%s)' % tgt[0],
                               detail='key %s selects %s although the table does not map it there' % (show_key(v.model, keyval), tgt[0]),
                               cex={'key': show_key(v.model, keyval)}))
        elif v.status == 'unknown':
            raise Unsupported('solver unknown')
    return res


def keyval_of(msg, mf):
    return msg.v[mf.key]


def fixed_size(spec, packet):
    """byte count of a packet made of scalars only (None otherwise)"""
    n = 0
    for f in packet.fields:
        sem = spec.resolve(f)
        if f.repeat or sem[0] != 'basic':
            return None
        n += WIDTH[sem[1]]
    return n


def key_in(keyval, keys):
    if isinstance(keyval, list):     # string key: list of byte terms
        alts = []
        for k in keys:
            kb = k.encode() if isinstance(k, str) else str(k).encode()
            if len(kb) != len(keyval):
                continue
            alts.append(z3.And([bv(a, 8) == z3.BitVecVal(b, 8) for a, b in zip(keyval, kb)]) if kb else z3.BoolVal(True))
        return z3.Or(alts) if alts else z3.BoolVal(False)
    w = keyval.size()
    return z3.Or([keyval == z3.BitVecVal(int(k) & ((1 << w) - 1), w) for k in keys]) if keys else z3.BoolVal(False)


def show_key(model, keyval):
    if isinstance(keyval, list):
        return repr(eval_bytes(keyval, model))
    return model.eval(keyval, model_completion=True).as_long()


def model_key(A, keyval):
    s = z3.Solver()
    for a in A:
        s.add(a)
    if s.check() == z3.sat:
        return {'key': show_key(s.model(), keyval)}
    return None


def run_c03(fes, spec, pk, sh, stats, ntrail, cks_registered=True):
    """pairwise agreement without the reference in the loop"""
    if cks_registered and has_checksum(spec, pk):
        # a checksum field behaves in two ways (algorithm registered / not registered): the languages must agree in both
        extra = run_c03(fes, spec, pk, sh, stats, ntrail, cks_registered=False)
        for f in extra:
            f.symptom = 'unregistered:' + f.symptom
    else:
        extra = []
    res = []
    asm = []
    msg = build_msg(spec, pk, sh, pk.name, asm)
    rctx = RefCtx(spec, cks_registered=cks_registered)
    want = ref_enc(rctx, pk, msg)      # used only to name the declared field a difference falls into
    encs = {}
    for lang, fe in fes.items():
        try:
            paths = list(PathCtl(asm).explore(lambda c: fe.encode(c, pk, msg, cks_registered)[0]))
        except (Unsupported, MissingMember):
            continue
        if len(paths) != 1 or isinstance(paths[0][0], Outcome):
            encs[lang] = ('outcome', paths[0][0] if paths else None)
        else:
            encs[lang] = ('bytes', paths[0][0])
    langs = [l for l in LANGS if l in encs]
    # encoder agreement
    for i, a in enumerate(langs):
        for b in langs[i + 1:]:
            ka, va = encs[a]
            kb, vb = encs[b]
            stats.obligations += 1
            pair = '%s~%s' % (a, b)
            if ka == 'outcome' and kb == 'outcome':
                continue
            if ka != kb:
                o = va if ka == 'outcome' else vb
                res.append(Finding('C03', pair, spec.name, pk.name, sh.ident(), 'packet', '*',
                                   'encode:one-fails:%s' % (a if ka == 'outcome' else b), detail='%s' % (o,), cex=first_model(asm, msg)))
                continue
            f = compare_bytes('C03', pair, spec, pk, sh, rctx, va, vb, asm, msg) if len(va) == len(vb) else None
            if len(va) != len(vb):
                n = min(len(va), len(vb))
                idx = n
                for j in range(n):
                    d = simp(bv(va[j], 8) != bv(vb[j], 8))
                    if not z3.is_false(d) and check_valid('loc', asm, d).status != 'unsat':
                        idx = j
                        break
                path = path_at(rctx.layout, idx)
                desc = construct_of(spec, pk, path)
                f = Finding('C03', pair, spec.name, pk.name, sh.ident(), desc, '*', 'encode:len%+d' % (len(vb) - len(va)),
                            detail='%s writes %d bytes, %s writes %d (first difference at %s)' % (a, len(va), b, len(vb), path), cex=first_model(asm, msg))
            elif f:
                f.symptom = 'encode:' + f.symptom
            if f:
                res.append(f)
    # cross decoding: every decoder on every distinct encoding
    groups = []
    for l in langs:
        k, v = encs[l]
        if k != 'bytes':
            continue
        for g in groups:
            if len(g[1]) == len(v) and neq_bytes(g[1], v) is False:
                g[0].append(l)
                break
        else:
            groups.append(([l], v))
    trail = [z3.BitVec('trail#%d' % i, 8) for i in range(ntrail)]
    for src, enc in groups:
        data = list(enc) + trail
        for lang, fe in fes.items():
            if lang in src and len(groups) == 1 and False:
                continue

            def run(c):
                o, r = fe.decode(c, pk, data, cks_registered)
                return r, fe.to_logical(pk, o)
            try:
                paths = list(PathCtl(asm, max_paths=32).explore(run))
            except (Unsupported, MissingMember):
                continue
            for r, pc in paths:
                stats.obligations += 1
                A = asm + pc
                if isinstance(r, Outcome):
                    for s_ in src:
                        res.append(Finding('C03', '%s>%s' % (s_, lang), spec.name, pk.name, sh.ident(), 'packet', '*', 'decode:outcome:%s:%s' % (r.kind, norm_detail(r.detail)),
                                           detail=str(r), cex=first_model(A, msg)))
                    continue
                ridx, lv = r
                diffs = []
                diff_obj(spec, pk, msg, lv, pk.name, diffs)
                bad = None
                for path, aspect, term in diffs:
                    if term is True:
                        bad = (path, aspect, first_model(A, msg))
                        break
                    v = check_valid('C03:dec', A, term)
                    if v.status == 'sat':
                        bad = (path, aspect, concretise(msg, v.model))
                        break
                if bad:
                    desc = construct_of(spec, pk, bad[0][len(pk.name):])
                    for s_ in src:
                        res.append(Finding('C03', '%s>%s' % (s_, lang), spec.name, pk.name, sh.ident(), desc, '*', 'decode:' + norm_detail(bad[1]),
                                           detail='%s %s' % (bad[0], bad[1]), cex=bad[2]))
                elif ridx != len(enc):
                    for s_ in src:
                        res.append(Finding('C03', '%s>%s' % (s_, lang), spec.name, pk.name, sh.ident(), 'packet', '*', 'decode:position%+d' % (ridx - len(enc)),
                                           detail='decoder consumed %d of %d bytes' % (ridx, len(enc)), cex=first_model(A, msg)))
    return res + extra


def run_c07_influence(fe, spec, pk, sh, stats):
    """every declared input field influences the encoding (a dropped field has none)"""
    res = []
    asm = []
    msg = build_msg(spec, pk, sh, pk.name, asm)
    paths = list(PathCtl(asm).explore(lambda c: fe.encode(c, pk, msg)[0]))
    if len(paths) != 1 or isinstance(paths[0][0], Outcome):
        return res
    enc = paths[0][0]
    for f in pk.fields:
        sem = spec.resolve(f)
        if sem[0] in ('lengthof', 'checksum', 'match', 'obj'):
            continue
        if any(m.kind == 'match' and m.key == f.name for m in pk.fields):
            continue        # pinned key field (concrete in this shape)
        vs = field_vars(msg.v[f.name])
        if not vs:
            continue
        stats.obligations += 1
        sub = [(v, z3.BitVec(str(v) + "'", v.size())) for v in vs]
        enc2 = [z3.substitute(bv(b, 8), *sub) if core.is_sym(b) else b for b in enc]
        differs = z3.Or([a != b for a, b in sub])
        same = z3.And([bv(a, 8) == bv(b, 8) for a, b in zip(enc, enc2)]) if enc else z3.BoolVal(True)
        asm2 = asm + [z3.substitute(a, *sub) for a in asm]
        v = check_valid('C07:influence', asm2, z3.And(differs, same))
        if v.status == 'sat':
            desc = pipea.field_desc(spec, f, sem)
            res.append(Finding('C07', fe.lang, spec.name, pk.name, sh.ident(), desc, '*', 'no-influence',
                               detail='field %s does not influence the encoded bytes' % f.name, cex=concretise(msg, v.model)))
    return res


def run_c15(fe, spec, pk, sh, stats):
    """the Lua dissector over the canonical encoding: every declared field gets exactly its wire range"""
    from .fe_lua import LuaError
    from .names import norm
    res = []
    asm = []
    msg = build_msg(spec, pk, sh, pk.name, asm)
    rctx = RefCtx(spec)
    data = ref_enc(rctx, pk, msg)
    want = [(p, k, o, l) for (p, k, o, l) in sorted(rctx.layout, key=lambda e: (e[2], 0 if e[1] == 'prefix' else 1)) if k != 'prefix']
    ctl = PathCtl(asm, max_paths=32)

    def run(c):
        try:
            adds, final, proto = fe.dissect(c, data)
        except LuaError as e:
            return ('luaerror', e.msg, e.line)
        return ('ok', [a for a in adds if a[0] is not None], final)
    for r, pc in list(ctl.explore(run)):
        stats.obligations += 1
        if isinstance(r, Outcome):
            res.append(Finding('C15', 'lua', spec.name, pk.name, sh.ident(), 'packet', '*', 'outcome:%s' % r.kind, detail=str(r), cex=first_model(asm + pc, msg)))
            continue
        if r[0] == 'luaerror':
            res.append(Finding('C15', 'lua', spec.name, pk.name, sh.ident(), 'packet', '*', 'lua-error:' + norm_detail(r[1], 70),
                               detail='%s (line %s of the emitted script)' % (r[1], r[2]), cex=first_model(asm + pc, msg)))
            continue
        adds, final = r[1], r[2]
        bad = None
        for i, (p, k, o, l) in enumerate(want):
            if i >= len(adds):
                bad = (p, 'field-not-attributed', 'declared field %s (bytes %d..%d) is never added to the tree' % (p, o, o + l))
                break
            abbr, ao, al, le, label, line = adds[i]
            fname = p.split('.')[-1].split('[')[0]
            if not norm(abbr).endswith(norm(fname)):
                bad = (p, 'field-order', 'tree item %d is %s where field %s is expected' % (i, abbr, p))
                break
            if (ao, al) != (o, l):
                bad = (p, 'range(%+d,%+d)' % ((ao or 0) - o, (al or 0) - l), 'field %s occupies bytes [%d,%d) but is attributed [%s,%s) (script line %s)' % (
                    p, o, o + l, ao, (ao or 0) + (al or 0), line))
                break
            if spec.little() != le and l > 1 and k in ('basic', 'lengthof', 'checksum'):
                bad = (p, 'byte-order', 'field %s is added with %s' % (p, 'le_add' if le else 'add'))
                break
        if bad is None and len(adds) > len(want):
            bad = ('', 'extra-items', '%d extra tree items after the last declared field' % (len(adds) - len(want)))
        if bad is None:
            if final is None or (isinstance(final, int) and final != len(data)):
                bad = ('', 'final-offset', 'dissector ends at offset %s, message has %d bytes' % (final, len(data)))
        if bad:
            desc = construct_of(spec, pk, bad[0]) if bad[0] else 'packet'
            res.append(Finding('C15', 'lua', spec.name, pk.name, sh.ident(), desc, '*', bad[1], detail=bad[2], cex=first_model(asm + pc, msg)))
    return res


def long_shapes(spec, pk, tier):
    """string / list lengths at the signed boundary and at the maximum of a ONE-BYTE length prefix (the quantifier of C01/C02 names
    'long lists' and boundary values; a prefix read back as a signed byte is invisible below 128)"""
    out = []
    has_dyn = any(spec.resolve(f)[0] == 'dyn' for f in pk.fields)
    def lists_inside(q, depth=0):
        if depth > 6:
            return True
        for g in q.fields:
            sem = spec.resolve(g)
            if sem[0] == 'obj' and (g.repeat and depth > 0 or lists_inside(sem[1], depth + 1)):
                return True
            if g.repeat and depth > 0:
                return True
        return False
    # a list length applies at every nesting level: 255 elements of 255 elements is outside the bound, such packets keep the short shapes
    has_rep = any(f.repeat for f in pk.fields) and not any(spec.resolve(f)[0] == 'obj' and lists_inside(spec.resolve(f)[1], 1) for f in pk.fields)
    if spec.strpfx() == 'u8' and has_dyn:
        out += [Shape(n, 1) for n in ((200, 255) if tier == 'quick' else (127, 128, 254, 255))]
    if spec.listpfx() == 'u8' and has_rep:
        out += [Shape(1, n) for n in ((130, 255) if tier == 'quick' else (127, 128, 254, 255))]
    return out


def field_vars(v):
    out = []
    if isinstance(v, list):
        for x in v:
            out.extend(field_vars(x))
    elif isinstance(v, Msg):
        for x in v.v.values():
            out.extend(field_vars(x))
    elif core.is_sym(v) and z3.is_const(v) and v.decl().kind() == z3.Z3_OP_UNINTERPRETED:
        out.append(v)
    return out


# ---------------------------------------------------------------------------- worker

def worker(job):
    prop, tier, pname = job
    t0 = time.time()
    if os.environ.get('VERIF_TIMING'):
        sys.stderr.write('START %s %d\n' % (pname, os.getpid()))
        sys.stderr.flush()
    core.STATS.__init__()
    del core.XSAMPLES[:]
    core._XSEEN[0] = 0
    core.XLIMIT = (4 if tier == 'thorough' else (2 if (sum(map(ord, pname)) % 4 == 0) else 0))
    progs = {p.name: p for p in family(tier)}
    spec = progs[pname]
    emits = _LOW['emits']
    low = _LOW['low']
    e = emits[pname]
    out = {'prog': pname, 'findings': [], 'inconclusive': [], 'rejects': {}, 'soft': {}, 'cells': 0, 'obligations': 0,
           'functions': {}, 'samples': [], 'missing': [], 'protoc_rc': e['rc']}
    if e['rc'] != 0:
        full = e['stdout'] + e['stderr']
        diag = [l.strip() for l in full.split('\n') if re.search(r'line \d+|[Ee]rror|not allowed|[Dd]uplicate|[Uu]nknown|panic', l) and 'Usage' not in l]
        out['protoc_reject'] = '\n'.join(diag[:3]) if diag else full[-400:]
        out['stats'] = core.STATS.as_dict()
        return out
    stats = pipea.CellStats()
    ntrail = 1 if tier == 'quick' else 2
    fes = {}
    if prop == 'C15':
        from .fe_lua import LuaFE
        fe = LuaFE(spec, e)
        if fe.rejects:
            out['rejects']['lua'] = fe.rejects
        else:
            out['functions']['lua'] = len(fe.functions_encoded)
            root = spec.root()
            from .pspec import has_nested_lists
            lshapes = shapes_for(tier, count_alts(spec, root))
            if has_nested_lists(spec, root):
                lshapes = lshapes + [Shape(1, 2, 0, sl) for sl in Shape.RAGGED] + ([Shape(2, 3, 0, sl) for sl in Shape.RAGGED] if tier == 'thorough' else [])
            for sh in lshapes:
                out['cells'] += 1
                try:
                    out['findings'].extend(f.as_dict() | {'sig': sig(f)} for f in run_c15(fe, spec, root, sh, stats))
                except Unsupported as u:
                    out['inconclusive'].append(('lua', '%s/%s: %s' % (root.name, sh.ident(), str(u)[:160])))
        out['samples'].append({'program': pname, 'dsl': e['dsl'][:600]})
        out['obligations'] = stats.obligations
        out['stats'] = core.STATS.as_dict()
        out['wall'] = time.time() - t0
        return out
    if prop == 'C07':
        # the sixth target: the emitted Wireshark script must be a Lua program (own parser with Lua's scoping rules - no Lua
        # interpreter exists in the image); a script that does not parse is "code that does not build" like any other reject
        try:
            from .fe_lua import LuaFE
            lfe = LuaFE(spec, e)
            if lfe.rejects:
                out['rejects']['lua'] = lfe.rejects
            else:
                out['functions']['lua'] = len(lfe.functions_encoded)
        except Unsupported as u:
            out['inconclusive'].append(('lua', 'front-end: %s' % str(u)[:160]))
    # Go, Rust and Java write one file per packet, named after the packet: when two packets of the program (inline objects
    # included) map to the same file name, which one survives depends on Go's map iteration order (C13's subject), so the
    # emitted code - and everything said about it - would change from run to run.  Those cells carry no claim.
    names = [re.sub(r'[^a-z0-9]', '', q.name.lower()) for q in all_packets(spec)]
    collide = len(set(names)) != len(names)
    for lang in LANGS:
        if collide and lang in ('go', 'rust', 'java'):
            out['inconclusive'].append((lang, 'two packets share one output file name: the emitted files depend on map iteration order (reported by C13)'))
            continue
        try:
            fe = make_fe(lang, spec, e, low)
        except Exception as ex:
            out['inconclusive'].append((lang, 'front-end construction: %s' % str(ex)[:200]))
            continue
        if fe.rejects:
            out['rejects'][lang] = sorted(set(fe.rejects))
            continue
        if getattr(fe, 'soft', None):
            out['soft'][lang] = sorted(set(fe.soft))
        out['functions'][lang] = len(fe.functions_encoded)
        fes[lang] = fe
    packets = all_packets(spec)
    for pk in packets:
        nal = count_alts(spec, pk)
        shapes = shapes_for(tier, nal)
        if prop == 'C07':
            shapes = [Shape(2, 1, a) for a in range(max(1, nal))]
        if prop == 'C05':
            shapes = [Shape(1, 1, a) for a in range(max(1, nal))] + ([Shape(2, 2, 0), Shape(0, 0, 0)] if tier == 'thorough' or spec.family == 'dispatch' else [])
        if prop in ('C04', 'C02', 'C03'):
            # payloads whose byte count crosses the signed/unsigned boundary of the length field's type
            # (C02/C03 too: a decoder that uses the length it has read - to skip, to bound - meets the same boundary)
            lfs = [f for f in pk.fields if f.kind == 'lengthof']
            if lfs:
                w = spec.resolve(lfs[0])[1]
                big = {'u8': [114, 241], 'i8': [100]}.get(w, [100] if prop == 'C04' else [])   # 100: past the first 64-byte allocation of a Go bytes.Buffer
                if tier == 'thorough' and w in ('u16',) and spec.name.startswith('len_u16_'):
                    big = big + [32800]
                shapes = shapes + [Shape(n, 1, a) for n in big for a in range(max(1, nal))]
        if prop in ('C01', 'C02', 'C03'):
            shapes = shapes + long_shapes(spec, pk, tier)
        from .pspec import has_nested_lists
        if prop in ('C01', 'C02', 'C03') and has_nested_lists(spec, pk):
            shapes = shapes + [Shape(1, 2, a, sl) for sl in Shape.RAGGED for a in range(max(1, nal))] + ([Shape(2, 3, 0, sl) for sl in Shape.RAGGED] if tier == 'thorough' else [])
        for sh in shapes:
            core.LOOP_BOUND[0] = 300 if (isinstance(sh.k, int) and sh.k > 64) else 64
            if prop == 'C03':
                out['cells'] += 1
                try:
                    fs = run_c03(fes, spec, pk, sh, stats, ntrail)
                    out['findings'].extend(f.as_dict() | {'sig': sig(f)} for f in fs)
                except Unsupported as u:
                    out['inconclusive'].append(('*', '%s/%s: %s' % (pk.name, sh.ident(), str(u)[:160])))
                except Exception as ex:
                    out['inconclusive'].append(('*', 'front-end internal error (cell dropped from the claim): %s: %s' % (type(ex).__name__, str(ex)[:120])))
                continue
            for lang, fe in fes.items():
                out['cells'] += 1
                res = []
                try:
                    if prop == 'C01':
                        cells_c01(prop, fe, spec, pk, sh, stats, res)
                    elif prop == 'C02':
                        cells_c02(prop, fe, spec, pk, sh, stats, res, ntrail)
                        if sh.s == 1 and not sh.salt:
                            res.extend(run_reuse(prop, fe, spec, pk, sh, stats))
                    elif prop == 'C04':
                        cells_c04(prop, fe, spec, pk, sh, stats, res, ntrail)
                        if sh.s == 1 and not sh.salt:
                            res.extend(run_c04_absent(fe, spec, pk, sh, stats))
                    elif prop == 'C05':
                        res.extend(run_c05(fe, spec, pk, sh, stats))
                        if sh.s == 1:
                            res.extend(run_reuse(prop, fe, spec, pk, sh, stats))
                    elif prop == 'C06':
                        cells_c06(prop, fe, spec, pk, sh, stats, res, ntrail)
                    elif prop == 'C07':
                        res.extend(run_c07_influence(fe, spec, pk, sh, stats))
                        if spec.family == 'dispatch' and not sh.alt:
                            # completeness of the dispatch: every key the DSL declares has its decode step (a key silently
                            # dropped from the emitted table is a declared construct without code); same queries as C05
                            for f in run_c05(fe, spec, pk, sh, stats):
                                if 'dispatch' in f.symptom or 'decode' in f.symptom:
                                    f.prop = 'C07'
                                    f.symptom = 'declared-key:' + f.symptom
                                    res.append(f)
                except Unsupported as u:
                    out['inconclusive'].append((lang, '%s/%s: %s' % (pk.name, sh.ident(), str(u)[:160])))
                except MissingMember as m:
                    out['missing'].append((lang, pk.name, str(m)[:200]))
                except RuntimeError as r:
                    out['inconclusive'].append((lang, 'tool: %s' % str(r)[:160]))
                except Exception as ex:
                    out['inconclusive'].append((lang, 'front-end internal error (cell dropped from the claim): %s: %s' % (type(ex).__name__, str(ex)[:120])))
                out['findings'].extend(f.as_dict() | {'sig': sig(f)} for f in res)
    if prop == 'C01' and (tier == 'thorough' or sum(map(ord, pname)) % 5 == 0):
        try:
            out['fe_validation'] = validate_frontends(spec, e, fes)
        except Exception as ex:
            out['fe_validation'] = [{'lang': '*', 'error': 'validation driver failed: %s' % str(ex)[:150]}]
    if len(out['samples']) < 1:
        out['samples'].append({'program': pname, 'dsl': e['dsl'][:600], 'packets': [p.name for p in packets]})
    out['obligations'] = stats.obligations
    out['stats'] = core.STATS.as_dict()
    out['xsamples'] = list(core.XSAMPLES)
    out['wall'] = time.time() - t0
    if os.environ.get('VERIF_TIMING'):
        sys.stderr.write('SLOW %s %s %.0fs cells=%d\n' % (prop, pname, out['wall'], out['cells']))
        sys.stderr.flush()
    return out


# ---------------------------------------------------------------------------- translator validation against native execution

def random_model(asm, msg, seed):
    """a model of the assumptions in which as many message leaves as possible carry pseudo-random values"""
    import random
    rnd = random.Random(seed)
    leaves = []

    def walk(v):
        if isinstance(v, Msg):
            for x in v.v.values():
                walk(x)
        elif isinstance(v, list):
            for x in v:
                walk(x)
        elif z3.is_bv(v) and not z3.is_bv_value(v):
            leaves.append(v)
    walk(msg)
    s = z3.Solver()
    for a in asm:
        s.add(a)
    for v in leaves:
        w = v.size()
        r = rnd.choice(b'ABCDEFGHJKLMNPQRSTUVWXYZ23456789') if w == 8 else rnd.getrandbits(w)
        if w in (32, 64) and rnd.random() < 0.3:
            r = rnd.choice([0, 1, (1 << w) - 1, 1 << (w - 1), (1 << (w - 1)) - 1])
        s.push()
        s.add(v == r)
        if s.check() != z3.sat:
            s.pop()
    return s.model() if s.check() == z3.sat else None


def validate_frontends(spec, emit, fes):
    """the translator is validated against the real thing: for the root packet and one pseudo-random concrete message the bytes
    the front-end computes by interpreting the lowered emitted code must equal the bytes the emitted code produces when it is
    compiled and run natively with the reference runtime (Python, Go, Java)"""
    res = []
    pk = spec.root()
    if pk is None:
        return res
    sh = Shape(2, 2, sum(map(ord, spec.name)) % max(1, count_alts(spec, pk)))
    asm = []
    msg = build_msg(spec, pk, sh, pk.name, asm)
    mdl = random_model(asm, msg, spec.name)
    if mdl is None:
        return res
    cex = concretise(msg, mdl)
    cmsg = cex_to_msg(spec, pk, cex)
    data = eval_bytes(ref_enc(RefCtx(spec, cks_registered=False), pk, cmsg), _empty_model())
    nmsg = msg_to_native(spec, pk, cex)
    for lang in ('python', 'go', 'java', 'rust', 'cpp'):
        fe = fes.get(lang)
        if fe is None:
            continue
        for op in (('encode', 'roundtrip') if lang in ('python', 'go', 'java') else ('roundtrip',)):
            try:
                if op == 'encode':
                    r = list(PathCtl([]).explore(lambda c: fe.encode(c, pk, cmsg, False)[0]))
                else:
                    def rt(c):
                        o, ridx = fe.decode(c, pk, [z3.BitVecVal(b, 8) for b in data], False)
                        return fe.reencode(c, o, False), ridx
                    r = list(PathCtl([]).explore(rt))
                if len(r) != 1 or isinstance(r[0][0], Outcome):
                    fe_res = {'error': str(r[0][0]) if r else 'no path'}
                elif op == 'encode':
                    fe_res = {'hex': eval_bytes(r[0][0], _empty_model()).hex()}
                else:
                    fe_res = {'hex': eval_bytes(r[0][0][0], _empty_model()).hex(), 'rest': len(data) - r[0][0][1]}
            except (Unsupported, MissingMember):
                continue
            req = {'op': op, 'class': pk.name}
            if op == 'encode':
                req['msg'] = nmsg
            else:
                req['data'] = data.hex()
            nat = NATIVE_RUN[lang](spec, emit, req)
            if not nat or 'skipped' in nat or 'driver_error' in nat or 'build_error' in nat:
                res.append({'lang': lang, 'op': op, 'skipped': str((nat or {}).get('skipped') or (nat or {}).get('driver_error') or (nat or {}).get('build_error'))[:160]})
                continue
            if 'error' in nat or 'error' in fe_res:
                agree = ('error' in nat) == ('error' in fe_res)
            else:
                agree = nat.get('hex') == fe_res.get('hex') and (op == 'encode' or nat.get('rest') == fe_res.get('rest'))
            res.append({'lang': lang, 'op': op, 'agree': agree, 'front_end': str(fe_res)[:140], 'native': str({k: nat[k] for k in ('hex', 'rest', 'error') if k in nat})[:140]})
    return res


# ---------------------------------------------------------------------------- native replay (Python target)

def cex_to_msg(spec, packet, cex):
    """concrete pspec.Msg from a concretised counterexample"""
    m = Msg(packet)
    for f in packet.fields:
        sem = spec.resolve(f)
        v = cex.get(f.name)
        if f.repeat and isinstance(v, dict) and 'bytes' in v:
            v = list(bytes.fromhex(v['bytes']))          # a list of 8-bit scalars is concretised like a byte string
        if f.repeat:
            m.v[f.name] = [cex_elem(spec, sem, x) for x in (v or [])]
        elif sem[0] == 'match':
            pk = spec.packet(v['__packet'])
            m.v[f.name] = cex_to_msg(spec, pk, v)
        else:
            m.v[f.name] = cex_elem(spec, sem, v)
    return m


def cex_elem(spec, sem, v):
    if sem[0] in ('basic', 'lengthof', 'checksum'):
        return z3.BitVecVal(int(v), 8 * WIDTH[sem[1]])
    if sem[0] in ('fixed', 'dyn'):
        return [z3.BitVecVal(b, 8) for b in bytes.fromhex(v['bytes'] if isinstance(v, dict) else '')]
    if sem[0] == 'obj':
        return cex_to_msg(spec, sem[1], v)
    raise ValueError(sem)


def msg_to_native(spec, packet, cex):
    out = {'__packet': packet.name}
    for f in packet.fields:
        sem = spec.resolve(f)
        v = cex.get(f.name)
        if f.repeat and isinstance(v, dict) and 'bytes' in v:
            v = list(bytes.fromhex(v['bytes']))

        def one(x):
            if sem[0] in ('basic', 'lengthof', 'checksum'):
                t = sem[1]
                if t in ('f32', 'f64'):
                    return {'float': int(x), 'w': 8 * WIDTH[t]}
                x = int(x)
                if t.startswith('i') and x >> (8 * WIDTH[t] - 1):
                    x -= 1 << (8 * WIDTH[t])
                return x
            if sem[0] in ('fixed', 'dyn'):
                return {'bytes': x['bytes'] if isinstance(x, dict) else ''}
            if sem[0] == 'obj':
                return msg_to_native(spec, sem[1], x)
            if sem[0] == 'match':
                return msg_to_native(spec, spec.packet(x['__packet']), x)
        out[f.name] = [one(x) for x in (v or [])] if f.repeat else one(v)
    return out


def _run_python(spec, emit, req):
    import subprocess, tempfile
    files = emit['files'].get('py', {})
    srcs = [p for rel, p in files.items() if rel.endswith('.py') and not rel.endswith('_test.py')]
    if not srcs:
        return None
    if 'msg' in req:
        req = dict(req, msg=_named(req['msg']))
    with tempfile.NamedTemporaryFile('w', suffix='.json', delete=False) as tf:
        json.dump(req, tf)
    try:
        r = subprocess.run(['python3', os.path.join(VERIF, 'runtimes', 'python', 'replay_driver.py'), srcs[0], tf.name], capture_output=True, text=True, timeout=30)
        out = json.loads(r.stdout.strip().split('\n')[-1]) if r.stdout.strip() else {'driver_error': r.stderr[-200:]}
    except Exception as e:
        out = {'driver_error': str(e)}
    finally:
        os.unlink(tf.name)
    if 'exception' in out:
        out['error'] = out.pop('exception')
    return out


def _named(v):
    return v


def _positional(v):
    """msg_to_native value with object fields by position ({"__packet":N,"fields":[...]}) for drivers without field names"""
    if isinstance(v, dict) and '__packet' in v:
        return {'__packet': v['__packet'], 'fields': [_positional(x) for k, x in v.items() if k != '__packet']}
    if isinstance(v, list):
        return [_positional(x) for x in v]
    return v


def _run_go(spec, emit, req):
    import subprocess, shutil
    files = emit['files'].get('go', {})
    srcs = [p for rel, p in files.items() if rel.endswith('.go') and not rel.endswith('_test.go')]
    if not srcs:
        return None
    if 'msg' in req:
        req = dict(req, msg=_positional(req['msg']))
    d = os.path.join(build.cache_dir(), 'native_go', '%s_%d' % (spec.name, os.getpid()))
    shutil.rmtree(d, ignore_errors=True)
    os.makedirs(os.path.join(d, 'p'))
    try:
        open(os.path.join(d, 'go.mod'), 'w').write(
            'module fpverif\n\ngo 1.23\n\nrequire github.com/xinchentechnote/fin-proto-go v0.0.0\n\n'
            'replace github.com/xinchentechnote/fin-proto-go => %s\n' % os.path.join(VERIF, 'runtimes', 'go'))
        pkgname, types = None, []
        for sp in srcs:
            text = open(sp).read()
            shutil.copy(sp, os.path.join(d, 'p', os.path.basename(sp)))
            m = re.search(r'^package\s+(\w+)', text, re.M)
            pkgname = pkgname or (m.group(1) if m else None)
            types += re.findall(r'^type\s+(\w+)\s+struct\b', text, re.M)
        tmpl = open(os.path.join(VERIF, 'runtimes', 'go', 'replay', 'zz_replay_test.go.tmpl')).read()
        reg = '\n'.join('\t"%s": func() interface{} { return &%s{} },' % (t, t) for t in sorted(set(types)))
        open(os.path.join(d, 'p', 'zz_replay_test.go'), 'w').write(tmpl.replace('__PKG__', pkgname or 'msg').replace('__REGISTRY__', reg))
        json.dump(req, open(os.path.join(d, 'req.json'), 'w'))
        env = dict(build.GOENV, ZZ_REQ=os.path.join(d, 'req.json'), ZZ_OUT=os.path.join(d, 'out.json'))
        r = subprocess.run(['go', 'test', '-vet=off', '-count=1', '-run', 'TestZZReplay', './p/'], cwd=d, env=env, capture_output=True, text=True, timeout=300)
        if os.path.exists(os.path.join(d, 'out.json')):
            out = json.load(open(os.path.join(d, 'out.json')))
        else:
            out = {'build_error': (r.stdout + r.stderr)[-300:]}
    except Exception as e:
        out = {'driver_error': str(e)[:200]}
    finally:
        shutil.rmtree(d, ignore_errors=True)
    if 'panic' in out:
        out['error'] = 'panic: ' + str(out.pop('panic'))
    return out


def _valid_utf8(v):
    if isinstance(v, dict):
        if 'bytes' in v and len(v) == 1:
            try:
                bytes.fromhex(v['bytes']).decode('utf-8')
                return True
            except Exception:
                return False
        return all(_valid_utf8(x) for x in v.values())
    if isinstance(v, list):
        return all(_valid_utf8(x) for x in v)
    return True


def _run_java(spec, emit, req):
    import subprocess, shutil
    files = emit['files'].get('java', {})
    srcs = [p for rel, p in files.items() if rel.endswith('.java') and not rel.startswith('test/') and '/test/' not in '/' + rel]
    if not srcs:
        return None
    if 'msg' in req:
        if not _valid_utf8(req['msg']):
            return {'skipped': 'the message holds a byte string that is not UTF-8: a Java String cannot carry it'}
        req = dict(req, msg=_positional(req['msg']))
    cd = build.cache_dir()
    from .fe_java import java_rt_dir
    rt = java_rt_dir()
    d = os.path.join(cd, 'native_java', '%s_%d' % (spec.name, os.getpid()))
    shutil.rmtree(d, ignore_errors=True)
    os.makedirs(os.path.join(d, 'classes'))
    try:
        classes = []
        for sp in srcs:
            text = open(sp).read()
            m = re.search(r'^package\s+([\w.]+)\s*;', text, re.M)
            pkg = (m.group(1) + '.') if m else ''
            classes += [pkg + c for c in re.findall(r'^public\s+(?:final\s+)?class\s+(\w+)', text, re.M)]
        shutil.copy(os.path.join(VERIF, 'runtimes', 'java', 'replay', 'ZZReplay.java.txt'), os.path.join(d, 'ZZReplay.java'))
        r = subprocess.run(['javac', '-nowarn', '-proc:none', '-cp', rt, '-d', os.path.join(d, 'classes')] + srcs + [os.path.join(d, 'ZZReplay.java')],
                           capture_output=True, text=True, timeout=300)
        if r.returncode != 0:
            out = {'build_error': r.stderr[-300:]}
        else:
            json.dump(dict(req, classes=classes), open(os.path.join(d, 'req.json'), 'w'))
            r = subprocess.run(['java', '-cp', os.path.join(d, 'classes') + os.pathsep + rt, 'ZZReplay', os.path.join(d, 'req.json'), os.path.join(d, 'out.json')],
                               capture_output=True, text=True, timeout=120)
            out = json.load(open(os.path.join(d, 'out.json'))) if os.path.exists(os.path.join(d, 'out.json')) else {'driver_error': (r.stdout + r.stderr)[-300:]}
    except Exception as e:
        out = {'driver_error': str(e)[:200]}
    finally:
        shutil.rmtree(d, ignore_errors=True)
    return out


RUST_MAIN = '''use bytes::{Bytes, BytesMut};
use binary_codec::BinaryCodec;
use fp::%(mod)s::%(name)s;
fn main() {
    let a: Vec<String> = std::env::args().collect();
    let h = a[1].as_bytes();
    let mut data = Vec::new();
    let mut i = 0;
    while i + 1 < h.len() { data.push(u8::from_str_radix(std::str::from_utf8(&h[i..i + 2]).unwrap(), 16).unwrap()); i += 2; }
    let mut b = Bytes::from(data);
    match %(name)s::decode(&mut b) {
        None => println!("{{\\"error\\":\\"decode returned None\\"}}"),
        Some(o) => {
            let rest = b.len();
            let mut w = BytesMut::new();
            o.encode(&mut w);
            let hx: String = w.iter().map(|x| format!("{:02x}", x)).collect();
            println!("{{\\"rest\\":{},\\"hex\\":\\"{}\\"}}", rest, hx);
        }
    }
}
'''


def _run_rust(spec, emit, req):
    """roundtrip only (no reflection in Rust): decode the given bytes with the REAL emitted decoder, re-encode, report"""
    import subprocess, shutil
    from .fe_rust import rust_rt
    if req.get('op') != 'roundtrip':
        return None
    files = emit['files'].get('rs', {})
    lib = files.get('lib.rs')
    if not lib:
        return None
    mod = None
    for rel, path in files.items():
        if rel.endswith('.rs') and re.search(r'pub struct %s\b' % re.escape(req['class']), open(path, errors='replace').read()):
            mod = os.path.basename(rel)[:-3]
    if mod is None or mod == 'lib':
        return {'skipped': 'no module declares struct %s' % req['class']}
    rt = rust_rt()
    d = os.path.join(build.cache_dir(), 'native_rust', '%s_%d' % (spec.name, os.getpid()))
    shutil.rmtree(d, ignore_errors=True)
    os.makedirs(d)
    ext = ['-L', rt, '--extern', 'bytes=' + os.path.join(rt, 'libbytes.rlib'), '--extern', 'byteorder=' + os.path.join(rt, 'libbyteorder.rlib'),
           '--extern', 'binary_codec=' + os.path.join(rt, 'libbinary_codec.rlib')]
    try:
        r = subprocess.run(['rustc', '--edition', '2021', '--crate-type', 'rlib', '--crate-name', 'fp', '-A', 'warnings', '-o', os.path.join(d, 'libfp.rlib'), lib] + ext,
                           capture_output=True, text=True, timeout=300)
        if r.returncode != 0:
            return {'build_error': r.stderr[-300:]}
        open(os.path.join(d, 'main.rs'), 'w').write(RUST_MAIN % {'mod': mod, 'name': req['class']})
        r = subprocess.run(['rustc', '--edition', '2021', '-A', 'warnings', '-o', os.path.join(d, 'main'), os.path.join(d, 'main.rs'), '--extern', 'fp=' + os.path.join(d, 'libfp.rlib')] + ext,
                           capture_output=True, text=True, timeout=300)
        if r.returncode != 0:
            return {'build_error': r.stderr[-300:]}
        r = subprocess.run([os.path.join(d, 'main'), req['data']], capture_output=True, text=True, timeout=60)
        if r.returncode != 0:
            return {'error': 'panic: ' + (re.findall(r'panicked at[^\n]*\n?[^\n]*', r.stderr) or [r.stderr[-200:]])[0][:200]}
        return json.loads(r.stdout.strip().split('\n')[-1])
    except Exception as e:
        return {'driver_error': str(e)[:200]}
    finally:
        shutil.rmtree(d, ignore_errors=True)


CPP_MAIN = '''#include <cstdio>
#include <cstdlib>
#include <exception>
#include <string>
#include <vector>
#include <cstdint>
#include "%(hdr)s"
int main(int argc, char** argv) {
    std::string h = argc > 1 ? argv[1] : "";
    std::vector<uint8_t> data;
    for (size_t i = 0; i + 1 < h.size(); i += 2) data.push_back((uint8_t) std::strtoul(h.substr(i, 2).c_str(), nullptr, 16));
    try {
        ByteBuf buf(data);
        %(name)s o;
        o.decode(buf);
        size_t rest = buf.readable_bytes();
        ByteBuf w;
        o.encode(w);
        std::string hx;
        char t[4];
        for (uint8_t b : w.data()) { std::snprintf(t, sizeof t, "%%02x", b); hx += t; }
        std::printf("{\\"rest\\":%%zu,\\"hex\\":\\"%%s\\"}\\n", rest, hx.c_str());
    } catch (const std::exception& e) {
        std::string m = e.what();
        for (auto& c : m) if (c == \'"\' || c == \'\\\\\') c = \' \';
        std::printf("{\\"error\\":\\"%%s\\"}\\n", m.c_str());
    }
    return 0;
}
'''


def _run_cpp(spec, emit, req):
    """roundtrip only: decode the given bytes with the REAL emitted decoder compiled by clang++ against runtimes/cpp, re-encode"""
    import subprocess, shutil
    if req.get('op') != 'roundtrip':
        return None
    files = emit['files'].get('cpp', {})
    hdrs = [path for rel, path in files.items() if rel.endswith('.hpp')]
    if not hdrs:
        return None
    src = open(hdrs[0], errors='replace').read()
    m = [n for n in re.findall(r'^struct\s+(\w+)\s*:', src, re.M) if re.sub(r'[^a-z0-9]', '', n.lower()) == re.sub(r'[^a-z0-9]', '', req['class'].lower())]
    if not m:
        return {'skipped': 'no struct for packet %s' % req['class']}
    rt = os.path.join(VERIF, 'runtimes', 'cpp')
    d = os.path.join(build.cache_dir(), 'native_cpp', '%s_%d' % (spec.name, os.getpid()))
    shutil.rmtree(d, ignore_errors=True)
    os.makedirs(d)
    try:
        open(os.path.join(d, 'main.cpp'), 'w').write(CPP_MAIN % {'hdr': hdrs[0], 'name': m[0]})
        r = subprocess.run(['clang++', '-std=c++17', '-O0', '-Wno-everything', '-I', rt, '-o', os.path.join(d, 'main'), os.path.join(d, 'main.cpp')],
                           capture_output=True, text=True, timeout=300)
        if r.returncode != 0:
            return {'build_error': (re.findall(r'error: .*', r.stderr) or [r.stderr[-300:]])[0][:300]}
        r = subprocess.run([os.path.join(d, 'main'), req['data']], capture_output=True, text=True, timeout=60)
        if r.returncode != 0 or not r.stdout.strip():
            return {'error': 'abnormal termination (exit %s): %s' % (r.returncode, r.stderr[-150:])}
        return json.loads(r.stdout.strip().split('\n')[-1])
    except Exception as e:
        return {'driver_error': str(e)[:200]}
    finally:
        shutil.rmtree(d, ignore_errors=True)


NATIVE_RUN = {'python': _run_python, 'go': _run_go, 'java': _run_java, 'rust': _run_rust, 'cpp': _run_cpp}


def native_replay(lang, spec, emit, rec):
    """run the REAL emitted encoder, compiled natively against the reference runtime, on the counterexample message.
    returns dict with confirmed = True (native bytes differ from the reference / native failure), False (native bytes ARE the
    reference: the finding was produced by our model, it is not reported) or None (the replay could not run)"""
    cex = rec.get('cex')
    if not isinstance(cex, dict) or 'key' in cex or lang not in NATIVE_RUN:
        return None
    pk = [q for q in all_packets(spec) if q.name == rec['packet']]
    if not pk:
        return None
    pk = pk[0]
    try:
        msg = cex_to_msg(spec, pk, cex)
        want = eval_bytes(ref_enc(RefCtx(spec, cks_registered=False), pk, msg), _empty_model())
        req = {'op': 'encode', 'class': pk.name, 'msg': msg_to_native(spec, pk, cex)}
    except Exception as e:
        return {'skipped': 'cannot rebuild the message: %s' % e, 'confirmed': None}
    if lang in ('rust', 'cpp'):
        # no reflection to build the message there; rebuilding it with the real decoder from the reference bytes was tried and is
        # unsound as a confirmation (a padding defect shared by encoder and decoder round-trips cleanly), so these two languages
        # keep the front-end's concrete re-evaluation as their confirmation
        return None
    out = NATIVE_RUN[lang](spec, emit, req)
    if out is None:
        return None
    out['reference_hex'] = want.hex()
    out['how'] = 'native decode of the reference bytes followed by native encode' if req['op'] == 'roundtrip' else 'native encode of the counterexample message'
    if 'driver_error' in out or 'build_error' in out or 'skipped' in out:
        out['confirmed'] = None
    else:
        out['confirmed'] = ('error' in out) or (out.get('hex') != want.hex())
    return out


def faithfulness(lang, spec, emit, low, rec):
    """Is the front-end faithful to the real emitted code on the counterexample's input?  The reference bytes of the
    counterexample message are decoded and re-encoded (a) by the front-end interpreting the lowered code and (b) by the emitted
    code compiled natively against the reference runtime; both must give the same bytes / rest / failure.  Works for all five
    languages and does not involve the reference semantics, so it can only rule out a modelling error of ours: agree=False
    means the finding was produced by our model and is not reported."""
    cex = rec.get('cex')
    if not isinstance(cex, dict) or 'key' in cex or lang not in NATIVE_RUN:
        return None
    pk = [q for q in all_packets(spec) if q.name == rec['packet']]
    if not pk:
        return None
    pk = pk[0]
    try:
        cmsg = cex_to_msg(spec, pk, cex)
        data = eval_bytes(ref_enc(RefCtx(spec, cks_registered=False), pk, cmsg), _empty_model())
        fe = make_fe(lang, spec, emit, low)
        if fe.rejects:
            return None

        def rt(c):
            o, ridx = fe.decode(c, pk, [z3.BitVecVal(b, 8) for b in data], False)
            return fe.reencode(c, o, False), ridx
        r = list(PathCtl([]).explore(rt))
        if len(r) != 1 or isinstance(r[0][0], Outcome):
            fe_res = {'error': str(r[0][0]) if r else 'no path'}
        else:
            fe_res = {'hex': eval_bytes(r[0][0][0], _empty_model()).hex(), 'rest': len(data) - r[0][0][1]}
    except (Unsupported, MissingMember, Exception) as e:
        return {'skipped': 'front-end: %s' % str(e)[:120]}
    nat = NATIVE_RUN[lang](spec, emit, {'op': 'roundtrip', 'class': pk.name, 'data': data.hex()})
    if not nat or 'skipped' in nat or 'driver_error' in nat or 'build_error' in nat:
        return {'skipped': str((nat or {}).get('skipped') or (nat or {}).get('driver_error') or (nat or {}).get('build_error'))[:160]}
    if 'error' in nat or 'error' in fe_res:
        agree = ('error' in nat) == ('error' in fe_res)
    else:
        agree = nat.get('hex') == fe_res.get('hex') and nat.get('rest') == fe_res.get('rest')
    return {'agree': agree, 'input_hex': data.hex()[:200], 'front_end': str(fe_res)[:200], 'native': str({k: nat[k] for k in ('hex', 'rest', 'error') if k in nat})[:200]}


def _empty_model():
    s = z3.Solver()
    s.check()
    return s.model()




# ---------------------------------------------------------------------------- main

def load_known():
    p = os.path.join(VERIF, 'known_findings.json')
    if not os.path.exists(p):
        return {}
    d = json.load(open(p))
    return {k['signature']: k for k in d.get('findings', []) if k.get('status', 'known') == 'known'}


def main(prop, tier, update_known=False):
    t0 = time.time()
    seed = int(os.environ.get('VERIF_SEED', '0') or 0)
    progs = family(tier)
    fams = FAMS[prop]
    emits = build.emit_family(progs, tier)
    low = lower_all(progs, emits, tier) if prop != 'C15' else {}
    _LOW['emits'] = emits
    _LOW['low'] = low
    sel = [p for p in progs if fams is None or p.family in fams]
    only = os.environ.get('VERIF_ONLY')          # debugging aid (never set by a registered command): restrict to programs by prefix
    if only:
        sel = [p for p in sel if any(p.name.startswith(o) for o in only.split(','))]
    jobs = [(prop, tier, p.name) for p in sel]
    t_low = time.time() - t0
    with multiprocessing.get_context('fork').Pool(min(16, os.cpu_count() or 4)) as pool:
        results = pool.map(worker, jobs, chunksize=1)
    known = load_known()
    byprog_all = {p.name: p for p in progs}
    total = core.Stats()
    bysig = collections.OrderedDict()
    shared_runs = 0
    if prop == 'C07':
        # "whenever compiling succeeds, every declared packet has its type" also when the targets share one output directory
        # (file names of different targets do not collide): the real binary is run once more per program with all six flags
        # pointing at one directory; the file set must be the union of the per-language sets
        import shutil
        from concurrent.futures import ThreadPoolExecutor
        binary = build.build_binary()

        def shared(p):
            e = emits[p.name]
            if e['rc'] != 0:
                return None
            d = os.path.join(build.cache_dir(), 'shared_%s' % tier, p.name)
            shutil.rmtree(d, ignore_errors=True)
            os.makedirs(d)
            try:
                args = [binary, '-f', os.path.join(e['dir'], 'a.dsl')]
                for lang, flag in build.LANG_FLAGS:
                    args += [flag, d]
                r = subprocess.run(args, capture_output=True, text=True, timeout=60, errors='replace')
                got = set()
                for root, _, names in os.walk(d):
                    for n in names:
                        got.add(os.path.relpath(os.path.join(root, n), d))
                want = {}
                for lang, fs in e['files'].items():
                    for rel in fs:
                        want.setdefault(rel, []).append(lang)
                clash = sorted(rel for rel, ls in want.items() if len(ls) > 1)
                return (p.name, r.returncode, sorted(set(want) - got), sorted(got - set(want)), clash, {rel: ls[0] for rel, ls in want.items()})
            finally:
                shutil.rmtree(d, ignore_errors=True)
        with ThreadPoolExecutor(16) as ex:
            for res in ex.map(shared, sel):
                if res is None:
                    continue
                shared_runs += 1
                pn, rc, miss, extra, clash, owner = res
                if clash:
                    continue            # two targets emit a file of the same name for this program: no claim about a shared directory
                if rc != 0 or miss or extra:
                    langs = sorted(set(owner[m] for m in miss))
                    s = 'C07|protoc|%s|-|shared-dir|%s' % (pn, 'exit-%d' % rc if rc else ('missing:' + '+'.join(langs) if miss else 'extra-files'))
                    bysig.setdefault(s, []).append({'property': 'C07', 'lang': 'protoc', 'program': pn, 'packet': '-', 'shape': None, 'signature': s, 'sig': s, 'cex': None,
                                                    'detail': 'all six targets into one directory: exit %d, missing %s, unexpected %s' % (rc, miss[:4], extra[:4])})
    incon = []
    rejects = collections.OrderedDict()
    missing = []
    cells = 0
    obligations = 0
    funcs = collections.Counter()
    samples = []
    protoc_rejects = []
    fev = collections.Counter()
    fev_bad = []
    fev_err = []
    for r in results:
        for v in r.get('fe_validation') or []:
            k = 'skipped' if 'skipped' in v or 'error' in v else ('agree' if v.get('agree') else 'disagree')
            fev[(v['lang'] + '/' + v.get('op', '-'), k)] += 1
            if k == 'disagree':
                fev_bad.append([r['prog'], v['lang'], v.get('front_end'), v.get('native')])
            if 'error' in v and len(fev_err) < 5:
                fev_err.append([r['prog'], v['error']])
    xs = []
    for r in results:
        xs.extend(r.get('xsamples') or [])
    xres = core.cross_solve(xs[:1500])
    xbad = sum((v.get('disagree') or 0) for v in xres.values() if isinstance(v, dict))
    for r in results:
        st = r['stats']
        for k, v in st.items():
            setattr(total, k, getattr(total, k) + v)
        cells += r['cells']
        obligations += r['obligations']
        for lang, n in r['functions'].items():
            funcs[lang] += n
        incon.extend((r['prog'],) + tuple(x) for x in r['inconclusive'])
        missing.extend((r['prog'],) + tuple(x) for x in r['missing'])
        if r.get('protoc_reject'):
            protoc_rejects.append((r['prog'], r['protoc_reject']))
        for lang, errs in r['rejects'].items():
            for e in errs:
                rejects.setdefault((lang, e), []).append(r['prog'])
        for lang, errs in r['soft'].items():
            for e in errs:
                rejects.setdefault((lang, 'soft:' + e), []).append(r['prog'])
        for f in r['findings']:
            bysig.setdefault(f['sig'], []).append(f)
        samples.extend(r['samples'][:1])
    # C07: front-end rejects, missing members and rejected well-formed programs are findings of C07 only
    if prop == 'C15':
        for (lang, e), ps in rejects.items():
            for pn in ps:
                s = 'C15|lua|%s|-|frontend|%s' % (pn, pipea.norm_detail(e, 100))
                bysig.setdefault(s, []).append({'property': 'C15', 'lang': lang, 'program': pn, 'packet': '-', 'shape': None, 'signature': s,
                                                'detail': 'the emitted Lua script does not parse: ' + e, 'cex': None, 'sig': s})
    if prop == 'C07':
        for (lang, e), ps in rejects.items():
            for pn in ps:
                s = 'C07|%s|%s|-|frontend|%s' % (lang, pn, pipea.norm_detail(e, 100))
                bysig.setdefault(s, []).append({'property': 'C07', 'lang': lang, 'program': pn, 'packet': '-', 'shape': None, 'signature': s,
                                                'detail': 'target compiler rejects the emitted code: ' + e, 'cex': None, 'sig': s})
        for pn, lang, pkn, m in missing:
            s = 'C07|%s|%s|%s|members|missing-member' % (lang, pn, pkn)
            bysig.setdefault(s, []).append({'property': 'C07', 'lang': lang, 'program': pn, 'packet': pkn, 'shape': None, 'signature': s,
                                            'detail': m, 'cex': None, 'sig': s})
    if prop != 'C15':
        # every program of the family is well-formed and uses documented constructs only (the exceptions are marked may_reject):
        # when the compiler answers with a diagnostic there is no codec for which the property could hold
        for pn, msg in protoc_rejects:
            if getattr(byprog_all.get(pn), 'may_reject', False):
                continue
            first = ([l for l in msg.split('\n') if 'line' in l.lower() or 'error' in l.lower()] or [msg.strip().split('\n')[0]])[0]
            s = '%s|protoc|%s|-|compile|rejected:%s' % (prop, pn, pipea.norm_detail(first, 80))
            bysig.setdefault(s, []).append({'property': prop, 'lang': 'protoc', 'program': pn, 'packet': '-', 'shape': None, 'signature': s,
                                            'detail': 'fin-protoc rejects a well-formed program of the family: ' + first[:160], 'cex': None, 'sig': s})
    if prop != 'C15':
        # the codec on disk must be the codec of the DSL also when the output directories already held files (build.recompile_probe);
        # one finding per target, whatever the number of programs
        stale = collections.OrderedDict()
        for pr in sel:
            if len(set(re.sub(r'[^a-z0-9]', '', q.name.lower()) for q in all_packets(pr))) != len(all_packets(pr)):
                continue
            for lang, files in sorted((emits[pr.name].get('stale') or {}).items()):
                stale.setdefault(lang, []).append((pr.name, files))
        for lang, lst in stale.items():
            s = '%s|protoc|*|-|recompile|stale:%s' % (prop, lang)
            bysig.setdefault(s, []).append({'property': prop, 'lang': 'protoc', 'program': lst[0][0], 'packet': '-', 'shape': None, 'signature': s, 'sig': s, 'cex': None,
                                            'detail': 'compiling into directories that hold older files of the same names and sizes does not leave the generated code there (%d programs, e.g. %s: %s)' % (
                                                len(lst), lst[0][0], lst[0][1][:3])})
    if prop in ('C01', 'C02', 'C03', 'C04', 'C05', 'C06'):
        # (first only the families built around one construct did this; a change that breaks the emitted code of one language makes
        # its cells vanish from every property, so every wire property reports it)
        # the programs of these families are built around the property's construct: when a target compiler rejects the code emitted
        # for one of them, or the emitted type lacks the member, there is no encoder/decoder for which the property could hold
        for (lang, e), ps in rejects.items():
            for pn in ps:
                s = '%s|%s|%s|-|frontend|%s' % (prop, lang, pn, pipea.norm_detail(e, 100))
                bysig.setdefault(s, []).append({'property': prop, 'lang': lang, 'program': pn, 'packet': '-', 'shape': None, 'signature': s,
                                                'detail': 'no codec to check: the target compiler rejects the emitted code: ' + e, 'cex': None, 'sig': s})
        for pn, lang, pkn, m in missing:
            s = '%s|%s|%s|%s|members|missing-member' % (prop, lang, pn, pkn)
            bysig.setdefault(s, []).append({'property': prop, 'lang': lang, 'program': pn, 'packet': pkn, 'shape': None, 'signature': s,
                                            'detail': 'no codec to check: ' + m, 'cex': None, 'sig': s})
    if prop == 'C07':
        # "a construct a target cannot express is reported as a compile-time diagnostic": when a requested target refuses a program
        # (here: one without a root packet), the command fails, whichever other targets are requested with it
        import shutil, tempfile
        binary = build.build_binary()
        d = tempfile.mkdtemp(prefix='zzc07_', dir=build.cache_dir())
        try:
            dsl = os.path.join(d, 'a.dsl')
            open(dsl, 'w').write('options {\n    GoPackage = "msg";\n    GoModule = "example.com/msg";\n    JavaPackage = "com.x";\n}\n\npacket Ping {\n    u32 Seq,\n    string Note,\n}\n\npacket Pong {\n    Ping p,\n}\n')
            flags = dict((lang, flag) for lang, flag in build.LANG_FLAGS)

            def run(langs):
                out = os.path.join(d, 'o_' + '_'.join(langs))
                args = [binary, '-f', dsl]
                for l in langs:
                    args += [flags[l], os.path.join(out, l)]
                return subprocess.run(args, capture_output=True, text=True, timeout=60).returncode
            alone = {l: run([l]) for l in flags}
            refusing = [l for l in alone if alone[l] != 0]
            accepting = [l for l in alone if alone[l] == 0]
            for r_ in refusing:
                for a_ in accepting:
                    for combo in ([r_, a_], [a_, r_]):
                        if run(combo) == 0:
                            s = 'C07|protoc|rootless|-|exit-status|%s' % '+'.join(combo)
                            bysig.setdefault(s, []).append({'property': 'C07', 'lang': 'protoc', 'program': 'rootless', 'packet': '-', 'shape': None, 'signature': s, 'sig': s, 'cex': None,
                                                            'detail': 'target %s refuses a program without a root packet (exit %d alone), but requested together with %s the command exits 0' % (r_, alone[r_], a_)})
        finally:
            shutil.rmtree(d, ignore_errors=True)
    violations = []
    knowns = []
    for s, fs in bysig.items():
        if s in known:
            knowns.append((s, fs[0]))
        else:
            violations.append((s, fs))
    for s, f in knowns:
        print('KNOWN-FINDING: property=%s %s :: %s' % (prop, s, (f['detail'] or '')[:140]))
    rdir = os.path.join(VERIF, 'replays', prop)
    nviol = 0
    unconfirmed = []
    byprog = {p.name: p for p in progs}
    faith_budget = collections.Counter()
    replay_budget = collections.Counter()
    for s, fs in violations:
        f = fs[0]
        os.makedirs(rdir, exist_ok=True)
        h = hashlib.sha1(s.encode()).hexdigest()[:12]
        path = os.path.join(rdir, h + '.json')
        rec = dict(f)
        rec['dsl'] = emits[f['program']]['dsl'] if f['program'] in emits else None
        rec['cells_affected'] = len(fs)
        if (f.get('lang') in NATIVE_RUN and prop in ('C01', 'C04', 'C06') and f['program'] in byprog and 'unregistered' not in s and 'registered' not in s
                and 'absent-target' not in s and replay_budget[f['lang']] < 4):
            replay_budget[f['lang']] += 1            # a handful per language: a change that breaks hundreds of cells need not be replayed hundreds of times
            nat = native_replay(f['lang'], byprog[f['program']], emits[f['program']], f)
            if nat is not None:
                rec['native_replay'] = nat
                if nat.get('confirmed') is False:
                    unconfirmed.append(s)
                    rec['unconfirmed'] = True
        if (not rec.get('unconfirmed') and f.get('lang') in NATIVE_RUN and prop in ('C01', 'C02', 'C04', 'C06') and f['program'] in byprog
                and ('registered:' not in s or 'unregistered:' in s) and faith_budget[f['lang']] < 3):
            faith_budget[f['lang']] += 1
            fr = faithfulness(f['lang'], byprog[f['program']], emits[f['program']], low, f)
            if fr is not None:
                rec['frontend_faithfulness'] = fr
                if fr.get('agree') is False:
                    unconfirmed.append(s)
                    rec['unconfirmed'] = True
        rec['confirmation'] = 'counterexample re-evaluated concretely by the front-end' + ('; natively replayed (%s runtime)' % f.get('lang') if rec.get('native_replay') else '') + (
            '; front-end and native execution agree on this input' if (rec.get('frontend_faithfulness') or {}).get('agree') else '')
        if rec.get('unconfirmed'):
            # the real emitted module produces the reference bytes for this message: encoder/stub defect of ours, never an alarm
            print('UNCONFIRMED (not reported): %s' % s)
            continue
        json.dump(rec, open(path, 'w'), indent=1, default=str)
        print('VIOLATION property=%s replay=%s' % (prop, path))
        print('  %s :: %s' % (s, (f['detail'] or '')[:200]))
        nviol += 1
    if update_known:
        write_known(prop, bysig, tier)
    wall = time.time() - t0
    ev = {
        'property_id': prop, 'tier': tier, 'seed': seed, 'level': 'translation_validation',
        'coverage': {
            'programs': len(sel), 'disagreements_checked': len(bysig), 'samples': samples[:3],
            'explanation': 'every (program, language, packet, shape) cell: the emitted code was lowered by the target compiler, executed symbolically over a full-width symbolic message and compared with the reference semantics by z3; verdict per obligation',
            'languages': LANGS, 'cells': cells, 'obligations': total.queries, 'discharged': total.unsat, 'sat': total.sat, 'unknown': total.unknown,
            'path_obligations': obligations, 'feasibility_queries': total.feas_queries, 'paths': total.paths,
            'vacuity_twins': total.twins, 'vacuity_twins_sat': total.twins_ok, 'solver_s': round(total.solver_s, 2),
            'functions_encoded': dict(funcs), 'lowering_s': round(t_low, 1),
            'bounds': bounds(tier), 'inconclusive_cells': len(incon), 'inconclusive_samples': [list(x) for x in incon[:8]],
            'frontend_rejects': len(rejects), 'frontend_reject_samples': [[k[0], k[1], len(v)] for k, v in list(rejects.items())[:12]],
            'missing_member_cells': len(missing), 'protoc_rejected_programs': [p for p, _ in protoc_rejects],
            'known_findings_seen': len(knowns), 'new_findings': nviol, 'unconfirmed_counterexamples': unconfirmed[:10],
            'cross_solver_diff': xres, 'shared_directory_runs_of_the_real_binary': shared_runs,
            'frontend_validation_vs_native': {'what': 'root packet, one pseudo-random concrete message per program: bytes computed by the front-end from the lowered emitted code vs bytes produced by the emitted code compiled and run natively with the reference runtime',
                                              'counts': {'%s:%s' % k: v for k, v in sorted(fev.items())}, 'disagreements': fev_bad[:8], 'driver_errors': fev_err},
        },
        'assumptions': ASSUMPTIONS, 'wall_s': round(wall, 1), 'violations': nviol,
    }
    os.makedirs(os.path.join(VERIF, 'evidence'), exist_ok=True)
    json.dump(ev, open(os.path.join(VERIF, 'evidence', prop + '.json'), 'w'), indent=1, default=str)
    print('%s %s: programs=%d cells=%d queries=%d unsat=%d sat=%d unknown=%d known=%d new=%d inconclusive=%d wall=%.1fs' % (
        prop, tier, len(sel), cells, total.queries, total.unsat, total.sat, total.unknown, len(knowns), nviol, len(incon), wall))
    if fev:
        print('FRONTEND-VALIDATION: %s' % ', '.join('%s:%s=%d' % (k[0], k[1], v) for k, v in sorted(fev.items())))
        for b in fev_bad[:5]:
            print('  front-end disagrees with the native run (cells of this language are not trustworthy for this program): %s' % b)
    if xbad:
        print('TOOL-ERROR: %d sampled obligations are decided differently by another solver: %s' % (xbad, xres))
        return 3
    return 1 if nviol else 0


def bounds(tier):
    if tier == 'quick':
        return {'string_bytes': '0..2 (0..n for char[n])', 'list_len': '0..2', 'nesting': 2, 'trailing_bytes': 1, 'integers': 'full width, symbolic',
                'loop_fuel': 64, 'solver_timeout_s': 60, 'outside': 'longer strings/lists, deeper nesting, programs outside the family'}
    return {'string_bytes': '0..4', 'list_len': '0..3', 'nesting': 3, 'trailing_bytes': 2, 'integers': 'full width, symbolic',
            'loop_fuel': 64, 'solver_timeout_s': 60, 'outside': 'longer strings/lists, deeper nesting, programs outside the family'}


ASSUMPTIONS = [
    'runtime contract of runtimes/CONTRACT.md (the codec runtimes are not in the repository): intrinsics of the symbolic executors = the implementations in runtimes/',
    'value domain: string byte length fits its prefix and <= n for char[n]; a char[n] value does not begin (left pad) / end (right pad) with its pad byte; strings are opaque byte sequences',
    'null/absent list == empty list and null == "" at the logical level',
    'checksum algorithm = uninterpreted function of the bytes written so far (one symbol per algorithm/width/prefix length)',
    'floats are carried as raw bit patterns',
    'reference semantics symv/ref.py written from the property statements and readme.md',
]


def write_known(prop, bysig, tier):
    p = os.path.join(VERIF, 'known_findings.json')
    d = json.load(open(p)) if os.path.exists(p) else {'findings': [], 'fixed': []}
    have = {k['signature'] for k in d['findings']}
    for s, fs in bysig.items():
        if s not in have:
            d['findings'].append({'property': prop, 'signature': s, 'status': 'known', 'what': (fs[0]['detail'] or '')[:200],
                                  'example_program': fs[0]['program'], 'first_seen_tier': tier})
    json.dump(d, open(p, 'w'), indent=1)


if __name__ == '__main__':
    import argparse
    ap = argparse.ArgumentParser()
    ap.add_argument('prop')
    ap.add_argument('--tier', default=os.environ.get('VERIF_TIER', 'quick'))
    ap.add_argument('--update-known', action='store_true')
    a = ap.parse_args()
    sys.exit(main(a.prop, a.tier, a.update_known))
