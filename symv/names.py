"""Name matching between DSL identifiers and the identifiers found in the lowered IR.
Members are mapped by declaration order; classes by a case/underscore-insensitive key,
so no generator naming convention is baked into the checks."""


def norm(s):
    return ''.join(c for c in s.lower() if c.isalnum())


def to_camel(s):
    out = []
    cap = True
    for c in s:
        if c in '_-. ':
            cap = True
            continue
        out.append(c.upper() if cap else c)
        cap = c.isdigit()
    return ''.join(out)


def find(names, want):
    """the element of `names` whose normal form equals that of `want` (exact match first)"""
    if want in names:
        return want
    w = norm(want)
    for n in names:
        if norm(n.split('.')[-1].split('$')[-1].split('::')[-1]) == w:
            return n
    return None
