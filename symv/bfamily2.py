"""well-formed multi-packet programs for the generator-level properties (C13, C14, C08):
the pipeline A program family rendered to text plus a few programs aimed at map iteration
and shared padding state"""
from .bfamily import T
from .pspec import family as afamily


def generator_family(tier='quick'):
    out = []
    keep = ('combined', 'match_two', 'match_u8_None', 'match_strkey', 'objs_named', 'objs_None_None', 'inline_None_None', 'idents', 'meta_None', 'meta_pad_alias',
            'fixed_attr', 'zchar', 'fixed_opt', 'fixedlist_None_None', 'len_u16_inline_true_match', 'len_gap_u16_None', 'cks_u32_inline_true', 'disp_u8_None',
            'disp_nonroot', 'match_nonroot', 'strlist_true_u8_u32', 'scal_true', 'nest3', 'disp_hi_u32', 'disp_hi_u64', 'disp_keyruns', 'disp_strspecial', 'docs_special', 'objs_empty')
    for p in afamily(tier):
        if p.name.startswith(keep) or tier == 'thorough':
            out.append(T('a:' + p.name, p.render()))
    out.append(T('g:two_inline_same_name', 'options {\n    GoPackage = "msg";\n    JavaPackage = "com.x";\n}\n\nroot packet Frame {\n    u8 k,\n    match k as body {\n        1 : OrderRequest,\n        2 : OrderResponse,\n    },\n}\n\n'
                 'packet OrderRequest {\n    repeat SubOrder {\n        u32 qty,\n    },\n}\n\npacket OrderResponse {\n    repeat SubOrder {\n        string note,\n        u16 code,\n    },\n}\n'))
    out.append(T('g:forward_refs', 'options {\n    GoPackage = "msg";\n    JavaPackage = "com.x";\n}\n\nroot packet Frame {\n    u8 k,\n    match k as body {\n        1 : ExecReport,\n    },\n}\n\n'
                 'packet ExecReport {\n    Header h,\n    repeat Leg legs,\n    Trailer t,\n}\n\npacket Header {\n    u8 a,\n}\n\npacket Leg {\n    u16 b,\n}\n\npacket Trailer {\n    u32 c,\n}\n'))
    out.append(T('g:embed_order', 'options {\n    GoPackage = "msg";\n    JavaPackage = "com.x";\n}\n\nroot packet Msg {\n    Order o,\n    Trailer t,\n}\n\npacket Order {\n    Leg leg,\n}\n\npacket Trailer {\n    u8 x,\n}\n\npacket Leg {\n    u16 q,\n}\n'))
    out.append(T('g:padleft_only', 'options {\n    GoPackage = "msg";\n    JavaPackage = "com.x";\n    FixedStringPadFromLeft = true;\n}\n\nroot packet Msg {\n    char[8] name,\n    zchar[4] z,\n    repeat char[3] codes,\n}\n'))
    out.append(T('g:nul_forms', 'options {\n    GoPackage = "msg";\n    JavaPackage = "com.x";\n}\n\nroot packet Msg {\n    zchar[8] a,\n    @leftPad(\'\\x00\')\n    char[8] b,\n    @rightPad(\'\\x00\')\n    char[8] c,\n    repeat zchar[2] d,\n}\n'))
    out.append(T('g:meta_shared', 'options {\n    GoPackage = "msg";\n    JavaPackage = "com.x";\n}\n\nMetaData M {\n    zchar[6] Sym `s`,\n    char[4] Code `c`,\n}\n\nroot packet Msg {\n    Sym a,\n    Sym b,\n    Code c,\n    @leftPad(\'0\')\n    Code d,\n}\n'))
    # matches nested two deep, pairs listed in descending / mixed key order, list keys; packet names with acronyms
    out.append(T('g:nested_match_desc', 'options {\n    GoPackage = "msg";\n    GoModule = "example.com/msg";\n    JavaPackage = "com.x";\n}\n\nroot packet Frame {\n    u16 MsgType,\n    match MsgType as Body {\n        1 : Order,\n        3 : Cancel,\n    },\n}\n\n'
                 'packet Order {\n    u8 Kind,\n    match Kind as Detail {\n        2 : Limit,\n        1 : Market,\n        [9, 4] : Stop,\n    },\n}\n\npacket Cancel {\n    Order Orig,\n}\n\npacket Limit {\n    u64 Price,\n}\n\npacket Market {\n    u32 Qty,\n}\n\npacket Stop {\n    u64 Trigger,\n}\n'))
    out.append(T('g:acronym_names', 'options {\n    GoPackage = "msg";\n    GoModule = "example.com/msg";\n    JavaPackage = "com.x";\n}\n\nroot packet Frame {\n    u16 MsgType,\n    match MsgType as Body {\n        1 : NewOrderACK,\n        2 : Logout,\n    },\n}\n\n'
                 'packet NewOrderACK {\n    u32 OrderId,\n    repeat QuoteACK,\n    SBEHeader,\n}\n\npacket QuoteACK {\n    u64 Price,\n}\n\npacket SBEHeader {\n    u16 BlockLen,\n}\n\npacket Logout {\n    u32 UserId,\n}\n'))
    H = 'options {\n    GoPackage = "msg";\n    GoModule = "example.com/msg";\n    JavaPackage = "com.x";\n}\n\n'
    out.append(T('g:oneline_match', H + 'root packet Frame { u8 kind, match kind as body { 1: Logon, 2: Logout, [3, 4]: Ack, 5: Quote, 9: Ack, }, u8 tail, }\npacket Logon { u8 a, } packet Logout { u8 b, }\npacket Ack { u8 c, } packet Quote { u8 d, }\n'))
    out.append(T('g:same_field_names', H + 'root packet Frame {\n    u8 k,\n    match k as body {\n        1 : OrderA,\n        2 : OrderB,\n        3 : OrderC,\n    },\n}\n\npacket OrderA {\n    Leg leg,\n    u8 x,\n}\n\npacket OrderB {\n    Leg leg,\n    Leg other,\n}\n\npacket OrderC {\n    repeat Leg leg,\n}\n\npacket Leg {\n    u16 q,\n}\n'))
    out.append(T('g:lowercase_packets', H + 'root packet Frame {\n    u8 k,\n    match k as body {\n        1 : heartbeat,\n        2 : Logon,\n        3 : _private,\n    },\n}\n\npacket heartbeat {\n    u32 seq,\n}\n\npacket Logon {\n    string user,\n}\n\npacket _private {\n    u8 x,\n}\n'))
    out.append(T('g:rootless_single', H + 'packet Ping {\n    u32 Seq,\n    string Note,\n}\n', wellformed=False))
    out.append(T('g:reserved_field_names', H + 'root packet Frame {\n    u16 Kind,\n    char[8] Encode,\n    u32 Decode,\n    string String,\n    u8 Size,\n    repeat u16 Len,\n    Inner Type,\n}\n\npacket Inner {\n    u8 encode,\n    u8 Equals,\n    u8 Buf,\n}\n'))
    out.append(T('g:shared_packet', H + 'root packet Frame {\n    u8 k,\n    Leg first,\n    match k as body {\n        1 : Leg,\n        2 : Pair,\n    },\n    repeat Leg rest,\n}\n\npacket Pair {\n    Leg a,\n    Leg b,\n}\n\npacket Leg {\n    u16 q,\n    char[4] sym,\n}\n'))
    return out
