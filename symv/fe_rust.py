"""Rust front-end of pipeline A: the emitted crate is compiled by rustc against
runtimes/rust/binary_codec.rs (+ bytes, byteorder from the cargo registry sources) with
--emit=mir; the MIR text of encode/decode (and closures) is parsed and executed
symbolically.  bytes / byteorder / binary_codec / core::option calls are intrinsics."""
import os, re, subprocess, shutil, json, glob
import z3
from .core import (bv, bytes_of, from_bytes, simp, conc, conc_signed, is_sym, Outcome, Unsupported, PathCtl)
from .pspec import WIDTH
from . import build
from . import ref as refmod
from .fe_py import MissingMember, trim, all_packets
from .names import find, norm

INTW = {'u8': (8, False), 'u16': (16, False), 'u32': (32, False), 'u64': (64, False), 'usize': (64, False), 'u128': (128, False),
        'i8': (8, True), 'i16': (16, True), 'i32': (32, True), 'i64': (64, True), 'isize': (64, True), 'i128': (128, True)}
CKS_VARIANTS = ['U8', 'U16', 'U32', 'U64', 'I8', 'I16', 'I32', 'I64']


def rust_rt():
    rt = build.shared_dir('rust_rt', glob.glob(os.path.join(build.VERIF, 'runtimes', 'rust', '*.rs')))
    if os.path.exists(os.path.join(rt, 'DONE')):
        return rt
    shutil.rmtree(rt, ignore_errors=True)
    os.makedirs(rt)
    reg = glob.glob(os.path.expanduser('~/.cargo/registry/src/*/'))
    if not reg:
        raise RuntimeError('cargo registry sources not found')
    reg = reg[0]
    cmds = [
        ['rustc', '--edition', '2021', '--crate-type', 'rlib', '--crate-name', 'bytes', '--cfg', 'feature="std"', '-A', 'warnings',
         os.path.join(reg, 'bytes-1.11.1', 'src', 'lib.rs'), '-o', os.path.join(rt, 'libbytes.rlib')],
        ['rustc', '--edition', '2021', '--crate-type', 'rlib', '--crate-name', 'byteorder', '--cfg', 'feature="std"', '-A', 'warnings',
         os.path.join(reg, 'byteorder-1.5.0', 'src', 'lib.rs'), '-o', os.path.join(rt, 'libbyteorder.rlib')],
        ['rustc', '--edition', '2021', '--crate-type', 'rlib', '--crate-name', 'binary_codec', '-A', 'warnings',
         '--extern', 'bytes=' + os.path.join(rt, 'libbytes.rlib'), '-L', rt,
         os.path.join(build.VERIF, 'runtimes', 'rust', 'binary_codec.rs'), '-o', os.path.join(rt, 'libbinary_codec.rlib')],
    ]
    for c in cmds:
        r = subprocess.run(c, capture_output=True, text=True)
        if r.returncode != 0:
            raise RuntimeError('rust runtime build failed: ' + r.stderr[-500:])
    open(os.path.join(rt, 'DONE'), 'w').write('ok')
    return rt


def lower_rust(progs, emits, tag):
    cd = build.cache_dir()
    base = os.path.join(cd, 'rust_' + tag)
    done = os.path.join(base, 'DONE')
    rt = rust_rt()
    if not os.path.exists(done):
        shutil.rmtree(base, ignore_errors=True)
        os.makedirs(base)
        from concurrent.futures import ThreadPoolExecutor

        def one(p):
            e = emits[p.name]
            files = e['files'].get('rs', {})
            d = os.path.join(base, p.name)
            os.makedirs(d)
            res = {'errors': [], 'src': {}}
            lib = files.get('lib.rs')
            if e['rc'] != 0 or not lib:
                res['errors'] = ['no rust crate emitted']
            else:
                r = subprocess.run(['rustc', '--edition', '2021', '--crate-type', 'rlib', '--crate-name', 'fp', '-L', rt,
                                    '--extern', 'bytes=' + os.path.join(rt, 'libbytes.rlib'),
                                    '--extern', 'byteorder=' + os.path.join(rt, 'libbyteorder.rlib'),
                                    '--extern', 'binary_codec=' + os.path.join(rt, 'libbinary_codec.rlib'),
                                    '--emit=mir', '-A', 'warnings', '-o', os.path.join(d, 'fp.mir'), lib],
                                   capture_output=True, text=True)
                if r.returncode != 0:
                    errs = re.findall(r'^error(?:\[E\d+\])?: (.*)$', r.stderr, re.M)
                    res['errors'] = [x for x in errs if not x.startswith('aborting')] or [r.stderr[-300:]]
                for rel, path in files.items():
                    if rel.endswith('.rs'):
                        res['src'][rel] = open(path, errors='replace').read()
            json.dump(res, open(os.path.join(d, 'lower.json'), 'w'))

        with ThreadPoolExecutor(16) as ex:
            list(ex.map(one, progs))
        open(done, 'w').write('ok')
    return {p.name: os.path.join(base, p.name) for p in progs}


# ---------------------------------------------------------------------------- MIR parsing

class MFn:
    def __init__(self, name, params, ret):
        self.name, self.params, self.ret = name, params, ret
        self.blocks = {}
        self.local_types = {}


def split_top(s, sep=','):
    out, depth, cur = [], 0, ''
    i = 0
    inq = None
    while i < len(s):
        c = s[i]
        if inq:
            cur += c
            if c == '\\':
                cur += s[i + 1]
                i += 1
            elif c == inq:
                inq = None
        elif c == '"':
            inq = c
            cur += c
        elif c == "'" and re.match(r"'(\\.|[^'\\])'", s[i:]):
            m = re.match(r"'(\\.[^']*|[^'\\])'", s[i:])
            cur += m.group(0)
            i += len(m.group(0)) - 1
        elif c in '([{<':
            if c == '<' and (i + 1 < len(s) and s[i + 1] == '=' or i > 0 and s[i - 1] == ' ' and i + 1 < len(s) and s[i + 1] == ' '):
                cur += c
            else:
                depth += 1
                cur += c
        elif c in ')]}>':
            if c == '>' and (i > 0 and s[i - 1] in '-=' or i > 0 and s[i - 1] == ' ' and i + 1 < len(s) and s[i + 1] == ' '):
                cur += c
            else:
                depth -= 1
                cur += c
        elif c == sep and depth == 0:
            out.append(cur.strip())
            cur = ''
        else:
            cur += c
        i += 1
    if cur.strip():
        out.append(cur.strip())
    return out


def parse_mir(text):
    fns = {}
    cur = None
    blk = None
    for ln in text.split('\n'):
        if ln.startswith('fn '):
            m = re.match(r'^fn (.*)\((.*)\) -> (.*) \{$', ln)
            if not m:
                cur = None
                continue
            name = m.group(1)
            params = []
            for p in split_top(m.group(2)):
                mm = re.match(r'(_\d+): (.*)', p)
                if mm:
                    params.append((mm.group(1), mm.group(2)))
            cur = MFn(name, params, m.group(3))
            for pn, pt in params:
                cur.local_types[pn] = pt
            cur.local_types['_0'] = m.group(3)
            fns[name] = cur
            blk = None
            continue
        if cur is None:
            continue
        if ln == '}':
            cur = None
            continue
        m = re.match(r'^\s+let (?:mut )?(_\d+): (.*);$', ln)
        if m:
            cur.local_types[m.group(1)] = m.group(2)
            continue
        m = re.match(r'^    (bb\d+)(?: \(cleanup\))?: \{$', ln)
        if m:
            blk = []
            cur.blocks[m.group(1)] = blk
            continue
        if blk is not None:
            s = ln.strip()
            if s == '}' or not s:
                if s == '}':
                    blk = None
                continue
            blk.append(s.rstrip(';'))
    return fns


def parse_source_types(srcs):
    """struct field lists and enum variant lists from the emitted source (declaration order = MIR field index)"""
    structs, enums = {}, {}
    ambiguous = set()
    for rel, src in srcs.items():
        for m in re.finditer(r'pub struct (\w+)\s*\{(.*?)\}', src, re.S):
            fields = []
            for fm in re.finditer(r'pub (\w+)\s*:\s*([^,\n]+)', m.group(2)):
                fields.append((fm.group(1), fm.group(2).strip()))
            if m.group(1) in structs and structs[m.group(1)] != fields:
                ambiguous.add(m.group(1))
            structs[m.group(1)] = fields
        for m in re.finditer(r'pub enum (\w+)\s*\{(.*?)\}', src, re.S):
            vs = []
            for vm in re.finditer(r'(\w+)\s*\(\s*([\w:]+)\s*\)', m.group(2)):
                vs.append((vm.group(1), vm.group(2)))
            enums[m.group(1)] = vs
    for a in ambiguous:
        structs[a] = None
    return structs, enums


# ---------------------------------------------------------------------------- values

class RStruct:
    def __init__(self, name, fields):
        self.name, self.f = name, fields      # list


class REnum:
    def __init__(self, ename, variant, fields):
        self.ename, self.variant, self.f = ename, variant, fields


class RStr:
    def __init__(self, bs):
        self.bs = list(bs)


class RVec:
    def __init__(self, items):
        self.items = list(items)


class RBuf:
    def __init__(self, data=None):
        self.b = list(data or [])
        self.r = 0


class RRef:
    """reference to a place: base container + path of field indices; base is a dict (locals) key or a python object"""
    def __init__(self, get, set_):
        self.get, self.set = get, set_


class RSliceRef:
    def __init__(self, buf, lo, hi):
        self.buf, self.lo, self.hi = buf, lo, hi


class RFloat:
    def __init__(self, bits):
        self.bits = bits


class RClosure:
    def __init__(self, fname, caps):
        self.fname, self.caps = fname, caps


class RCks:
    def __init__(self, alg):
        self.alg = alg


class RToken:
    def __init__(self, s):
        self.s = s


class RPanic(Exception):
    def __init__(self, msg):
        Exception.__init__(self, msg)
        self.msg = msg


def Some(v):
    return REnum('Option', 'Some', [v])


def NONE():
    return REnum('Option', 'None', [])


def tyname(t):
    """last path segment without generics: 'logon::Logon' -> 'Logon'"""
    t = t.strip()
    t = re.sub(r'<.*>', '', t)
    return t.split('::')[-1]


class RustFE:
    lang = 'rust'

    def __init__(self, spec, emit, ldir=None):
        self.spec = spec
        self.rejects = []
        self.soft = []
        self.functions_encoded = []
        if ldir is None or not os.path.exists(os.path.join(ldir, 'lower.json')):
            self.rejects.append('no rust lowered')
            return
        lj = json.load(open(os.path.join(ldir, 'lower.json')))
        if lj['errors']:
            self.rejects = [re.sub(r'\s+', ' ', e)[:120] for e in lj['errors']]
            return
        self.fns = parse_mir(open(os.path.join(ldir, 'fp.mir')).read())
        self.structs, self.enums = parse_source_types(lj['src'])
        self.functions_encoded = list(self.fns)
        # index encode/decode by self type
        self.enc, self.dec = {}, {}
        for name, fn in self.fns.items():
            if name.endswith('::encode') and fn.params and 'BytesMut' in fn.params[-1][1]:
                self.enc[tyname(fn.params[0][1].lstrip('&'))] = fn
            elif name.endswith('::decode') and fn.ret.startswith('Option<'):
                self.dec[tyname(fn.ret[7:-1])] = fn
        self.ctl = PathCtl()
        self.cks_registered = True
        self.cks_hint = {'*': (4, False)}
        self.steps = 0

    # ------------------------------------------------------------------ execution
    def call_fn(self, fn, args):
        L = {}
        for (pn, pt), a in zip(fn.params, args):
            L[pn] = a
        bb = 'bb0'
        while True:
            stmts = fn.blocks[bb]
            nxt = None
            for s in stmts:
                self.steps += 1
                if self.steps > 1_000_000:
                    raise Outcome('unwind', 'instruction budget exceeded')
                if s.startswith(('StorageLive', 'StorageDead', 'nop', 'FakeRead', 'PlaceMention', 'AscribeUserType', 'Retag', 'Coverage', 'ConstEvalCounter')):
                    continue
                if s == 'return':
                    return L.get('_0')
                if s == 'unreachable':
                    raise Unsupported('MIR unreachable reached in ' + fn.name)
                if s == 'resume' or s.startswith('resume'):
                    raise RPanic('unwinding')
                if s.startswith('goto -> '):
                    nxt = s[8:].strip()
                    break
                if s.startswith('switchInt('):
                    nxt = self.switch_int(fn, L, s)
                    break
                if s.startswith('drop('):
                    m = re.search(r'return: (bb\d+)', s)
                    nxt = m.group(1)
                    break
                if s.startswith('assert('):
                    nxt = self.do_assert(fn, L, s)
                    break
                m = re.match(r'^(.*?) = (.*)$', s)
                if not m:
                    raise Unsupported('MIR statement: ' + s[:80])
                lhs, rhs = m.group(1), m.group(2)
                if ' -> [' in rhs or rhs.endswith('-> unwind continue') or re.search(r'\) -> (bb\d+|\[)', rhs):
                    nxt = self.do_call(fn, L, lhs, rhs)
                    break
                self.assign(fn, L, lhs, self.rvalue(fn, L, rhs, lhs))
            if nxt is None:
                raise Unsupported('block without terminator in ' + fn.name)
            bb = nxt

    # places -------------------------------------------------------------
    def parse_place(self, s):
        """returns (local, [proj...]) proj: ('deref',) ('field',k) ('downcast',variant) ('index',local)"""
        s = s.strip()
        projs = []
        while True:
            if s.startswith('(*') and s.endswith(')'):
                inner = s[2:-1]
                if balanced(inner):
                    projs.append(('deref',))
                    s = inner.strip()
                    continue
            m = re.match(r'^\((.*)\.(\d+): (.*)\)$', s)
            if m and balanced(m.group(1)):
                projs.append(('field', int(m.group(2))))
                s = m.group(1).strip()
                continue
            m = re.match(r'^\((.*) as (\w+)\)$', s)
            if m and balanced(m.group(1)):
                projs.append(('downcast', m.group(2)))
                s = m.group(1).strip()
                continue
            m = re.match(r'^(.*)\[(_\d+)\]$', s)
            if m and balanced(m.group(1)):
                projs.append(('index', m.group(2)))
                s = m.group(1).strip()
                continue
            break
        if not re.match(r'^_\d+$', s):
            raise Unsupported('place ' + s)
        return s, projs[::-1]

    def read_place(self, L, s):
        loc, projs = self.parse_place(s)
        if loc not in L:
            raise Unsupported('read of unassigned local ' + loc)
        v = L[loc]
        for p in projs:
            v = self.project(L, v, p)
        return v

    def project(self, L, v, p):
        if p[0] == 'deref':
            if isinstance(v, RRef):
                return v.get()
            return v          # Box / Arc / buffers are modelled as the object itself
        if p[0] == 'field':
            if isinstance(v, (RStruct, REnum, RClosure)):
                fl = v.f if not isinstance(v, RClosure) else v.caps
                return fl[p[1]]
            if isinstance(v, (list, tuple)):
                return v[p[1]]
            raise Unsupported('field of %r' % type(v))
        if p[0] == 'downcast':
            if isinstance(v, REnum) and v.variant != p[1]:
                raise Unsupported('downcast to %s of variant %s' % (p[1], v.variant))
            return v
        if p[0] == 'index':
            i = self.cint(L[p[1]])
            if isinstance(v, RVec):
                if i >= len(v.items):
                    raise RPanic('index out of bounds')
                return v.items[i]
        raise Unsupported('projection %r' % (p,))

    def assign(self, fn, L, lhs, val):
        loc, projs = self.parse_place(lhs)
        if not projs:
            L[loc] = val
            return
        v = L[loc]
        for p in projs[:-1]:
            v = self.project(L, v, p)
        last = projs[-1]
        if last[0] == 'deref':
            if isinstance(v, RRef):
                v.set(val)
                return
        if last[0] == 'field':
            if isinstance(v, (RStruct, REnum)):
                v.f[last[1]] = val
                return
            if isinstance(v, list):
                v[last[1]] = val
                return
        if last[0] == 'index':
            tgt = self.deref(v)
            i = self.cint(L[last[1]])
            if isinstance(tgt, RBuf):
                # (*deref_mut(buf))[i] = byte  (the bounds check was asserted just before)
                if i < 0 or tgt.r + i >= len(tgt.b):
                    raise RPanic('index out of bounds: the length is %d but the index is %d' % (len(tgt.b) - tgt.r, i))
                tgt.b[tgt.r + i] = self.bits(val, 8)
                return
            if isinstance(tgt, RVec):
                if i >= len(tgt.items):
                    raise RPanic('index out of bounds')
                tgt.items[i] = val
                return
        raise Unsupported('assignment to ' + lhs)

    def make_ref(self, L, s):
        loc, projs = self.parse_place(s)
        # reference to a whole local
        if not projs:
            return RRef(lambda: L[loc], lambda x: L.__setitem__(loc, x))
        v = L[loc]
        for p in projs[:-1]:
            v = self.project(L, v, p)
        last = projs[-1]
        if last[0] == 'deref':
            # &(*_2): reborrow
            if isinstance(v, RRef):
                return v
            return RRef(lambda: v, lambda x: (_ for _ in ()).throw(Unsupported('store through reborrow')))
        if last[0] == 'field':
            cont = v.f if isinstance(v, (RStruct, REnum)) else v.caps if isinstance(v, RClosure) else v
            k = last[1]
            return RRef(lambda: cont[k], lambda x: cont.__setitem__(k, x))
        if last[0] == 'downcast':
            return RRef(lambda: v, lambda x: None)
        raise Unsupported('reference to ' + s)

    # operands / rvalues ---------------------------------------------------
    def operand(self, fn, L, s):
        s = s.strip()
        if s.startswith('copy '):
            return self.read_place(L, s[5:])
        if s.startswith('move '):
            return self.read_place(L, s[5:])
        if s.startswith('const '):
            return self.const(s[6:].strip())
        raise Unsupported('operand ' + s[:60])

    def const(self, c):
        m = re.match(r'^(-?\d+)_(\w+)$', c)
        if m:
            return RInt(int(m.group(1)), m.group(2))
        if c in ('true', 'false'):
            return c == 'true'
        if c.startswith('"'):
            body = c[1:c.rindex('"')]
            s = bytes(body, 'utf-8').decode('unicode_escape').encode('latin-1', 'ignore') if '\\' in body else body.encode()
            return RStr([z3.BitVecVal(x, 8) for x in s])
        if c.startswith("'"):
            body = c[1:-1]
            if body.startswith('\\'):
                ch = {'\\0': 0, '\\n': 10, '\\t': 9, '\\r': 13, "\\'": 39, '\\\\': 92}.get(body)
                if ch is None:
                    mu = re.match(r'\\u\{([0-9a-fA-F]+)\}', body) or re.match(r'\\x([0-9a-fA-F]{2})', body)
                    if not mu:
                        raise Unsupported('char const ' + c)
                    ch = int(mu.group(1), 16)
            else:
                ch = ord(body)
            return RInt(ch, 'char')
        if c.endswith('::None') or c == 'None':
            return NONE()
        if c.startswith('{alloc'):
            return RToken(c)
        if c == '()':
            return ()
        m = re.match(r'^([\w:]+) \{\{\s*\}\}$', c)
        if m:
            return RStruct(tyname(m.group(1)), [])
        m = re.match(r'^(-?[\d.]+(?:[eE][-+]?\d+)?)(f32|f64)$', c)
        if m:
            import struct
            if m.group(2) == 'f32':
                return RFloat(z3.BitVecVal(struct.unpack('>I', struct.pack('>f', float(m.group(1))))[0], 32))
            return RFloat(z3.BitVecVal(struct.unpack('>Q', struct.pack('>d', float(m.group(1))))[0], 64))
        if re.match(r'^[\w:<>]+$', c):
            return RToken(c)
        raise Unsupported('constant ' + c[:60])

    def cint(self, v):
        if isinstance(v, RInt):
            v = v.v
        if isinstance(v, int):
            return v
        c = conc(v)
        if c is None:
            if z3.is_bv(v):
                return self.ctl.concretise(v)
            raise Unsupported('symbolic integer where a concrete one is needed')
        return c

    def rvalue(self, fn, L, r, lhs):
        r = r.strip()
        if r.startswith(('copy ', 'move ', 'const ')):
            # cast?
            m = re.match(r'^((?:copy|move|const) .*) as ([\w:]+) \((\w+)[^)]*\)$', r)
            if m:
                return self.cast(self.operand(fn, L, m.group(1)), m.group(2), m.group(3))
            return self.operand(fn, L, r)
        m = re.match(r'^&raw (?:const|mut) (?:\(fake\) )?(.*)$', r)
        if m:
            # the compiler's bounds check of buf[i] takes a raw pointer to the slice only to read its length
            v = self.read_place(L, m.group(1))
            if isinstance(self.deref(v), RBuf):
                return self.deref(v)
            raise Unsupported('raw reference')
        m = re.match(r'^PtrMetadata\((?:move|copy) (.*)\)$', r)
        if m:
            v = self.deref(self.read_place(L, m.group(1)))
            if isinstance(v, RBuf):
                return RInt(len(v.b) - v.r, 'usize')
            raise Unsupported('PtrMetadata of %r' % type(v))
        if r.startswith('&mut '):
            return self.make_ref(L, r[5:])
        if r.startswith('&'):
            return self.make_ref(L, r[1:].strip())
        m = re.match(r'^discriminant\((.*)\)$', r)
        if m:
            v = self.read_place(L, m.group(1))
            return RInt(self.discriminant(v), 'isize')
        m = re.match(r'^(\w+)\((.*)\)$', r)
        if m and m.group(1) in BINOPS:
            a, b = [self.operand(fn, L, x) for x in split_top(m.group(2))]
            return self.binop(m.group(1), a, b)
        if m and m.group(1) in ('Not', 'Neg'):
            a = self.operand(fn, L, m.group(2))
            if isinstance(a, bool):
                return not a
            if z3.is_bool(a):
                return z3.Not(a)
            raise Unsupported('unary op on ' + repr(type(a)))
        # aggregates
        m = re.match(r'^(.*?)\s*\{(.*)\}$', r)
        if m and not r.startswith('{closure') and not r.startswith('('):
            head = m.group(1).strip()
            fields = []
            for part in split_top(m.group(2)):
                k, _, v = part.partition(':')
                fields.append(self.operand(fn, L, v.strip()))
            return RStruct(tyname(head), fields)
        if r.startswith('{closure'):
            m = re.match(r'^(\{closure@[^}]*\})\s*(?:\{(.*)\})?$', r)
            caps = []
            if m and m.group(2):
                for part in split_top(m.group(2)):
                    k, _, v = part.partition(':')
                    caps.append(self.operand(fn, L, v.strip()))
            return RClosure(self.closure_fn(fn, m.group(1)), caps)
        m = re.match(r'^([\w:<>, ]+?)::(\w+)\((.*)\)$', r)
        if m:
            ename = tyname(re.sub(r'::<.*>$', '', m.group(1)))
            args = [self.operand(fn, L, x) for x in split_top(m.group(3))]
            return REnum(ename, m.group(2), args)
        m = re.match(r'^([\w:<>, ]+?)::(\w+)$', r)
        if m:
            return REnum(tyname(re.sub(r'::<.*>$', '', m.group(1))), m.group(2), [])
        if r.startswith('(') and r.endswith(')'):
            return [self.operand(fn, L, x) for x in split_top(r[1:-1])]
        raise Unsupported('rvalue ' + r[:80])

    def closure_fn(self, fn, ctext):
        for name in self.fns:
            if name.startswith(fn.name + '::{closure#'):
                if self.fns[name].params and self.fns[name].params[0][1].startswith(ctext[:-1]):
                    return name
        for name in self.fns:
            if name.startswith(fn.name + '::{closure#'):
                return name
        raise Unsupported('closure body not found')

    def discriminant(self, v):
        if isinstance(v, REnum):
            if v.ename == 'Option':
                return 0 if v.variant == 'None' else 1
            if v.ename == 'ControlFlow':
                return 0 if v.variant == 'Continue' else 1
            if v.ename == 'Checksum':
                return CKS_VARIANTS.index(v.variant)
            vs = self.enums.get(v.ename)
            if vs:
                for i, (vn, vt) in enumerate(vs):
                    if vn == v.variant:
                        return i
            raise Unsupported('discriminant of %s::%s' % (v.ename, v.variant))
        raise Unsupported('discriminant of %r' % type(v))

    def cast(self, v, ty, kind):
        if kind == 'IntToInt':
            if isinstance(v, bool):
                v = RInt(int(v), 'u8')
            w, sg = INTW.get(ty, (32, False)) if ty != 'char' else (32, False)
            if isinstance(v.v, int):
                return RInt(v.v, ty)
            sw, ss = (32, False) if v.ty == 'char' else INTW[v.ty]
            x = v.v
            if w < sw:
                x = z3.Extract(w - 1, 0, x)
            elif w > sw:
                x = (z3.SignExt if ss else z3.ZeroExt)(w - sw, x)
            return RInt(simp(x), ty)
        if kind in ('PointerCoercion', 'Transmute', 'PtrToPtr'):
            return v
        raise Unsupported('cast ' + kind)

    def binop(self, op, a, b):
        if isinstance(a, bool) or isinstance(b, bool) or z3.is_bool(a) or z3.is_bool(b):
            A = a if not isinstance(a, bool) else z3.BoolVal(a)
            B = b if not isinstance(b, bool) else z3.BoolVal(b)
            if op == 'Eq':
                return csimp(A == B)
            if op == 'Ne':
                return csimp(A != B)
            if op == 'BitAnd':
                return csimp(z3.And(A, B))
            if op == 'BitOr':
                return csimp(z3.Or(A, B))
            raise Unsupported('bool binop ' + op)
        ty = a.ty
        w, sg = (32, False) if ty == 'char' else INTW[ty]
        base = op.replace('WithOverflow', '').replace('Unchecked', '')
        if isinstance(a.v, int) and isinstance(b.v, int):
            x, y = a.v, b.v
            if base in ('Eq', 'Ne', 'Lt', 'Le', 'Gt', 'Ge'):
                return {'Eq': x == y, 'Ne': x != y, 'Lt': x < y, 'Le': x <= y, 'Gt': x > y, 'Ge': x >= y}[base]
            r = {'Add': x + y, 'Sub': x - y, 'Mul': x * y, 'BitAnd': x & y, 'BitOr': x | y, 'BitXor': x ^ y,
                 'Shl': x << (y & 127), 'Shr': x >> (y & 127)}.get(base)
            if r is None:
                if base in ('Div', 'Rem'):
                    if y == 0:
                        raise RPanic('attempt to divide by zero')
                    r = int(x / y) if base == 'Div' else x - int(x / y) * y
                else:
                    raise Unsupported('binop ' + op)
            res = RInt(r, ty)
            if op.endswith('WithOverflow'):
                return [res, res.v != r]
            return res
        A, B = a.bv(), b.bv()
        if B.size() != A.size():
            B = z3.ZeroExt(A.size() - B.size(), B) if B.size() < A.size() else z3.Extract(A.size() - 1, 0, B)
        if base in ('Eq', 'Ne', 'Lt', 'Le', 'Gt', 'Ge'):
            c = {'Eq': A == B, 'Ne': A != B, 'Lt': (A < B) if sg else z3.ULT(A, B), 'Le': (A <= B) if sg else z3.ULE(A, B),
                 'Gt': (A > B) if sg else z3.UGT(A, B), 'Ge': (A >= B) if sg else z3.UGE(A, B)}[base]
            return csimp(c)
        r = {'Add': A + B, 'Sub': A - B, 'Mul': A * B, 'BitAnd': A & B, 'BitOr': A | B, 'BitXor': A ^ B}.get(base)
        if r is None:
            raise Unsupported('symbolic binop ' + op)
        res = RInt(simp(r), ty)
        if op.endswith('WithOverflow'):
            if base == 'Add':
                ov = z3.Not(z3.BVAddNoOverflow(A, B, sg)) if not sg else z3.Or(z3.Not(z3.BVAddNoOverflow(A, B, True)), z3.Not(z3.BVAddNoUnderflow(A, B)))
            elif base == 'Sub':
                ov = z3.Not(z3.BVSubNoUnderflow(A, B, sg)) if not sg else z3.Or(z3.Not(z3.BVSubNoOverflow(A, B)), z3.Not(z3.BVSubNoUnderflow(A, B, True)))
            else:
                raise Unsupported('symbolic overflow check for ' + base)
            return [res, csimp(ov)]
        return res

    def switch_int(self, fn, L, s):
        m = re.match(r'^switchInt\((.*)\) -> \[(.*)\]$', s)
        v = self.operand(fn, L, m.group(1))
        arms = []
        other = None
        for part in split_top(m.group(2)):
            k, _, t = part.partition(':')
            if k.strip() == 'otherwise':
                other = t.strip()
            else:
                arms.append((int(k.strip()), t.strip()))
        if isinstance(v, bool):
            v = RInt(int(v), 'u8')
        if z3.is_bool(v):
            c = self.ctl.branch(v)
            v = RInt(int(c), 'u8')
        if isinstance(v, RStr):
            raise Unsupported('switchInt on str')
        if isinstance(v.v, int):
            w, sg = (32, False) if v.ty == 'char' else INTW[v.ty]
            for k, t in arms:
                if (k - v.v) % (1 << w) == 0:
                    return t
            return other
        conds = [v.v == z3.BitVecVal(k, v.v.size()) for k, t in arms]
        conds.append(z3.And([z3.Not(c) for c in conds]))
        i = self.ctl.choose(conds)
        return arms[i][1] if i < len(arms) else other

    def do_assert(self, fn, L, s):
        m = re.match(r'^assert\((!?)(.*?), "(.*)$', s)
        if not m:
            m2 = re.match(r'^assert\((!?)(move|copy) (\S+?),', s)
            if not m2:
                raise Unsupported('assert form: ' + s[:80])
            neg, opnd = m2.group(1), m2.group(2) + ' ' + m2.group(3)
        else:
            neg, opnd = m.group(1), m.group(2)
        c = self.operand(fn, L, opnd)
        if neg:
            c = (not c) if isinstance(c, bool) else z3.Not(c)
        if not isinstance(c, bool):
            c = self.ctl.branch(c)
        if not c:
            mm = re.search(r'"([^"]*)"', s)
            raise RPanic('assertion failed: ' + (mm.group(1) if mm else ''))
        return re.search(r'success: (bb\d+)', s).group(1)

    # calls -----------------------------------------------------------------
    def do_call(self, fn, L, lhs, rhs):
        m = re.match(r'^(.*)\) -> (.*)$', rhs)
        callpart, tgt = m.group(1), m.group(2)
        # find the '(' opening the argument list (last top-level one)
        depth = 0
        k = None
        for i in range(len(callpart) - 1, -1, -1):
            c = callpart[i]
            if c == ')':
                depth += 1
            elif c == '(':
                if depth == 0:
                    k = i
                    break
                depth -= 1
        path, argtxt = callpart[:k].strip(), callpart[k + 1:]
        args = [self.operand(fn, L, a) for a in split_top(argtxt)] if argtxt.strip() else []
        ret = re.search(r'return: (bb\d+)', tgt)
        res = self.call_path(path, args)
        self.assign(fn, L, lhs, res)
        if ret is None:
            mm = re.match(r'^(bb\d+)$', tgt.strip())
            if mm:
                return mm.group(1)
            raise Unsupported('diverging call ' + path)
        return ret.group(1)

    def call_path(self, path, args):
        fnobj = self.fns.get(path)
        if fnobj is not None:
            return self.call_fn(fnobj, args)
        # trait method on an emitted type: '<logon::Logon as binary_codec::BinaryCodec>::encode'
        m = re.match(r'^<(.*) as (.*)>::(\w+)(?:::<(.*)>)?$', path)
        targs = []
        if m:
            selfty, trait, meth = m.group(1), m.group(2), m.group(3)
            if m.group(4):
                targs = split_top(m.group(4))
            tn = tyname(selfty)
            if trait.endswith('BinaryCodec'):
                f = (self.enc if meth == 'encode' else self.dec).get(tn)
                if f is None:
                    raise Unsupported('BinaryCodec::%s of %s' % (meth, selfty))
                return self.call_fn(f, args)
            return self.intrinsic(meth, selfty, trait, targs, args, path)
        m = re.match(r'^(.*?)::(\w+)(?:::<(.*)>)?$', path)
        if m:
            owner, meth = m.group(1), m.group(2)
            if m.group(3):
                targs = split_top(m.group(3))
            return self.intrinsic(meth, owner, None, targs, args, path)
        raise Unsupported('call ' + path)

    def buf_of(self, v):
        if isinstance(v, RRef):
            v = v.get()
        if isinstance(v, RBuf):
            return v
        raise Unsupported('buffer argument %r' % type(v))

    def deref(self, v):
        while isinstance(v, RRef):
            v = v.get()
        return v

    def intrinsic(self, meth, owner, trait, targs, a, path):
        o = owner
        # ---- bytes
        m = re.match(r'^(put|get)_(u8|i8|u16|i16|u32|i32|u64|i64|f32|f64|u128|i128)(_le|_ne)?$', meth)
        if m and ('BytesMut' in o or 'Bytes' in o or (trait and ('BufMut' in trait or trait.endswith('Buf')))):
            kind, ty, le = m.group(1), m.group(2), m.group(3) == '_le'
            k = {'u8': 1, 'i8': 1, 'u16': 2, 'i16': 2, 'u32': 4, 'i32': 4, 'u64': 8, 'i64': 8, 'f32': 4, 'f64': 8}[ty]
            buf = self.buf_of(a[0])
            if kind == 'put':
                buf.b.extend(bytes_of(self.bits(a[1], 8 * k), k, le))
                return ()
            if buf.r + k > len(buf.b):
                raise RPanic('buffer underflow in get_%s' % ty)
            v = from_bytes(buf.b[buf.r:buf.r + k], le)
            buf.r += k
            if ty in ('f32', 'f64'):
                return RFloat(v)
            return RInt(v, ty)
        if meth == 'len' and ('BytesMut' in o or 'Bytes' in o):
            buf = self.buf_of(a[0])
            return RInt(len(buf.b) - buf.r, 'usize')
        if meth == 'remaining':
            buf = self.buf_of(a[0])
            return RInt(len(buf.b) - buf.r, 'usize')
        if meth == 'put_slice' or meth == 'extend_from_slice':
            buf = self.buf_of(a[0])
            s = self.deref(a[1])
            buf.b.extend(s.bs if isinstance(s, RStr) else s.items)
            return ()
        if meth in ('deref_mut', 'deref', 'as_mut', 'as_ref', 'borrow', 'borrow_mut') and (trait or '').split('<')[0] in ('DerefMut', 'Deref', 'AsMut', 'AsRef', 'Borrow', 'BorrowMut', 'std::ops::Deref', 'std::ops::DerefMut'):
            return a[0]
        if meth in ('index_mut', 'index') and trait and 'Range' in trait:
            buf = self.buf_of(a[0])
            rg = a[1]
            if not isinstance(rg, RStruct):
                raise Unsupported('index with %r' % type(rg))
            lo, hi = self.cint(rg.f[0]), self.cint(rg.f[1])
            if lo > hi:
                raise RPanic('slice index starts at %d but ends at %d' % (lo, hi))
            if hi > len(buf.b) - buf.r:
                raise RPanic('range end index %d out of range for slice of length %d' % (hi, len(buf.b) - buf.r))
            return RSliceRef(buf, buf.r + lo, buf.r + hi)
        m = re.match(r'^write_(u16|i16|u32|i32|u64|i64)$', meth)
        if m and trait and 'ByteOrder' in trait:
            le = 'LittleEndian' in o
            k = {'u16': 2, 'i16': 2, 'u32': 4, 'i32': 4, 'u64': 8, 'i64': 8}[m.group(1)]
            sl = a[0]
            if not isinstance(sl, RSliceRef):
                raise Unsupported('byteorder write into %r' % type(sl))
            if sl.hi - sl.lo < k:
                raise RPanic('byteorder: slice of length %d too short for %s' % (sl.hi - sl.lo, m.group(1)))
            sl.buf.b[sl.lo:sl.lo + k] = bytes_of(self.bits(a[1], 8 * k), k, le)
            return ()
        # ---- Option / Try
        if meth == 'branch' and trait and trait.endswith('Try'):
            v = a[0]
            if v.variant == 'Some':
                return REnum('ControlFlow', 'Continue', [v.f[0]])
            return REnum('ControlFlow', 'Break', [NONE()])
        if meth == 'from_residual':
            return NONE()
        if meth == 'and_then' and o.startswith('Option'):
            v, clo = a
            if v.variant == 'None':
                return NONE()
            return self.call_fn(self.fns[clo.fname], [clo, v.f[0]])
        if meth == 'map' and o.startswith('Option'):
            v, clo = a
            if v.variant == 'None':
                return NONE()
            return Some(self.call_fn(self.fns[clo.fname], [clo, v.f[0]]))
        if meth == 'unwrap_or' and o.startswith('Option'):
            v, d = a
            return v.f[0] if v.variant == 'Some' else d
        if meth == 'unwrap' and o.startswith('Option'):
            if a[0].variant == 'None':
                raise RPanic('called `Option::unwrap()` on a `None` value')
            return a[0].f[0]
        if meth == 'as_str' or meth == 'as_bytes':
            return self.deref(a[0])
        if meth == 'eq' and (o == 'str' or 'String' in o):
            x, y = self.deref(a[0]), self.deref(a[1])
            c = bytes_eq(x.bs, y.bs)
            return c
        if meth == 'clone':
            return self.deref(a[0])
        # ---- binary_codec
        if o.endswith('binary_codec') or o == 'binary_codec':
            return self.codec(meth, targs, a)
        if meth == 'get' and 'ChecksumServiceContext' in o:
            nm = self.deref(a[1])
            if not self.cks_registered:
                return NONE()
            return Some(RCks(bytes(conc(b) for b in nm.bs).decode()))
        if meth == 'calc' and 'ChecksumService' in o:
            svc = self.deref(a[0])
            buf = self.buf_of(a[1])
            w, signed = self.cks_hint.get(svc.alg, self.cks_hint['*'])
            var = ('I' if signed else 'U') + str(8 * w)
            return REnum('Checksum', var, [RInt(refmod.cks_uf(svc.alg, w, list(buf.b)), ('i' if signed else 'u') + str(8 * w))])
        raise Unsupported('call ' + path[:100])

    def bits(self, v, w):
        if isinstance(v, RFloat):
            v = v.bits
            return v if v.size() == w else z3.BitVec('fconv', w)
        if isinstance(v, RInt):
            x = v.v
        else:
            x = v
        if isinstance(x, int):
            return x & ((1 << w) - 1)
        if x.size() > w:
            return simp(z3.Extract(w - 1, 0, x))
        if x.size() < w:
            return simp(z3.ZeroExt(w - x.size(), x))
        return x

    def codec(self, meth, targs, a):
        le = meth.endswith('_le')
        base = meth[:-3] if le else meth
        ts = [t.strip() for t in targs]
        if base == 'put_char':
            self.buf_of(a[0]).b.append(bv(self.bits(a[1], 8), 8))
            return ()
        if base == 'get_char':
            buf = self.buf_of(a[0])
            if buf.r + 1 > len(buf.b):
                return NONE()
            v = buf.b[buf.r]
            buf.r += 1
            return Some(RInt(simp(z3.ZeroExt(24, bv(v, 8))), 'char'))
        if base == 'put_string':
            buf = self.buf_of(a[0])
            s = self.deref(a[1])
            k = WIDTH[ts[0]]
            buf.b.extend(bytes_of(len(s.bs), k, le))
            buf.b.extend(s.bs)
            return ()
        if base == 'get_string':
            return self.get_str(self.buf_of(a[0]), ts[0], le)
        if base in ('put_char_array', 'put_char_array_with_pad_char'):
            buf = self.buf_of(a[0])
            pad, left = (z3.BitVecVal(0x20, 8), False) if base == 'put_char_array' else (bv(self.bits(a[3], 8), 8), self.cbool(a[4]))
            self.put_fixed(buf, self.deref(a[1]), self.cint(a[2]), pad, left)
            return ()
        if base in ('get_char_array', 'get_char_array_trim_pad_char'):
            buf = self.buf_of(a[0])
            pad, left = (z3.BitVecVal(0x20, 8), False) if base == 'get_char_array' else (bv(self.bits(a[2], 8), 8), self.cbool(a[3]))
            return self.get_fixed(buf, self.cint(a[1]), pad, left)
        if base == 'put_list':
            buf = self.buf_of(a[0])
            v = self.deref(a[1])
            k = WIDTH[ts[0]]
            buf.b.extend(bytes_of(len(v.items), WIDTH[ts[1]], le))
            for x in v.items:
                buf.b.extend(bytes_of(self.bits(x, 8 * k), k, le))
            return ()
        if base == 'get_list':
            buf = self.buf_of(a[0])
            n = self.get_len(buf, ts[1], le)
            if n is None:
                return NONE()
            k = WIDTH[ts[0]]
            out = []
            for _ in range(bound(n)):
                if buf.r + k > len(buf.b):
                    return NONE()
                v = from_bytes(buf.b[buf.r:buf.r + k], le)
                buf.r += k
                out.append(RFloat(v) if ts[0] in ('f32', 'f64') else RInt(v, ts[0]))
            return Some(RVec(out))
        if base == 'put_char_list':
            buf = self.buf_of(a[0])
            v = self.deref(a[1])
            buf.b.extend(bytes_of(len(v.items), WIDTH[ts[0]], le))
            for x in v.items:
                buf.b.append(bv(self.bits(x, 8), 8))
            return ()
        if base == 'get_char_list':
            buf = self.buf_of(a[0])
            n = self.get_len(buf, ts[0], le)
            if n is None:
                return NONE()
            out = []
            for _ in range(bound(n)):
                if buf.r + 1 > len(buf.b):
                    return NONE()
                out.append(RInt(simp(z3.ZeroExt(24, bv(buf.b[buf.r], 8))), 'char'))
                buf.r += 1
            return Some(RVec(out))
        if base == 'put_string_list':
            buf = self.buf_of(a[0])
            v = self.deref(a[1])
            buf.b.extend(bytes_of(len(v.items), WIDTH[ts[0]], le))
            for s in v.items:
                buf.b.extend(bytes_of(len(s.bs), WIDTH[ts[1]], le))
                buf.b.extend(s.bs)
            return ()
        if base == 'get_string_list':
            buf = self.buf_of(a[0])
            n = self.get_len(buf, ts[0], le)
            if n is None:
                return NONE()
            out = []
            for _ in range(bound(n)):
                s = self.get_str(buf, ts[1], le)
                if s.variant == 'None':
                    return NONE()
                out.append(s.f[0])
            return Some(RVec(out))
        if base in ('put_fixed_string_list', 'put_fixed_string_list_with_pad_char'):
            buf = self.buf_of(a[0])
            v = self.deref(a[1])
            pad, left = (z3.BitVecVal(0x20, 8), False) if base == 'put_fixed_string_list' else (bv(self.bits(a[3], 8), 8), self.cbool(a[4]))
            buf.b.extend(bytes_of(len(v.items), WIDTH[ts[0]], le))
            for s in v.items:
                self.put_fixed(buf, s, self.cint(a[2]), pad, left)
            return ()
        if base in ('get_fixed_string_list', 'get_fixed_string_list_trim_pad_char'):
            buf = self.buf_of(a[0])
            pad, left = (z3.BitVecVal(0x20, 8), False) if base == 'get_fixed_string_list' else (bv(self.bits(a[2], 8), 8), self.cbool(a[3]))
            n = self.get_len(buf, ts[0], le)
            if n is None:
                return NONE()
            out = []
            for _ in range(bound(n)):
                s = self.get_fixed(buf, self.cint(a[1]), pad, left)
                if s.variant == 'None':
                    return NONE()
                out.append(s.f[0])
            return Some(RVec(out))
        if base == 'put_object_list':
            buf = self.buf_of(a[0])
            v = self.deref(a[1])
            buf.b.extend(bytes_of(len(v.items), WIDTH[ts[1]], le))
            f = self.enc.get(tyname(ts[0]))
            if f is None:
                raise Unsupported('encode of ' + ts[0])
            for x in v.items:
                self.call_fn(f, [x, a[0]])
            return ()
        if base == 'get_object_list':
            buf = self.buf_of(a[0])
            n = self.get_len(buf, ts[1], le)
            if n is None:
                return NONE()
            f = self.dec.get(tyname(ts[0]))
            if f is None:
                raise Unsupported('decode of ' + ts[0])
            out = []
            for _ in range(bound(n)):
                x = self.call_fn(f, [a[0]])
                if x.variant == 'None':
                    return NONE()
                out.append(x.f[0])
            return Some(RVec(out))
        raise Outcome('error', 'unresolved binary_codec::%s' % meth)

    def cbool(self, v):
        if isinstance(v, bool):
            return v
        raise Unsupported('symbolic bool argument')

    def get_len(self, buf, t, le):
        k = WIDTH[t]
        if buf.r + k > len(buf.b):
            return None
        v = from_bytes(buf.b[buf.r:buf.r + k], le)
        buf.r += k
        c = conc(v)
        if c is None:
            raise Unsupported('symbolic length prefix')
        return c

    def get_str(self, buf, t, le):
        n = self.get_len(buf, t, le)
        if n is None or buf.r + n > len(buf.b):
            return NONE()
        s = RStr(buf.b[buf.r:buf.r + n])
        buf.r += n
        return Some(s)

    def put_fixed(self, buf, s, n, pad, left):
        if len(s.bs) > n:
            raise RPanic('string longer than fixed size')
        p = [pad] * (n - len(s.bs))
        buf.b.extend(p + s.bs if left else s.bs + p)

    def get_fixed(self, buf, n, pad, left):
        if buf.r + n > len(buf.b):
            return NONE()
        bs = buf.b[buf.r:buf.r + n]
        buf.r += n
        return Some(RStr(trim(self.ctl, bs, pad, left)))

    # ------------------------------------------------------------------ API for checks
    def reset(self, ctl, cks_registered, packet):
        self.ctl = ctl
        self.cks_registered = cks_registered
        self.steps = 0
        self.cks_hint = refmod.cks_hints(self.spec, packet)

    def struct_fields(self, packet):
        n = find(list(self.structs), packet.name)
        if n is None:
            raise MissingMember('struct for packet %s' % packet.name)
        if self.structs[n] is None:
            raise Unsupported('two emitted structs are named %s (different modules): not resolved by this front-end' % n)
        return n, self.structs[n]

    def to_lang(self, packet, msg):
        sn, fl = self.struct_fields(packet)
        if len(fl) != len(packet.fields):
            raise MissingMember('packet %s: members %s for fields %s' % (packet.name, [n for n, t in fl], [f.name for f in packet.fields]))
        vals = []
        for f, (fn, ft) in zip(packet.fields, fl):
            sem = self.spec.resolve(f)
            v = msg.v[f.name]
            if f.repeat:
                et = re.match(r'Vec<(.*)>', ft)
                if not et:
                    raise MissingMember('packet %s: the member of repeated field %s is no list (Rust type %s)' % (packet.name, f.name, ft))
                vals.append(RVec([self.elem_to_lang(sem, x, et.group(1) if et else '?') for x in v]))
            else:
                if re.match(r'Vec<', ft):
                    raise MissingMember('packet %s: the member of plain field %s is a list (Rust type %s)' % (packet.name, f.name, ft))
                vals.append(self.elem_to_lang(sem, v, ft))
        return RStruct(sn, vals)

    def elem_to_lang(self, sem, v, ft):
        if sem[0] in ('basic', 'lengthof', 'checksum'):
            if ft in ('f32', 'f64'):
                return RFloat(v)
            if ft == 'char':
                return RInt(simp(z3.ZeroExt(24, v)), 'char')
            if ft in INTW:
                w, sg = INTW[ft]
                if v.size() != w:
                    v = simp((z3.SignExt if sem[1].startswith('i') else z3.ZeroExt)(w - v.size(), v)) if w > v.size() else simp(z3.Extract(w - 1, 0, v))
                return RInt(v, ft)
            raise Unsupported('scalar field with Rust type ' + ft)
        if sem[0] in ('fixed', 'dyn'):
            return RStr(v)
        if sem[0] == 'obj':
            return self.to_lang(sem[1], v)
        if sem[0] == 'match':
            en = tyname(ft)
            vs = self.enums.get(en)
            if vs is None:
                raise MissingMember('enum %s' % en)
            inner = self.to_lang(v.packet, v)
            for vn, vt in vs:
                if norm(tyname(vt)) == norm(v.packet.name):
                    return REnum(en, vn, [inner])
            raise MissingMember('enum %s has no variant for %s' % (en, v.packet.name))
        raise ValueError(sem)

    def run(self, fn):
        try:
            return fn()
        except RPanic as p:
            raise Outcome('panic', p.msg)
        except RecursionError:
            raise Outcome('panic', 'stack overflow')

    def encode(self, ctl, packet, msg, cks_registered=True):
        self.reset(ctl, cks_registered, packet)

        def go():
            o = self.to_lang(packet, msg)
            f = self.enc.get(o.name)
            if f is None:
                raise MissingMember('no encode for %s' % o.name)
            buf = RBuf()
            bref = RRef(lambda: buf, None)
            self.call_fn(f, [RRef(lambda: o, None), bref])
            return buf.b, o
        return self.run(go)

    def decode(self, ctl, packet, data, cks_registered=True):
        self.reset(ctl, cks_registered, packet)

        def go():
            sn, fl = self.struct_fields(packet)
            f = self.dec.get(sn)
            if f is None:
                raise MissingMember('no decode for %s' % sn)
            buf = RBuf(data)
            r = self.call_fn(f, [RRef(lambda: buf, None)])
            if r.variant == 'None':
                raise Outcome('error', 'decode returned None')
            return r.f[0], buf.r
        return self.run(go)

    def reencode(self, ctl, o, cks_registered=True):
        self.ctl = ctl

        def go():
            buf = RBuf()
            self.call_fn(self.enc[o.name], [RRef(lambda: o, None), RRef(lambda: buf, None)])
            return buf.b
        return self.run(go)

    def to_logical(self, packet, o):
        from .compare import LObj
        sn, fl = self.struct_fields(packet)
        if len(fl) != len(packet.fields) or len(o.f) != len(fl):
            raise MissingMember('packet %s: members %s' % (packet.name, [n for n, t in fl]))
        out = {}
        for f, v in zip(packet.fields, o.f):
            out[f.name] = self.val_to_logical(v)
        return LObj(o.name, out)

    def val_to_logical(self, v):
        from .compare import LInt, LBytes, LList, LObj, LFloat, LNull
        v = self.deref(v)
        if isinstance(v, RInt):
            if v.ty == 'char':
                return LInt(v.bv(), False)
            return LInt(v.bv(), INTW[v.ty][1])
        if isinstance(v, RFloat):
            return LFloat(v.bits)
        if isinstance(v, RStr):
            return LBytes(v.bs)
        if isinstance(v, RVec):
            return LList([self.val_to_logical(x) for x in v.items])
        if isinstance(v, RStruct):
            pk = self.packet_of(v.name)
            if pk is None:
                return LObj(v.name, {})
            return self.to_logical(pk, v)
        if isinstance(v, REnum):
            if v.ename == 'Option':
                return LNull() if v.variant == 'None' else self.val_to_logical(v.f[0])
            return self.val_to_logical(v.f[0])
        raise Unsupported('rust value %r' % type(v))

    def packet_of(self, name):
        for pk in all_packets(self.spec):
            if norm(pk.name) == norm(name):
                return pk
        return None


class RInt:
    def __init__(self, v, ty):
        self.ty = ty
        if isinstance(v, int):
            w, sg = (32, False) if ty == 'char' else INTW.get(ty, (64, False))
            v &= (1 << w) - 1
            if sg and v >> (w - 1):
                v -= 1 << w
        self.v = v

    def bv(self):
        w, sg = (32, False) if self.ty == 'char' else INTW[self.ty]
        if isinstance(self.v, int):
            return z3.BitVecVal(self.v & ((1 << w) - 1), w)
        return self.v


BINOPS = {'Add', 'Sub', 'Mul', 'Div', 'Rem', 'BitAnd', 'BitOr', 'BitXor', 'Shl', 'Shr', 'Eq', 'Ne', 'Lt', 'Le', 'Gt', 'Ge',
          'AddWithOverflow', 'SubWithOverflow', 'MulWithOverflow', 'AddUnchecked', 'SubUnchecked', 'MulUnchecked', 'ShlUnchecked', 'ShrUnchecked'}


def balanced(s):
    d = 0
    for c in s:
        if c in '([{':
            d += 1
        elif c in ')]}':
            d -= 1
            if d < 0:
                return False
    return d == 0


def csimp(c):
    c = z3.simplify(c)
    if z3.is_true(c):
        return True
    if z3.is_false(c):
        return False
    return c


def bytes_eq(a, b):
    if len(a) != len(b):
        return False
    cs = [simp(bv(x, 8) == bv(y, 8)) for x, y in zip(a, b)]
    if any(z3.is_false(c) for c in cs):
        return False
    cs = [c for c in cs if not z3.is_true(c)]
    return z3.And(cs) if cs else True


def bound(n):
    from . import core as _core
    if n > _core.LOOP_BOUND[0]:
        raise Outcome('unwind', 'loop bound %d exceeded (list length %d)' % (_core.LOOP_BOUND[0], n))
    return n
