"""Shared symbolic core: bit-vector helpers, byte buffers, path control (fork by
re-execution), outcomes, solver statistics.  Used by every front-end of pipeline A
(emitted code) and by the Go SSA interpreter of pipeline B.
"""
import time, hashlib, json, os
import z3

# ----------------------------------------------------------------------------
# statistics / solver

class Stats:
    def __init__(self):
        self.queries = 0
        self.unsat = 0
        self.sat = 0
        self.unknown = 0
        self.solver_s = 0.0
        self.feas_queries = 0
        self.paths = 0
        self.twins = 0
        self.twins_ok = 0

    def merge(self, o):
        for k, v in o.__dict__.items():
            setattr(self, k, getattr(self, k) + v)

    def as_dict(self):
        d = dict(self.__dict__)
        d['solver_s'] = round(d['solver_s'], 3)
        return d


STATS = Stats()
QUERY_TIMEOUT_MS = 60000
XSAMPLES = []        # (name, smt-lib2 text, z3 verdict) kept for the cross-solver diff
XLIMIT = 0
LOOP_BOUND = [64]    # unwinding bound of list loops in the front-ends (raised for the boundary-long shapes; exceeding it is INCONCLUSIVE(unwind))
_XSEEN = [0]


def is_sym(v):
    return isinstance(v, z3.ExprRef)


def bv(v, w):
    """coerce python int / BV of any width to a BV of width w (truncate / zero-extend)"""
    if isinstance(v, bool):
        v = int(v)
    if isinstance(v, int):
        return z3.BitVecVal(v & ((1 << w) - 1), w)
    if z3.is_bool(v):
        return z3.If(v, z3.BitVecVal(1, w), z3.BitVecVal(0, w))
    s = v.size()
    if s == w:
        return v
    if s < w:
        return z3.ZeroExt(w - s, v)
    return z3.Extract(w - 1, 0, v)


def sbv(v, w):
    """sign-extending coercion"""
    if isinstance(v, int):
        return z3.BitVecVal(v & ((1 << w) - 1), w)
    s = v.size()
    if s == w:
        return v
    if s < w:
        return z3.SignExt(w - s, v)
    return z3.Extract(w - 1, 0, v)


def simp(e):
    return z3.simplify(e) if is_sym(e) else e


def conc(e):
    """return python int if the term is a numeral (after simplification) else None"""
    if isinstance(e, bool):
        return int(e)
    if isinstance(e, int):
        return e
    e = z3.simplify(e)
    if z3.is_bv_value(e):
        return e.as_long()
    if z3.is_true(e):
        return 1
    if z3.is_false(e):
        return 0
    if z3.is_int_value(e):
        return e.as_long()
    return None


def conc_signed(e):
    if isinstance(e, int):
        return e
    e = z3.simplify(e)
    if z3.is_bv_value(e):
        return e.as_signed_long()
    return None


def bytes_of(v, k, le):
    """k bytes (list of BV8 terms) of value v (BV of width 8k or int)"""
    b = bv(v, 8 * k)
    out = [simp(z3.Extract(8 * i + 7, 8 * i, b)) for i in range(k)]
    return out if le else out[::-1]


def from_bytes(bs, le):
    """BV of width 8*len(bs) from a list of byte terms"""
    bs = [bv(x, 8) for x in bs]
    if len(bs) == 1:
        return bs[0]
    order = bs[::-1] if le else bs
    return simp(z3.Concat(*order))


def byte_const(c):
    return z3.BitVecVal(c, 8)


# ----------------------------------------------------------------------------
# outcomes

class Outcome(Exception):
    """non-normal termination of the code under analysis"""
    def __init__(self, kind, detail=''):
        Exception.__init__(self, '%s: %s' % (kind, detail))
        self.kind = kind      # 'error' (reported failure: error return / None / exception),
                              # 'panic' (crash: nil deref, index out of range, abort), 'unwind'
        self.detail = detail


class Unsupported(Exception):
    """front-end met a construct it does not model -> INCONCLUSIVE(front-end), never a violation"""
    pass


class Infeasible(Exception):
    """current path became infeasible"""
    pass


# ----------------------------------------------------------------------------
# path control: fork by re-execution

_INFEASIBLE = object()


class PathCtl:
    """Executes a deterministic function several times; symbolic branch decisions are
    taken from a decision prefix, new ones default to the first feasible side, and
    `explore` enumerates every feasible decision vector (DFS).  The path condition is
    kept in one incremental solver."""

    def __init__(self, assumptions=(), max_paths=256):
        self.assumptions = list(assumptions)
        self.max_paths = max_paths
        self.solver = z3.Solver()
        self.solver.set('timeout', QUERY_TIMEOUT_MS)
        for a in self.assumptions:
            self.solver.add(a)
        self.prefix = []
        self.trace = []     # (n_alternatives_feasible list, chosen index)
        self.pc = []
        self.pinned = {}
        self.spread_for = {}

    deadline = None          # wall-clock limit of the whole exploration (set by the caller); past it the exploration is inconclusive

    def _feasible(self, cond):
        if self.deadline is not None and time.time() > self.deadline:
            raise Unsupported('exploration exceeds its wall-clock budget (path explosion)')
        STATS.feas_queries += 1
        t = time.time()
        self.solver.push()
        self.solver.add(cond)
        r = self.solver.check()
        self.solver.pop()
        STATS.solver_s += time.time() - t
        if r == z3.unknown:
            raise Unsupported('solver unknown on feasibility query')
        return r == z3.sat

    def choose(self, conds):
        """conds: list of z3 Bool terms (mutually exclusive alternatives, not nec. exhaustive).
        Returns index of the alternative taken on this run."""
        feas = [i for i, c in enumerate(conds) if self._feasible(c)]
        if not feas:
            raise Infeasible()
        k = len(self.trace)
        if k < len(self.prefix):
            idx = self.prefix[k]
            if idx not in feas:
                raise Infeasible()
        else:
            idx = feas[0]
        self.trace.append((feas, idx))
        self.solver.add(conds[idx])
        self.pc.append(conds[idx])
        return idx

    def choose_free(self, n, name):
        """n-way choice on a fresh variable (every alternative is feasible by construction: no solver call)"""
        var = z3.Int(name)
        k = len(self.trace)
        if k < len(self.prefix):
            idx = self.prefix[k]
        else:
            idx = 0
        self.trace.append((list(range(n)), idx))
        c = var == idx
        self.solver.add(c)
        self.pc.append(c)
        return idx

    allow_concretise = False     # set by the caller (C02-style cells): see concretise
    concretised = 0
    pinned = {}
    spread_for = {}

    def concretise(self, term, prefer=()):
        """The code under analysis needs a concrete integer (a length to read, a number printed into text) where it holds a
        symbolic one.  Pick a value consistent with the path and pin it: every counterexample found below is genuine, but the
        path no longer covers all values, so the caller must not count the cell as discharged (PathCtl.concretised > 0).
        The value is recorded in the decision trace so that the forks by re-execution see the same one.  A term registered in
        `spread_for` (a literal of the input) forks over its feasible boundary candidates instead of taking one witness."""
        tid = term.get_id()
        if tid in self.pinned:
            return self.pinned[tid]
        if not self.allow_concretise:
            raise Unsupported('symbolic integer where a concrete one is needed')
        val = None
        if tid in self.spread_for:
            pre, cands = self.spread_for[tid]
            cands = list(dict.fromkeys(list(pre) + list(cands)))
            conds = [term == z3.BitVecVal(c, term.size()) for c in cands]
            feas_any = self._feasible(z3.Or(conds))
            if feas_any:
                val = cands[self.choose(conds)]
                self.pinned[tid] = val
                self.concretised += 1
                return val
        k = len(self.trace)
        if k < len(self.prefix):
            val = self.prefix[k]
        else:
            if self.solver.check() != z3.sat:
                raise Unsupported('symbolic integer where a concrete one is needed (no model)')
            m = self.solver.model()
            # prefer a small value: a huge length only produces a short-read error
            val = None
            for cand in tuple(prefer) + (0, 1, 2):
                self.solver.push()
                self.solver.add(term == cand)
                ok = self.solver.check() == z3.sat
                self.solver.pop()
                if ok:
                    val = cand
                    break
            if val is None:
                val = m.eval(term, model_completion=True).as_long()
        self.trace.append(([val], val))
        c = term == z3.BitVecVal(val, term.size())
        self.solver.add(c)
        self.pc.append(c)
        self.concretised += 1
        self.pinned[tid] = val
        return val

    def branch(self, cond):
        """boolean branch; concrete conditions are returned directly"""
        if isinstance(cond, bool):
            return cond
        c = z3.simplify(cond)
        if z3.is_true(c):
            return True
        if z3.is_false(c):
            return False
        return self.choose([c, z3.Not(c)]) == 0

    def assume(self, cond):
        if isinstance(cond, bool):
            if not cond:
                raise Infeasible()
            return
        self.solver.add(cond)
        self.pc.append(cond)

    def explore(self, fn):
        """yield (result_or_exception, path_condition list) for every feasible path of fn(self)"""
        stack = [[]]
        n = 0
        while stack:
            self.prefix = stack.pop()
            self.trace = []
            self.pc = []
            self.pinned = {}
            self.solver.push()
            try:
                try:
                    res = fn(self)
                except Outcome as o:
                    res = o
                except Infeasible:
                    res = _INFEASIBLE
                pc = list(self.pc)
            finally:
                self.solver.pop()
            # schedule siblings
            for k in range(len(self.prefix), len(self.trace)):
                feas, idx = self.trace[k]
                for alt in feas:
                    if alt != idx:
                        stack.append([t[1] for t in self.trace[:k]] + [alt])
            n += 1
            STATS.paths += 1
            if n > self.max_paths:
                raise Unsupported('path budget exceeded (%d)' % self.max_paths)
            if res is _INFEASIBLE:
                continue
            yield res, pc


# ----------------------------------------------------------------------------
# obligations

class Verdict:
    def __init__(self, status, model=None, name='', detail=None):
        self.status = status  # 'unsat' | 'sat' | 'unknown'
        self.model = model
        self.name = name
        self.detail = detail


def check_valid(name, assumptions, goal_negated):
    """decide  assumptions => not goal_negated  (i.e. the query  assumptions /\\ goal_negated)"""
    STATS.queries += 1
    if isinstance(goal_negated, bool):
        if not goal_negated:
            STATS.unsat += 1
            return Verdict('unsat', name=name)
        goal_negated = z3.BoolVal(True)
    g = z3.simplify(goal_negated)
    if z3.is_false(g):
        STATS.unsat += 1
        return Verdict('unsat', name=name)
    s = z3.Solver()
    s.set('timeout', QUERY_TIMEOUT_MS)
    for a in assumptions:
        s.add(a)
    s.add(g)
    t = time.time()
    r = s.check()
    STATS.solver_s += time.time() - t
    if XLIMIT and len(XSAMPLES) < XLIMIT:
        _XSEEN[0] += 1
        if _XSEEN[0] % 7 == 1 or r == z3.sat:
            try:
                XSAMPLES.append((name, s.sexpr(), str(r)))
            except Exception:
                pass
    if r == z3.unsat:
        STATS.unsat += 1
        return Verdict('unsat', name=name)
    if r == z3.sat:
        STATS.sat += 1
        return Verdict('sat', model=s.model(), name=name)
    STATS.unknown += 1
    return Verdict('unknown', name=name)


def vacuity_twin(assumptions):
    """the assumptions alone must be satisfiable (reachability witness)"""
    STATS.twins += 1
    s = z3.Solver()
    s.set('timeout', QUERY_TIMEOUT_MS)
    for a in assumptions:
        s.add(a)
    t = time.time()
    r = s.check()
    STATS.solver_s += time.time() - t
    if r == z3.sat:
        STATS.twins_ok += 1
        return True
    return False


def neq_bytes(a, b):
    """term: byte vectors differ (lengths must be equal)"""
    assert len(a) == len(b)
    ds = []
    for x, y in zip(a, b):
        d = z3.simplify(bv(x, 8) != bv(y, 8))
        if z3.is_true(d):
            return True
        if not z3.is_false(d):
            ds.append(d)
    if not ds:
        return False
    return z3.Or(ds)


def first_diff(a, b, model):
    """index of first differing byte under a model (or None)"""
    for i, (x, y) in enumerate(zip(a, b)):
        xv = model.eval(bv(x, 8), model_completion=True).as_long()
        yv = model.eval(bv(y, 8), model_completion=True).as_long()
        if xv != yv:
            return i, xv, yv
    return None


def eval_bytes(bs, model):
    return bytes(model.eval(bv(x, 8), model_completion=True).as_long() for x in bs)


def sha(s):
    return hashlib.sha1(s.encode() if isinstance(s, str) else s).hexdigest()[:12]


def cross_solve(samples, timeout=300):
    """re-decide sampled obligations with z3 4.8.12 (/usr/bin/z3) and cvc5; returns a summary dict.
    Any '(error' line makes that query inconclusive for that solver; a sat/unsat disagreement is a tool error."""
    import subprocess, shutil
    out = {'queries': len(samples)}
    if not samples:
        return out
    script = []
    for name, smt, verdict in samples:
        script.append('(reset)\n(set-logic ALL)\n%s\n(check-sat)\n(echo "--next--")\n' % smt)
    text = ''.join(script)
    for label, cmd in (('z3_4_8_12', ['/usr/bin/z3', '-in', '-T:%d' % timeout]), ('cvc5', ['cvc5', '--incremental', '--lang=smt2', '--tlimit-per=20000'])):
        if not shutil.which(cmd[0]) and not os.path.exists(cmd[0]):
            out[label] = {'skipped': 'solver not found'}
            continue
        try:
            r = subprocess.run(cmd, input=text, capture_output=True, text=True, timeout=timeout + 60)
        except subprocess.TimeoutExpired:
            out[label] = {'skipped': 'timeout'}
            continue
        chunks = (r.stdout or '').split('--next--')
        agree = disagree = incon = 0
        bad = []
        for (name, smt, verdict), ch in zip(samples, chunks):
            lines = [l.strip() for l in ch.strip().split('\n') if l.strip()]
            if any(l.startswith('(error') for l in lines):
                incon += 1
                continue
            ans = [l for l in lines if l in ('sat', 'unsat', 'unknown')]
            if not ans or ans[-1] == 'unknown' or verdict == 'unknown':
                incon += 1
            elif ans[-1] == verdict:
                agree += 1
            else:
                disagree += 1
                bad.append(name)
        out[label] = {'agree': agree, 'disagree': disagree, 'inconclusive': incon + max(0, len(samples) - len(chunks)), 'disagreeing': bad[:5]}
    return out
