import sys, os, argparse


def main():
    ap = argparse.ArgumentParser()
    ap.add_argument('prop')
    ap.add_argument('--tier', default=os.environ.get('VERIF_TIER') or 'quick')
    ap.add_argument('--update-known', action='store_true')
    ap.add_argument('--replay')
    a = ap.parse_args()
    if a.tier not in ('quick', 'thorough'):
        a.tier = 'quick'
    if a.prop in ('C01', 'C02', 'C03', 'C04', 'C05', 'C06', 'C07', 'C15'):
        from . import checks_a
        if a.replay:
            from . import replay
            sys.exit(replay.main(a.prop, a.replay))
        sys.exit(checks_a.main(a.prop, a.tier, a.update_known))
    from . import checks_b
    sys.exit(checks_b.main(a.prop, a.tier, a.update_known, a.replay))


if __name__ == '__main__':
    main()
