"""Reference wire semantics, written from the property statements and readme.md only
(never from internal/model).  ref_enc gives the canonical byte-term vector of a logical
message, ref_layout the (field path, offset, length) list used by C15."""
import z3
from .core import bytes_of, bv
from .pspec import WIDTH


class RefCtx:
    def __init__(self, spec, cks_registered=True, caller_len=None):
        self.spec = spec
        self.cks_registered = cks_registered
        self.layout = []     # (path, kind, offset, length)


def cks_uf(alg, w, prefix):
    """uninterpreted checksum  ALG_w : bytes^n -> BV(8w); one symbol per (alg, w, n)"""
    n = len(prefix)
    name = 'CKS_%s_%d_%d' % (alg, w, n)
    if n == 0:
        return z3.BitVec(name, 8 * w)
    f = z3.Function(name, *([z3.BitVecSort(8)] * n + [z3.BitVecSort(8 * w)]))
    return f(*[bv(b, 8) for b in prefix])


def cks_hints(spec, packet):
    """result width/signedness of the checksum service an emitted encoder asks for, by algorithm name as written in the
    emitted lookup (the contract types a service by its result type; only C++ spells that type in the emitted code).
    '*' is the fallback for a name the declaration does not mention."""
    h = {'*': (4, False)}
    for f in packet.fields:
        sem = spec.resolve(f)
        if sem[0] == 'checksum':
            v = (WIDTH[sem[1]], sem[1].startswith('i'))
            if '*' not in h or h['*'] == (4, False):
                h['*'] = v
            h.setdefault(sem[2], v)
    return h


def ref_enc(ctx, packet, msg, out=None, path=''):
    """append the encoding of msg (a pspec.Msg of `packet`) to out; returns out"""
    spec = ctx.spec
    le = spec.little()
    if out is None:
        out = []
    # length-of: the target's encoding must be known first -> encode fields in order, patch after
    patches = []
    spans = {}
    for f in packet.fields:
        sem = spec.resolve(f)
        p = path + '.' + f.name
        start = len(out)
        if f.repeat:
            vals = msg.v[f.name]
            out.extend(bytes_of(len(vals), WIDTH[spec.listpfx()], le))
            ctx.layout.append((p + '#count', 'prefix', start, WIDTH[spec.listpfx()]))
            for i, v in enumerate(vals):
                enc_elem(ctx, f, sem, v, out, '%s[%d]' % (p, i))
        elif sem[0] == 'lengthof':
            w = WIDTH[sem[1]]
            patches.append((len(out), w, (sem[2], f.name)))
            out.extend([None] * w)
            ctx.layout.append((p, 'lengthof', start, w))
        elif sem[0] == 'checksum':
            w = WIDTH[sem[1]]
            val = msg.v[f.name]
            # note: a checksum placed after a length-of field sees the final (patched) bytes only
            # if the length is patched before; the family keeps length-of targets before checksums
            patches.append((len(out), w, ('cks', sem[2], val, f.name)))
            out.extend([None] * w)
            ctx.layout.append((p, 'checksum', start, w))
        else:
            enc_elem(ctx, f, sem, msg.v[f.name], out, p)
        spans[f.name] = (start, len(out))
    # resolve patches in order (length first, so that a later checksum covers patched bytes)
    for pos, w, what in patches:
        if isinstance(what, tuple) and what[0] == 'cks':
            _, alg, val, fname = what
            if ctx.cks_registered:
                val = cks_uf(alg, w, list(out[:pos]))
            out[pos:pos + w] = bytes_of(val, w, le)
            msg.wire[fname] = bv(val, 8 * w)
        else:
            a, b = spans[what[0]]
            out[pos:pos + w] = bytes_of(b - a, w, le)
            msg.wire[what[1]] = z3.BitVecVal(b - a, 8 * w)
    return out


def enc_elem(ctx, f, sem, v, out, p):
    spec = ctx.spec
    le = spec.little()
    start = len(out)
    if sem[0] == 'basic':
        out.extend(bytes_of(v, WIDTH[sem[1]], le))
        ctx.layout.append((p, 'basic', start, WIDTH[sem[1]]))
    elif sem[0] == 'fixed':
        n, pad, left = sem[1], sem[2], sem[3]
        padb = [z3.BitVecVal(pad, 8)] * (n - len(v))
        out.extend(padb + list(v) if left else list(v) + padb)
        ctx.layout.append((p, 'fixed', start, n))
    elif sem[0] == 'dyn':
        w = WIDTH[spec.strpfx()]
        out.extend(bytes_of(len(v), w, le))
        out.extend(v)
        ctx.layout.append((p + '#len', 'prefix', start, w))
        ctx.layout.append((p, 'dyn', start + w, len(v)))
    elif sem[0] == 'obj':
        ref_enc(ctx, sem[1], v, out, p)
    elif sem[0] == 'match':
        ref_enc(ctx, v.packet, v, out, p)
    else:
        raise ValueError(sem)
