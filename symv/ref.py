"""Reference wire semantics, written from the property statements and readme.md only
(never from internal/model).  ref_enc gives the canonical byte-term vector of a logical
message, ref_layout the (field path, offset, length) list used by C15."""
import z3
from .core import bytes_of, bv
from .pspec import WIDTH


class RefCtx:
    def __init__(self, spec, cks_registered=True, caller_len=None):
        self.spec = spec
        self.cks_registered = cks_registered
        self.layout = []     # (path, kind, offset, length)


def cks_uf(alg, w, prefix):
    """uninterpreted checksum  ALG_w : bytes^n -> BV(8w); one symbol per (alg, w, n)"""
    n = len(prefix)
    name = 'CKS_%s_%d_%d' % (alg, w, n)
    if n == 0:
        return z3.BitVec(name, 8 * w)
    f = z3.Function(name, *([z3.BitVecSort(8)] * n + [z3.BitVecSort(8 * w)]))
    return f(*[bv(b, 8) for b in prefix])


def cks_hints(spec, packet, h=None, depth=0):
    """result width/signedness of the checksum service an emitted encoder asks for, by algorithm name as written in the
    emitted lookup (the contract types a service by its result type; only C++ spells that type in the emitted code).
    Nested packets (objects, inline objects, match payloads) are included.  '*' is the fallback for a name the declaration
    does not mention."""
    top = h is None
    if top:
        h = {}
    if depth <= 4:
        for f in packet.fields:
            sem = spec.resolve(f)
            if sem[0] == 'checksum':
                v = (WIDTH[sem[1]], sem[1].startswith('i'))
                h.setdefault('*', v)
                h.setdefault(sem[2], v)
            elif sem[0] == 'obj' and sem[1] is not None:
                cks_hints(spec, sem[1], h, depth + 1)
            elif sem[0] == 'match':
                for _, pn in f.pairs:
                    if spec.packet(pn) is not None:
                        cks_hints(spec, spec.packet(pn), h, depth + 1)
    if top:
        h.setdefault('*', (4, False))
    return h


def ref_enc(ctx, packet, msg, out=None, path=''):
    """append the encoding of msg (a pspec.Msg of `packet`) to out; returns out"""
    spec = ctx.spec
    le = spec.little()
    if out is None:
        out = []
    # A length-of field is written as a zero placeholder and back-patched as soon as its target has been written (that is what
    # every emitted encoder does); a checksum is the algorithm's value over the bytes that are in the output buffer when the
    # field is reached - the whole buffer, the enclosing packets' bytes included, with a length field whose target is still
    # being written counting as its zero placeholder.
    pending = {}
    spans = {}
    for f in packet.fields:
        sem = spec.resolve(f)
        p = path + '.' + f.name
        start = len(out)
        if f.repeat:
            vals = msg.v[f.name]
            out.extend(bytes_of(len(vals), WIDTH[spec.listpfx()], le))
            ctx.layout.append((p + '#count', 'prefix', start, WIDTH[spec.listpfx()]))
            for i, v in enumerate(vals):
                enc_elem(ctx, f, sem, v, out, '%s[%d]' % (p, i))
        elif sem[0] == 'lengthof':
            w = WIDTH[sem[1]]
            ctx.layout.append((p, 'lengthof', start, w))
            if sem[2] in spans:
                a0, b0 = spans[sem[2]]
                out.extend(bytes_of(b0 - a0, w, le))
                msg.wire[f.name] = z3.BitVecVal(b0 - a0, 8 * w)
            else:
                pending[sem[2]] = (len(out), w, f.name)
                out.extend([PENDING] * w)
        elif sem[0] == 'checksum':
            w = WIDTH[sem[1]]
            val = msg.v[f.name]
            if ctx.cks_registered:
                val = cks_uf(sem[2], w, [z3.BitVecVal(0, 8) if x is PENDING else x for x in out])
            out.extend(bytes_of(val, w, le))
            msg.wire[f.name] = bv(val, 8 * w)
            ctx.layout.append((p, 'checksum', start, w))
        else:
            enc_elem(ctx, f, sem, msg.v[f.name], out, p)
        spans[f.name] = (start, len(out))
        if f.name in pending:
            pos, w, lname = pending.pop(f.name)
            out[pos:pos + w] = bytes_of(len(out) - start, w, le)
            msg.wire[lname] = z3.BitVecVal(len(out) - start, 8 * w)
    for tgt, (pos, w, lname) in pending.items():
        # target never declared: the placeholder stays
        out[pos:pos + w] = bytes_of(0, w, le)
        msg.wire[lname] = z3.BitVecVal(0, 8 * w)
    return out


class _Pending:
    def __repr__(self):
        return 'PENDING'


PENDING = _Pending()


def enc_elem(ctx, f, sem, v, out, p):
    spec = ctx.spec
    le = spec.little()
    start = len(out)
    if sem[0] == 'basic':
        out.extend(bytes_of(v, WIDTH[sem[1]], le))
        ctx.layout.append((p, 'basic', start, WIDTH[sem[1]]))
    elif sem[0] == 'fixed':
        n, pad, left = sem[1], sem[2], sem[3]
        padb = [z3.BitVecVal(pad, 8)] * (n - len(v))
        out.extend(padb + list(v) if left else list(v) + padb)
        ctx.layout.append((p, 'fixed', start, n))
    elif sem[0] == 'dyn':
        w = WIDTH[spec.strpfx()]
        out.extend(bytes_of(len(v), w, le))
        out.extend(v)
        ctx.layout.append((p + '#len', 'prefix', start, w))
        ctx.layout.append((p, 'dyn', start + w, len(v)))
    elif sem[0] == 'obj':
        ref_enc(ctx, sem[1], v, out, p)
    elif sem[0] == 'match':
        ref_enc(ctx, v.packet, v, out, p)
    else:
        raise ValueError(sem)
