"""Checks C08..C14, C16 (pipeline B): the compiler's own Go code executed by the symbolic
SSA engine on native parse-tree snapshots with symbolic identifier texts, symbolic token
lines, symbolic map-iteration orders, symbolic generator pre-state and environment stubs."""
import os, sys, json, time, hashlib, collections, itertools, multiprocessing, traceback, re
import z3
from . import core, build, symgo, bfamily
from .core import PathCtl, Unsupported, Outcome, check_valid, is_sym, conc
from .gossa import (Machine, Ptr, Cell, Slice, Iface, Closure, GoMap, GoPanic, GoExit, SymName, SymDigits, go_str, cp, MapIter)
from .symgo import (PARSER, MODEL, MOD, GRAMMAR, ANTLR, Snapshot, make_machine, to_pystr, filemap_to_py, TOK_TYPE, TOK_LINE, TOK_TEXT,
                    TOK_INDEX, TOK_CHANNEL, TOK_START, TOK_STOP)

VERIF = build.VERIF
GENS = ['lua', 'rust', 'go', 'java', 'python', 'cpp']      # order of cmd/compile.go
_CTX = {}


class BFinding:
    def __init__(self, prop, locus, tag, symptom, detail='', cex=None):
        self.prop, self.locus, self.tag, self.symptom, self.detail, self.cex = prop, locus, tag, symptom, detail, cex

    def sig(self):
        return '%s|%s|%s|%s' % (self.prop, self.locus, self.tag, self.symptom)

    def as_dict(self):
        return {'property': self.prop, 'locus': self.locus, 'tag': self.tag, 'sig': self.sig(), 'signature': self.sig(), 'detail': self.detail, 'cex': self.cex}


def short_fn(fid):
    s = fid.replace(MOD + '/internal/', '').replace(MOD + '/', '')
    return s


def panic_sym(gp):
    fn = getattr(gp, 'fn', None) or '?'
    if gp.kind in ('stack-overflow', 'fuel'):
        return 'panic:%s' % gp.kind
    return 'panic:%s@%s' % (gp.kind, short_fn(fn))


# ---------------------------------------------------------------------------- symbolic tree decoration

def ident_type(prog):
    g = prog_consts(prog)
    return g['IDENTIFIER']


_CONSTS = {}


def prog_consts(prog):
    """token type numbers from the generated parser (PacketDslParserXXX constants are folded by go/ssa, so read the lexer's symbolic names from source)"""
    if _CONSTS:
        return _CONSTS
    src = open(os.path.join(build.REPO, 'internal', 'grammar', 'packetdsl_parser.go'), errors='replace').read()
    m = re.search(r'const \(\s*PacketDslParserEOF\s*=\s*antlr\.TokenEOF(.*?)\)', src, re.S)
    for mm in re.finditer(r'PacketDslParser(\w+)\s*=\s*(\d+)', m.group(1)):
        _CONSTS[mm.group(1)] = int(mm.group(2))
    return _CONSTS


def decorate(M, snap, sym_lines=False, sym_names=False, text='', sym_digits=False, sym_cols=False):
    """make token lines / identifier texts symbolic.  returns (assumptions, info)"""
    asm = []
    info = {'lines': {}, 'names': {}, 'digits': {}, 'cols': {}}
    toks = []
    st = M.load(snap.stream)
    # CommonTokenStream: channel, fetchedEOF, index, tokenSource, tokens, lazyInit
    sfields = [f['name'] for f in M.p.under(M.p.tid_of(ANTLR + '.CommonTokenStream'))['fields']]
    tl = st[sfields.index('tokens')]
    for it in (tl.items() if tl is not None else []):
        toks.append(it.v.cell)
    consts = prog_consts(M.p)
    if sym_lines is True or sym_lines == 'all':
        prev = None
        for i, c in enumerate(toks):
            bt = c.v[0]
            L = z3.BitVec('line_%d' % i, 64)
            orig = bt[TOK_LINE]
            info['lines'][i] = (L, orig)
            asm.append(L >= 1)
            asm.append(z3.ULT(L, 1 << 20))
            if prev is not None:
                pl, po = prev
                # the lexer hands out non-decreasing lines; tokens on one source line may be split, never reordered
                asm.append(L >= pl)
            prev = (L, orig)
            bt[TOK_LINE] = L
        if sym_cols:
            # the column of every token is a variable as well (below 4096): on one line columns grow by at least the width of the token + 1
            pc_ = None
            for i, c in enumerate(toks):
                bt = c.v[0]
                if bt[TOK_TYPE] == -1:
                    continue
                C = z3.BitVec('col_%d' % i, 64)
                asm.append(C >= 0)
                asm.append(z3.ULT(C, 4096))
                width = max(1, (bt[TOK_STOP] - bt[TOK_START] + 1) if isinstance(bt[TOK_START], int) and isinstance(bt[TOK_STOP], int) else 1)
                if pc_ is not None:
                    asm.append(z3.Implies(info['lines'][i][0] == info['lines'][pc_[0]][0], C >= pc_[1] + pc_[2] + 1))       # at least one blank between two tokens of a line
                info['cols'][i] = (C, bt[symgo.TOK_COLUMN])
                bt[symgo.TOK_COLUMN] = C
                pc_ = (i, C, width)
    elif sym_lines:
        # only the listed tokens float between their neighbours' (concrete) lines
        for i in sorted(sym_lines):
            bt = toks[i].v[0]
            L = z3.BitVec('line_%d' % i, 64)
            orig = bt[TOK_LINE]
            lo = toks[i - 1].v[0][TOK_LINE] if i > 0 else 1
            hi = toks[i + 1].v[0][TOK_LINE] if i + 1 < len(toks) else orig + 1
            lo = lo if isinstance(lo, int) else orig
            hi = hi if isinstance(hi, int) else orig
            lc = consts['LINE_COMMENT']
            if i > 0 and toks[i - 1].v[0][TOK_TYPE] == lc:
                lo = min(lo + 1, orig)      # a line comment ends its line: nothing follows it there
            if bt[TOK_TYPE] == lc and i + 1 < len(toks):
                hi = max(hi - 1, orig)
            info['lines'][i] = (L, orig)
            asm.append(L >= lo)
            asm.append(L <= max(hi, lo))
            bt[TOK_LINE] = L
    if sym_names:
        idt = consts['IDENTIFIER']
        pool = []
        for c in toks:
            bt = c.v[0]
            if bt[TOK_TYPE] == idt:
                s = text_of(bt, text)
                if s not in pool:
                    pool.append(s)
        pool.append('Zz9')
        ids = [M.names.intern(go_str(s)) for s in pool]
        for i, c in enumerate(toks):
            bt = c.v[0]
            if bt[TOK_TYPE] == idt and (sym_names is True or i in sym_names):
                t = z3.Int('name_%d' % i)
                asm.append(z3.Or([t == k for k in ids]))
                bt[TOK_TEXT] = SymName(t, ids, M.names)
                info['names'][i] = (t, text_of_orig(bt, text), bt[TOK_START], bt[TOK_STOP])
    if sym_digits:
        # the size N of a `char[N]` / `zchar[N]` becomes a 64-bit variable (any literal of up to 18 digits)
        for i in sorted(sym_digits):
            bt = toks[i].v[0]
            orig = int(text_of_orig(bt, text))
            v = z3.BitVec('size_%d' % i, 64)
            asm.append(v >= 0)
            asm.append(v < 10 ** 18)
            bt[TOK_TEXT] = SymDigits(v, orig)
            M.ctl.spread_for[v.get_id()] = ((orig,), SIZE_SPREAD)
            info['digits'][i] = (v, orig, bt[TOK_START], bt[TOK_STOP])
    info['tokens'] = toks
    return asm, info


# where the compiler prints N into text the path forks over these boundary values of N (those feasible on the path)
SIZE_SPREAD = (0, 1, 127, 128, 255, 256, 32767, 32768, 65535, 65536, (1 << 31) - 1, 1 << 31, (1 << 32) - 1, 1 << 32, 1 << 48, 10 ** 18 - 1)


def size_tokens(dump, text):
    """indices of the DIGITS tokens that are the size of a fixed string (`char[` N `]`, `zchar[` N `]`)"""
    objs = {o['id']: o for o in dump['objs']}
    st = objs[dump['stream']['p']]
    tl = None
    for f in st['fields']:
        if isinstance(f, dict) and 's' in f:
            tl = objs[f['s']]
    out = []
    prev = None
    for k, it in enumerate((tl.get('items') or []) if tl else []):
        bt = objs[it['v']['p']]['fields'][0]['struct']
        s = text[bt[TOK_START]:bt[TOK_STOP] + 1] if isinstance(bt[TOK_START], int) and bt[TOK_START] >= 0 else ''
        if prev in ('char[', 'zchar[') and s.isdigit():
            out.append(k)
        prev = s
    return out


def render_digits(text, info, model):
    rs = list(text)
    for i, (v, orig, a, b) in sorted(info['digits'].items(), key=lambda e: -e[1][2]):
        rs[a:b + 1] = list(str(model.eval(v, model_completion=True).as_long()))
    return ''.join(rs)


def token_types(dump):
    """token types in token-stream order"""
    objs = {o['id']: o for o in dump['objs']}
    st = objs[dump['stream']['p']]
    # CommonTokenStream fields: channel, fetchedEOF, index, tokenSource, tokens, lazyInit
    tl = None
    for f in st['fields']:
        if isinstance(f, dict) and 's' in f:
            tl = objs[f['s']]
    out = []
    for it in (tl.get('items') or []) if tl else []:
        o = objs[it['v']['p']]
        out.append(o['fields'][0]['struct'][TOK_TYPE])
    return out


def text_of(bt, text):
    return text_of_orig(bt, text)


def text_of_orig(bt, text):
    if isinstance(bt[TOK_TEXT], str) and bt[TOK_TEXT] != '':
        return to_pystr(bt[TOK_TEXT])
    rs = list(text)
    return ''.join(rs[bt[TOK_START]:bt[TOK_STOP] + 1])


def render_names(text, info, model, table):
    """substitute the model's identifier choices into the source text"""
    rs = list(text)
    subs = []
    for i, (t, orig, a, b) in info['names'].items():
        v = model.eval(t, model_completion=True).as_long()
        subs.append((a, b, to_pystr(table.names[v])))
    for a, b, s in sorted(subs, reverse=True):
        rs[a:b + 1] = list(s)
    return ''.join(rs)


EXPLORE_BUDGET_S = {'quick': 90.0, 'thorough': 600.0}


def explore(asm, fn, max_paths=400):
    """all feasible paths of fn; a wall-clock budget per exploration keeps one exploding text from stalling the whole check
    (the text is then inconclusive, the budget is part of the stated bounds)"""
    ctl = PathCtl(asm, max_paths=max_paths)
    t0 = time.time()
    budget = EXPLORE_BUDGET_S.get(os.environ.get('VERIF_TIER_EFFECTIVE', 'quick'), 90.0)
    ctl.deadline = t0 + budget

    def run(c):
        if time.time() - t0 > budget:
            raise Unsupported('exploration exceeds %ds of wall clock (path explosion)' % budget)
        try:
            return ('ok', fn(c))
        except GoPanic as gp:
            return ('panic', gp)
        except GoExit as ge:
            return ('exit', ge.code)
    return ctl, list(ctl.explore(run))


def model_of(asm_pc):
    s = z3.Solver()
    for a in asm_pc:
        s.add(a)
    if s.check() == z3.sat:
        return s.model()
    return None


# ---------------------------------------------------------------------------- model access helpers

def struct_field(M, ptr_or_struct, tname, fname):
    p = M.p
    t = p.TS[tname]
    names = [f['name'] for f in p.under(t['id'])['fields']]
    v = M.load(ptr_or_struct) if isinstance(ptr_or_struct, Ptr) else ptr_or_struct
    return v[names.index(fname)]


def syntax_errors(M, model_ptr):
    """[(line term/int, msg str)] of BinaryModel.SyntaxErrors"""
    se = struct_field(M, model_ptr, MODEL + '.BinaryModel', 'SyntaxErrors')
    out = []
    if se is None:
        return out
    for e in se.items():
        line = struct_field(M, e, MODEL + '.SyntaxError', 'Line')
        msg = struct_field(M, e, MODEL + '.SyntaxError', 'Msg')
        out.append((line, msg))
    return out


# ---------------------------------------------------------------------------- engine validation

def _norm_lines(b):
    if isinstance(b, bytes):
        b = b.decode('utf-8', 'replace')
    b = re.sub(r'Copyright \d+', 'Copyright Y', b)
    return sorted(b.split('\n'))


def validate_native(t, stats, fmt_out=None, diags=None, gens=None):
    """translator validation: what the engine computed for this text on the default path (concrete lines, insertion-order
    maps) is compared with the real code run natively on the same text.  Generated files are compared as multisets of lines
    (the native run iterates maps in Go's random order) with the year stamp masked.  A disagreement never becomes a
    violation: it is reported as an engine-validation failure (inconclusive) and counted in the evidence."""
    try:
        n = symgo.native_run([t.text], orders=[list(gens)] if gens else [], fmt=fmt_out is not None, visit=True, content=True)[0]
    except Exception as e:
        stats.setdefault('validation_failures', []).append('native run failed: %s' % str(e)[:100])
        return
    if n.get('fatal'):
        return

    def note(ok, what):
        stats['validated'] = stats.get('validated', 0) + 1
        if not ok:
            stats.setdefault('validation_failures', []).append(what[:300])
    if fmt_out is not None and not n.get('format_panic'):
        kind, val = fmt_out
        if kind == 'ok':
            note(val == n.get('format'), 'format: engine %r native %r' % (val[:80] if isinstance(val, str) else val, (n.get('format') or '')[:80]))
    if diags is not None and not n.get('panic'):
        want = sorted((int(e[0]), str(e[2])) for e in (n.get('model_errors') or []))
        note(sorted(diags) == want, 'diagnostics: engine %s native %s' % (sorted(diags)[:3], want[:3]))
    if gens:
        gr = (n.get('gens') or [{}])[0]
        if not gr.get('panic'):
            for g, files in gens.items():
                nat = (gr.get('files') or {}).get(g)
                if nat is None or files is None:
                    continue
                ok = set(nat) == set(files) and all(_norm_lines(files[k]) == _norm_lines(nat[k]) for k in files)
                bad = sorted(set(nat) ^ set(files)) or [k for k in files if _norm_lines(files[k]) != _norm_lines(nat[k])]
                note(ok, 'generator %s: files differ from the native run: %s' % (g, bad[:3]))


# ---------------------------------------------------------------------------- C11

def c11_text(t, dump, tier):
    res = []
    stats = {'paths': 0, 'inconclusive': []}
    text = t.text
    if dump.get('panic'):
        res.append(BFinding('C11', 'parse', t.tag, 'panic:native-parser', dump['panic']))
        return res, stats
    prog = symgo.repo_prog()

    def real_entry(c, which):
        # the REAL entry points on the native parse (error-recovered tree + the native error list fed to whatever listener the
        # code installs): parser.FormatPacketDsl, and cmd.Compile with the real parser.ParseFile body (file read from the model
        # file system, listener check, visitor) instead of the parse stub
        from .checks_b2 import install_parse_stubs
        M = make_machine(c)
        snap = Snapshot(prog, dump).load()
        install_parse_stubs(M, snap, dump.get('syntax_errors'), text=text)
        if which == 'format':
            M.call(PARSER + '.FormatPacketDsl', [go_str(text)])
            return 'done'
        M.intr.pop(PARSER + '.ParseFile', None)
        M.env['fs']['in.dsl'] = text.encode()
        M.env['fs_readable'] = True
        M.effects = []
        M.stdout = []
        outs = GoMap()
        for g in GENS:
            outs.set(go_str(g), go_str('/out/' + g))
        M.call(MOD + '/cmd.Compile', [go_str('in.dsl'), outs])
        return 'done'
    if dump.get('syntax_errors'):
        # syntactically invalid input (truncated, garbage, missing separators): the error paths of both entry points
        for which, locus in (('format', 'format'), ('compile', 'cmd:compile')):
            try:
                _, pcs = explore([], lambda c, which=which: real_entry(c, which), 8)
                for (kind, val), pc in pcs:
                    stats['paths'] += 1
                    if kind == 'panic':
                        res.append(BFinding('C11', locus, t.tag, 'error-path:' + panic_sym(val), '%s' % val, {'text': text}))
            except Unsupported as u:
                stats['inconclusive'].append('%s (syntax-error path): %s' % (which, str(u)[:150]))
        return res, stats
    consts = prog_consts(prog)
    ntok = len([o for o in dump['objs'] if o['type'].endswith('.CommonToken')])
    toktypes = token_types(dump)
    comments = [i for i, ty in enumerate(toktypes) if ty == consts['LINE_COMMENT']]
    idents = [i for i, ty in enumerate(toktypes) if ty == consts['IDENTIFIER']]
    # (a) formatter: once with concrete lines, then each comment token floating between its neighbours' lines
    for group in [None] + [[c] for c in comments[:12 if tier == 'quick' else 40]]:
        try:
            def fmt(c, group=group):
                M = make_machine(c)
                snap = Snapshot(prog, dump).load()
                asm, info = decorate(M, snap, sym_lines=set(group) if group else False, text=text)
                for a in asm:
                    c.assume(a)
                return to_pystr(M.call(PARSER + '.VerifFormat', [snap.tree, snap.stream]))
            ctl, paths = explore([], fmt, 64)
            for (kind, val), pc in paths:
                stats['paths'] += 1
                if kind == 'panic':
                    res.append(BFinding('C11', 'format', t.tag, panic_sym(val), '%s' % val, {'text': text}))
            if group is None and len(paths) == 1:
                validate_native(t, stats, fmt_out=paths[0][0])
        except Unsupported as u:
            stats['inconclusive'].append('format: %s' % str(u)[:150])
    # (b) visitor: each identifier token in turn ranges over the identifiers of the text plus a fresh one
    seen = set()
    for tok in [None] + idents[:40 if tier == 'quick' else 200]:
        try:
            holder = {}

            def visit(c, tok=tok):
                M = make_machine(c, fuel=400_000)
                snap = Snapshot(prog, dump).load()
                asm, info = decorate(M, snap, sym_names={tok} if tok is not None else False, text=text)
                holder['info'], holder['M'] = info, M
                for a in asm:
                    c.assume(a)
                m = M.call(PARSER + '.VerifVisit', [snap.tree])
                return len(syntax_errors(M, m))
            ctl, paths = explore([], visit, 64)
            for (kind, val), pc in paths:
                stats['paths'] += 1
                if kind == 'panic':
                    sym = panic_sym(val)
                    if sym in seen:
                        continue
                    seen.add(sym)
                    mdl = model_of(pc)
                    wit = render_names(text, holder['info'], mdl, holder['M'].names) if mdl is not None and holder['info']['names'] else text
                    res.append(BFinding('C11', 'visit', t.tag, sym, '%s' % val, {'text': wit}))
        except Unsupported as u:
            stats['inconclusive'].append('visit: %s' % str(u)[:150])
    # (c) generators on the concrete tree, in the CLI's order, for texts without diagnostics
    try:
        M = make_machine(PathCtl())
        snap = Snapshot(prog, dump).load()
        try:
            m = M.call(PARSER + '.VerifVisit', [snap.tree])
            errs = syntax_errors(M, m)
            nerr = len(errs)
            validate_native(t, stats, diags=[(int(l), to_pystr(x) if isinstance(x, str) else str(x)) for l, x in errs])
        except GoPanic:
            nerr = -1
        if nerr == 0:
            for g in GENS:
                try:
                    M.call(PARSER + '.VerifGenerate', [go_str(g), m])
                    stats['paths'] += 1
                except GoPanic as gp:
                    res.append(BFinding('C11', 'gen:' + g, t.tag, panic_sym(gp), '%s' % gp, {'text': text}))
    except Unsupported as u:
        stats['inconclusive'].append('generate: %s' % str(u)[:150])
    # (c2) the `compile` command itself (cmd.Compile with the file present in the model file system): diagnostics are printed,
    # files are written - nothing of it may crash, for texts with and without diagnostics
    try:
        def cmdrun(c):
            M = make_machine(c)
            snap = Snapshot(prog, dump).load()
            m = M.call(PARSER + '.VerifVisit', [snap.tree])
            M.env['parse_result'] = m
            M.env['fs']['in.dsl'] = text.encode()
            M.env['fs_readable'] = True
            M.effects = []
            M.stdout = []
            outs = GoMap()
            for g in GENS:
                outs.set(go_str(g), go_str('/out/' + g))
            M.call(MOD + '/cmd.Compile', [go_str('in.dsl'), outs])
            return 'done'
        _, pcs = explore([], cmdrun, 8)
        for (kind, val), pc in pcs:
            stats['paths'] += 1
            if kind == 'panic' and 'VerifVisit' not in str(val) and not any(f.locus.startswith(('visit', 'gen:')) for f in res):
                res.append(BFinding('C11', 'cmd:compile', t.tag, panic_sym(val), '%s' % val, {'text': text}))
    except Unsupported as u:
        stats['inconclusive'].append('cmd.Compile: %s' % str(u)[:150])
    # (c3) the same command with the real parser.ParseFile body (not the parse stub)
    try:
        _, pcs = explore([], lambda c: real_entry(c, 'compile'), 8)
        for (kind, val), pc in pcs:
            stats['paths'] += 1
            if kind == 'panic' and not any(f.locus.startswith(('visit', 'gen:', 'cmd:compile')) for f in res):
                res.append(BFinding('C11', 'cmd:compile', t.tag, 'parsefile:' + panic_sym(val), '%s' % val, {'text': text}))
    except Unsupported as u:
        stats['inconclusive'].append('cmd.Compile with the real ParseFile: %s' % str(u)[:150])
    # (d) the size N of each `char[N]` / `zchar[N]` is a 64-bit solver variable: visitor and the six generators run with every
    # comparison / allocation on N decided by z3 over 0 <= N < 10^18; where the code prints N into text the path is pinned to a
    # witness value (counted: those paths cover one value of N each)
    for tok in size_tokens(dump, text)[:2 if tier == 'quick' else 6]:
        try:
            holder = {}

            def sized(c, tok=tok):
                c.allow_concretise = True
                M = make_machine(c, fuel=3_000_000)
                snap = Snapshot(prog, dump).load()
                asm, info = decorate(M, snap, sym_digits={tok}, text=text)
                holder['info'] = info
                for a in asm:
                    c.assume(a)
                m = M.call(PARSER + '.VerifVisit', [snap.tree])
                if len(syntax_errors(M, m)):
                    return 'diagnosed'
                panics = []
                big = False
                for g in GENS:
                    try:
                        M.call(PARSER + '.VerifGenerate', [go_str(g), m])
                    except Unsupported as u:
                        if 'strings.Repeat builds' not in str(u):
                            raise
                        big = True                    # gigabytes of text: this value of N is outside the bound, the other paths go on
                    except GoPanic as gp:
                        panics.append((g, gp))        # each generator is judged on its own: a crash of one does not hide the next
                if panics:
                    return ('panics', panics)
                return 'too-large' if big else 'generated'
            ctl, paths = explore([], sized, 64)
            stats['pinned_size_paths'] = stats.get('pinned_size_paths', 0) + ctl.concretised
            for (kind, val), pc in paths:
                stats['paths'] += 1
                stats['size_paths'] = stats.get('size_paths', 0) + 1
                if kind == 'ok' and val == 'too-large':
                    stats['size_paths_outside_bound'] = stats.get('size_paths_outside_bound', 0) + 1
                plist = [('visit', val)] if kind == 'panic' else (val[1] if kind == 'ok' and isinstance(val, tuple) and val[0] == 'panics' else [])
                for g, gp in plist:
                    sym = 'size:' + g + ':' + panic_sym(gp)
                    if sym in seen:
                        continue
                    seen.add(sym)
                    mdl = model_of(pc)
                    wit = render_digits(text, holder['info'], mdl) if mdl is not None else text
                    res.append(BFinding('C11', 'size', t.tag, g + ':' + panic_sym(gp), '%s' % gp, {'text': wit}))
        except Unsupported as u:
            stats['inconclusive'].append('size: %s' % str(u)[:150])
    return res, stats


def native_compile_crashes(text):
    import tempfile, shutil, subprocess
    binary = build.build_binary()
    d = tempfile.mkdtemp(prefix='zzc11_', dir=build.cache_dir())
    try:
        with open(os.path.join(d, 'a.dsl'), 'w', newline='') as fh:
            fh.write(text)
        args = [binary, 'compile', '-f', os.path.join(d, 'a.dsl')]
        for lang, flag in build.LANG_FLAGS:
            args += [flag, os.path.join(d, 'out_' + lang)]
        r = subprocess.run(args, capture_output=True, text=True, timeout=120, errors='replace')
        crashed = r.returncode not in (0, 1) or 'panic:' in r.stderr or 'fatal error' in r.stderr
        return crashed, 'the real binary exits %d%s' % (r.returncode, ' with a Go panic' if 'panic:' in r.stderr else '')
    except subprocess.TimeoutExpired:
        return True, 'the real binary does not finish within 120 s'
    except Exception as e:
        return False, 'native run failed: %s' % str(e)[:80]
    finally:
        shutil.rmtree(d, ignore_errors=True)


def c11_confirm(findings, tier):
    """replay every witness natively: the real parser/visitor/generators/formatter must panic too"""
    texts = [f['cex']['text'] for f in findings]
    if not texts:
        return {}
    nat = symgo.native_run(texts, orders=[GENS], fmt=True, visit=True)
    out = {}
    for f, n in zip(findings, nat):
        loc = f['locus']
        if loc == 'format':
            ok = bool(n.get('format_panic'))
            what = n.get('format_panic')
        elif loc == 'visit':
            ok = bool(n.get('panic'))
            what = n.get('panic')
        elif loc == 'cmd:compile':
            ok, what = native_compile_crashes(f['cex']['text'])
        elif loc == 'size':
            ok = bool(n.get('panic')) or any(g.get('panic') for g in n.get('gens') or [])
            what = n.get('panic') or [g.get('panic') for g in n.get('gens') or []]
        else:
            ok = any(g.get('panic') for g in n.get('gens') or [])
            what = [g.get('panic') for g in n.get('gens') or []]
        out[f['sig']] = (ok, what)
    return out


# ---------------------------------------------------------------------------- C12

def tok_range_for_lines(info, a, b):
    idx = [i for i, (L, orig) in info['lines'].items() if a <= orig <= b]
    return (min(idx), max(idx)) if idx else None


def ranked_layout(text, info, model):
    """the model's line assignment as a text whose line numbers are the ranks of the model's line values (one line break per
    rank step); returns (text, {model line value: 1-based line in the text})"""
    vals = {}
    for i, c in enumerate(info['tokens']):
        bt = c.v[0]
        if bt[TOK_TYPE] == -1 or i not in info['lines']:
            continue
        vals[i] = model.eval(info['lines'][i][0], model_completion=True).as_long()
    rank = {v: k + 1 for k, v in enumerate(sorted(set(vals.values())))}
    out, cur = [], 1
    for i in sorted(vals):
        bt = info['tokens'][i].v[0]
        s = text[bt[symgo.TOK_START]:bt[symgo.TOK_STOP] + 1]
        r = rank[vals[i]]
        if r != cur:
            out.append('\n' * (r - cur))
            cur = r
        elif out:
            out.append(' ')
        out.append(s)
    return ''.join(out) + '\n', rank


def c12_text(t, dump, tier):
    res = []
    stats = {'paths': 0, 'inconclusive': []}
    if dump.get('panic') or dump.get('syntax_errors'):
        return res, stats
    if not t.faults and not t.wellformed:
        return res, stats          # neither clearly ill-formed (by the listed classes) nor built from documented constructs only
    prog = symgo.repo_prog()
    holder = {}

    def visit(c):
        M = make_machine(c)
        snap = Snapshot(prog, dump).load()
        asm, info = decorate(M, snap, sym_lines=True, text=t.text)
        holder['info'], holder['M'] = info, M
        for a in asm:
            c.assume(a)
        m = M.call(PARSER + '.VerifVisit', [snap.tree])
        errs = syntax_errors(M, m)
        # the CLI wrapper: refuse to generate when diagnostics exist
        M.env['parse_result'] = m
        M.effects = []
        M.stdout = []
        outs = GoMap()
        # which targets are requested is a choice of the path: all six, none at all (compile used as a pure checker), one only
        sel = c.choose_free(3, 'outsel') if t.faults else 0
        holder['sel'] = sel
        for g in (('lua', 'rust', 'go', 'java', 'python', 'cpp'), (), ('python',))[sel]:
            outs.set(go_str(g), go_str('/out/' + g))
        try:
            err = M.call(MOD + '/cmd.Compile', [go_str('in.dsl'), outs])
        except GoPanic:
            err = 'PANIC'            # the crash itself is C11's subject; whether the offence was diagnosed is still decided below
        return errs, err, list(M.effects), ''.join(M.stdout)
    try:
        ctl, paths = explore([], visit, 64)
    except Unsupported as u:
        stats['inconclusive'].append('visit: %s' % str(u)[:150])
        return res, stats
    for (kind, val), pc in paths:
        stats['paths'] += 1
        if kind != 'ok':
            continue                     # crashes belong to C11
        errs, cerr, effects, out = val
        info = holder['info']
        if t.wellformed and not t.faults:
            if errs:
                res.append(BFinding('C12', 'visit', t.tag, 'diag-spurious', 'well-formed text rejected: %s' % [to_pystr(m) if isinstance(m, str) else '?' for _, m in errs][:2],
                                    {'text': t.text}))
            elif cerr is not None and cerr != 'PANIC':
                res.append(BFinding('C12', 'cmd:Compile', t.tag, 'compile-error', 'well-formed text: Compile returns %s' % symgo.err_text(holder['M'], cerr), {'text': t.text}))
            continue
        # ill-formed: every listed fault needs a diagnostic on a line of the offending declaration, for EVERY line layout
        if not errs:
            res.append(BFinding('C12', 'visit', t.tag, 'diag-missing:' + '+'.join(sorted(set(c for c, _, _ in t.faults))),
                                'ill-formed text accepted without diagnostic (%s)' % t.faults, {'text': t.text}))
            continue
        for cls, a, b in t.faults:
            rng = tok_range_for_lines(info, a, b)
            if rng is None:
                continue
            lo, hi = info['lines'][rng[0]][0], info['lines'][rng[1]][0]
            inside = []
            for line, msg in errs:
                lt = line if is_sym(line) else z3.BitVecVal(line, 64)
                inside.append(z3.And(lt >= lo, lt <= hi))
            v = check_valid('C12:line', pc, z3.Not(z3.Or(inside)))
            if v.status == 'sat':
                lines_concrete = [(v.model.eval(l if is_sym(l) else z3.BitVecVal(l, 64), model_completion=True).as_long()) for l, _ in errs]
                try:
                    lay, rank = ranked_layout(t.text, info, v.model)
                    span = [rank[v.model.eval(lo, model_completion=True).as_long()], rank[v.model.eval(hi, model_completion=True).as_long()]]
                except Exception:
                    lay, span = None, None
                res.append(BFinding('C12', 'visit', t.tag, 'diag-line:' + cls,
                                    'fault %s at source lines %d..%d: diagnostics are attributed to lines %s under a layout where the declaration spans %s..%s' % (
                                        cls, a, b, lines_concrete, v.model.eval(lo, model_completion=True), v.model.eval(hi, model_completion=True)),
                                    {'text': t.text, 'relayout': lay, 'span': span}))
            elif v.status == 'unknown':
                stats['inconclusive'].append('solver unknown')
        # refusal: error returned, nothing written
        if cerr == 'PANIC':
            continue
        if cerr is None:
            res.append(BFinding('C12', 'cmd:Compile', t.tag, 'no-refusal', 'diagnostics exist but Compile returns nil (requested targets: %s)' % (('all six', 'none', 'python only')[holder.get('sel', 0)]),
                                {'text': t.text, 'targets': [['lua', 'rust', 'go', 'java', 'python', 'cpp'], [], ['python']][holder.get('sel', 0)]}))
        if any(e[0] in ('WriteFile', 'Create', 'Write', 'MkdirAll') for e in effects):
            res.append(BFinding('C12', 'cmd:Compile', t.tag, 'writes-on-error', 'files are written although diagnostics exist: %s' % effects[:3], {'text': t.text}))
    # the same faults in a file with CRLF line endings, read the way the CLI reads it (the repository's own file reader):
    # the line a diagnostic names is the line an editor shows, CRLF being one line break
    if t.faults:
        try:
            d2 = symgo.native_dump([t.text.replace('\n', '\r\n')], via_file=True)[0]
            if not d2.get('panic') and not d2.get('syntax_errors'):
                M = make_machine(PathCtl())
                snap = Snapshot(prog, d2).load()
                m = M.call(PARSER + '.VerifVisit', [snap.tree])
                got = [int(l) for l, _ in syntax_errors(M, m) if not is_sym(l)]
                stats['paths'] += 1
                for cls, a, b in t.faults:
                    if got and not any(a <= g <= b for g in got):
                        res.append(BFinding('C12', 'visit', t.tag, 'diag-line-crlf:' + cls,
                                            'the same text saved with CRLF line endings: fault %s at source lines %d..%d is reported at lines %s' % (cls, a, b, got[:4]),
                                            {'text': t.text.replace('\n', '\r\n'), 'line_endings': 'CRLF'}))
        except (Unsupported, GoPanic) as u:
            stats['inconclusive'].append('crlf variant: %s' % str(u)[:120])
    return res, stats


# ---------------------------------------------------------------------------- C13

def c13_text(t, dump, tier):
    res = []
    stats = {'paths': 0, 'inconclusive': []}
    if dump.get('panic') or dump.get('syntax_errors'):
        return res, stats
    prog = symgo.repo_prog()
    bases = {}
    for g in GENS:
        outputs = {}
        sites_seen = {}

        def run(c, g=g):
            M = make_machine(c)
            snap = Snapshot(prog, dump).load()
            site_n = collections.Counter()

            state = {'deviated': False}

            def order_hook(M_, entries, ins, fr):
                site = range_site(fr.fn, ins)
                site_n[site] += 1
                n = len(entries)
                if n > 8:
                    raise Unsupported('map with %d entries iterated (bound 8)' % n)
                if state['deviated']:
                    return entries          # one deviation per path: every single range order is varied independently
                if n <= 4:
                    perms = list(itertools.permutations(range(n)))
                else:
                    # larger maps: identity, reversal, rotation and every adjacent transposition
                    ident = list(range(n))
                    perms = [tuple(ident), tuple(reversed(ident)), tuple(ident[1:] + ident[:1])]
                    for i in range(n - 1):
                        q = list(ident)
                        q[i], q[i + 1] = q[i + 1], q[i]
                        perms.append(tuple(q))
                k = c.choose_free(len(perms), 'order@%s#%d' % (site, site_n[site]))
                if k != 0:
                    state['deviated'] = True
                return [entries[i] for i in perms[k]]
            M.map_order_hook = order_hook
            M.env['sym_clock'] = True
            m = M.call(PARSER + '.VerifVisit', [snap.tree])
            if syntax_errors(M, m):
                return None
            r = M.call(PARSER + '.VerifGenerate', [go_str(g), m])
            return filemap_to_py(M, r[0])
        try:
            ctl, paths = explore([], run, 256 if tier == 'quick' else 2048)
        except Unsupported as u:
            stats['inconclusive'].append('%s: %s' % (g, str(u)[:150]))
            continue
        base = None
        causes = {}
        for (kind, val), pc in paths:
            stats['paths'] += 1
            if kind != 'ok' or val is None:
                continue
            dev = [str(a).replace('\n', ' ') for a in pc if not str(a).replace('\n', ' ').endswith('== 0')]
            if not dev:
                base = val
                bases[g] = val
                continue
            if base is None:
                continue
            if val != base:
                names = sorted(k for k in set(base) | set(val) if base.get(k) != val.get(k))
                for d in dev:
                    cause = 'clock' if d.startswith('clock') else 'map-order@' + d.split('@')[1].split('#')[0]
                    causes.setdefault(cause, (names, d))
        for cause, (names, d) in causes.items():
            res.append(BFinding('C13', 'gen:' + g, t.tag, 'nondet:' + cause[:160],
                                'two runs give different output for %s (choice: %s), e.g. text %s' % (names[:3], d, t.tag), {'text': t.text, 'files': names[:5]}))
    if bases and t.tag != 'p:snake_collide':
        validate_native(t, stats, gens=bases)
    # "the same set of files": compiling a second time into the directories the first run filled must leave exactly the
    # first run's files (default map order both times; the second process finds the first one's files, newer than the DSL)
    if bases and (tier == 'thorough' or t.tag.startswith(('g:', 'a:combined', 'a:match_two', 'a:idents'))):
        try:
            fss = []
            prev = None
            for rnd in (1, 2):
                M = make_machine(PathCtl())
                snap = Snapshot(prog, dump).load()
                m = M.call(PARSER + '.VerifVisit', [snap.tree])
                if syntax_errors(M, m):
                    break
                M.env['parse_result'] = m
                M.env['fs_readable'] = True
                if prev is not None:
                    M.env['fs'].update(prev)
                M.effects = []
                M.stdout = []
                outs = GoMap()
                for g in GENS:
                    outs.set(go_str(g), go_str('/out/' + g))
                err = M.call(MOD + '/cmd.Compile', [go_str('in.dsl'), outs])
                if err is not None:
                    break
                prev = dict(M.env['fs'])
                fss.append(prev)
            stats['paths'] += len(fss)
            if len(fss) == 2 and fss[0] != fss[1]:
                extra = sorted(set(fss[1]) - set(fss[0]))
                miss = sorted(set(fss[0]) - set(fss[1]))
                diff = sorted(k for k in set(fss[0]) & set(fss[1]) if fss[0][k] != fss[1][k])
                res.append(BFinding('C13', 'cmd:compile', t.tag, 'nondet:recompile-' + ('extra-files' if extra else 'missing-files' if miss else 'bytes'),
                                    'compiling twice into the same directories: second run leaves extra %s, removes %s, changes %s' % (
                                        [re.sub(r'RND\d+', 'RND', x) for x in extra[:3]], miss[:3], diff[:3]), {'text': t.text}))
        except GoPanic:
            pass
        except Unsupported as u:
            stats['inconclusive'].append('recompile: %s' % str(u)[:150])
    # two schedules of the goroutines the compile command may start (a spawned goroutine runs at once / only when the others
    # block): files and verdict must not depend on the schedule.  Without go statements both runs are the same run.
    if t.tag.startswith(('g:', 'a:combined0', 'a:match_two', 'w:rootless', 'w:diamond')) or tier == 'thorough':
        try:
            obs = []
            for pol in ('eager', 'deferred'):
                M = make_machine(PathCtl())
                snap = Snapshot(prog, dump).load()
                m = M.call(PARSER + '.VerifVisit', [snap.tree])
                if syntax_errors(M, m):
                    break
                M.env['parse_result'] = m
                M.env['gor_policy'] = pol
                M.effects = []
                M.stdout = []
                outs = GoMap()
                for g in GENS:
                    outs.set(go_str(g), go_str('/out/' + g))
                try:
                    err = M.call(MOD + '/cmd.Compile', [go_str('in.dsl'), outs])
                finally:
                    M.gor_killall()
                obs.append((err is None, dict(M.env['fs'])))
            stats['paths'] += len(obs)
            if len(obs) == 2 and obs[0] != obs[1]:
                only = sorted(set(obs[0][1]) ^ set(obs[1][1]))
                res.append(BFinding('C13', 'cmd:compile', t.tag, 'nondet:goroutine-schedule',
                                    'the files compile leaves behind depend on the schedule of its goroutines: %d files with one schedule, %d with another (e.g. %s); verdicts %s / %s' % (
                                        len(obs[0][1]), len(obs[1][1]), only[:3], obs[0][0], obs[1][0]), {'text': t.text}))
        except GoPanic:
            pass
        except Unsupported as u:
            stats['inconclusive'].append('schedules: %s' % str(u)[:150])
    return res, stats


# ---------------------------------------------------------------------------- C14

_RANGE_IDX = {}


def permuting_order_hook(c, state):
    """map_order_hook that makes the order of every executed map range a choice of the path (all permutations up to 4 entries,
    identity / reversal / rotation / adjacent transpositions above), one deviation per path; state['deviated'] tells whether
    this path iterates some map in another order than insertion order"""
    site_n = collections.Counter()

    def order_hook(M_, entries, ins, fr):
        site = range_site(fr.fn, ins)
        site_n[site] += 1
        n = len(entries)
        if n > 8:
            raise Unsupported('map with %d entries iterated (bound 8)' % n)
        if state.get('deviated'):
            return entries
        if n <= 4:
            perms = list(itertools.permutations(range(n)))
        else:
            ident = list(range(n))
            perms = [tuple(ident), tuple(reversed(ident)), tuple(ident[1:] + ident[:1])]
            for i in range(n - 1):
                q = list(ident)
                q[i], q[i + 1] = q[i + 1], q[i]
                perms.append(tuple(q))
        k = c.choose_free(len(perms), 'order@%s#%d' % (site, site_n[site]))
        if k != 0:
            state['deviated'] = True
        return [entries[i] for i in perms[k]]
    return order_hook


def range_site(fn, ins):
    """stable name of a map-range site: function + ordinal of the Range instruction inside it"""
    key = fn['id']
    lst = _RANGE_IDX.get(key)
    if lst is None:
        lst = _RANGE_IDX[key] = [id(i) for b in fn['blocks'] for i in b['instrs'] if i['op'] == 'Range']
    try:
        k = lst.index(id(ins))
    except ValueError:
        k = -1
    return '%s/range%d' % (short_fn(key), k)


def reachable_cells(M, root):
    seen = {}
    stack = [root]
    while stack:
        v = stack.pop()
        if isinstance(v, Ptr):
            if id(v.cell) not in seen:
                seen[id(v.cell)] = v.cell
                stack.append(v.cell.v)
        elif isinstance(v, Slice):
            if id(v.cell) not in seen:
                seen[id(v.cell)] = v.cell
                stack.append(v.cell.v)
        elif isinstance(v, GoMap):
            if id(v) not in seen:
                seen[id(v)] = v
                for k, x in v.d.values():
                    stack.append(k)
                    stack.append(x)
        elif isinstance(v, Iface):
            stack.append(v.v)
        elif isinstance(v, list):
            stack.extend(v)
        elif isinstance(v, tuple):
            stack.extend(v)
    return seen


def snapshot_values(cells):
    import copy
    out = {}
    for k, c in cells.items():
        if isinstance(c, GoMap):
            out[k] = [(repr_key(e[0]), shallow(e[1])) for e in c.d.values()]
        else:
            out[k] = shallow(c.v)
    return out


def repr_key(k):
    return repr(k)


def shallow(v):
    if isinstance(v, list):
        return [shallow(x) for x in v]
    if isinstance(v, Ptr):
        return ('P', id(v.cell), v.path)
    if isinstance(v, Slice):
        return ('S', id(v.cell), v.off, v.len)
    if isinstance(v, GoMap):
        return ('M', id(v))
    if isinstance(v, Iface):
        return ('I', v.t, shallow(v.v))
    if isinstance(v, Closure):
        return ('F', v.fid)
    return v


def c14_text(t, dump, tier):
    """one inductive step per generator: running G on the parsed model must not change any object that existed
    before the call (frame); a frame violation is then composed into a concrete interference witness"""
    res = []
    stats = {'paths': 0, 'inconclusive': []}
    if dump.get('panic') or dump.get('syntax_errors'):
        return res, stats
    prog = symgo.repo_prog()
    frame_breakers = {}
    model_breakers = set()
    alone = {}
    for g in GENS:
        try:
            M = make_machine(PathCtl())
            snap = Snapshot(prog, dump).load()
            m = M.call(PARSER + '.VerifVisit', [snap.tree])
            if syntax_errors(M, m):
                return res, stats
            # package-level state of the repository and of the libraries it calls is part of the frame: globals are
            # created on first touch by the engine, so touch every declared one before the snapshot
            for gd in prog.D['globals']:
                if not gd['id'].endswith('init$guard'):
                    M.gptr(gd['id'], gd['t'])
            cells = reachable_cells(M, [m] + [g for name, g in sorted(M.globals.items()) if not name.endswith('init$guard')])
            model_cells = set(reachable_cells(M, [m]))
            before = snapshot_values(cells)
            r = M.call(PARSER + '.VerifGenerate', [go_str(g), m])
            alone[g] = filemap_to_py(M, r[0])
            after = snapshot_values(cells)
            stats['paths'] += 1
            changed = [k for k in before if before[k] != after[k]]
            if changed:
                tags = sorted(set(describe_cell(M, cells[k], before[k], after[k]) for k in changed))
                frame_breakers[g] = tags
                if any(k in model_cells for k in changed):
                    model_breakers.add(g)
        except GoPanic:
            continue
        except Unsupported as u:
            stats['inconclusive'].append('%s: %s' % (g, str(u)[:150]))
    # composition: G1 then G2 on one model vs G2 alone
    for g1, tags in frame_breakers.items():
        hit = False
        for g2 in GENS:
            if g2 == g1 or g2 not in alone:
                continue
            try:
                M = make_machine(PathCtl())
                snap = Snapshot(prog, dump).load()
                m = M.call(PARSER + '.VerifVisit', [snap.tree])
                M.call(PARSER + '.VerifGenerate', [go_str(g1), m])
                r = M.call(PARSER + '.VerifGenerate', [go_str(g2), m])
                both = filemap_to_py(M, r[0])
                stats['paths'] += 1
            except (GoPanic, Unsupported):
                continue
            if both != alone[g2]:
                hit = True
                names = sorted(k for k in set(both) | set(alone[g2]) if both.get(k) != alone[g2].get(k))
                res.append(BFinding('C14', '%s>%s' % (g1, g2), t.tag, 'interference:' + ';'.join(tags)[:100],
                                    'output of %s differs when %s ran first on the same model (files %s); %s rewrote %s' % (g2, g1, names[:3], g1, tags),
                                    {'text': t.text, 'first': g1, 'second': g2}))
        if not hit and g1 in model_breakers:
            # (a change confined to package-level state that no other generator's output depends on for this text is not a violation)
            res.append(BFinding('C14', g1, t.tag, 'frame:' + ';'.join(tags)[:100],
                                'generator %s modifies the parsed model (%s); no other generator\'s output changes for this text' % (g1, tags), {'text': t.text, 'first': g1}))
    if t.tag.startswith(INVOKE_TAGS) or tier == 'thorough':
        c14_invocation(t, dump, tier, res, stats)
    return res, stats


INVOKE_TAGS = ('g:', 'a:combined0', 'a:match_two', 'a:objs_None_None', 'a:fixed_attr0', 'a:idents', 'p:many', 'p:oneline', 'f:match_list', 'f:inline_rep', 'f:meta_u8')
# CLI order of the targets inside cmd.Compile (the engine's GENS names)
LAYOUTS = {
    'own': lambda g: '/out/' + g,
    # every target's directory lies inside the directory of the target that runs after it (and the last one holds them all)
    'nested': lambda g: '/o' + ''.join('/' + x for x in reversed(GENS[GENS.index(g):])),
    'same': lambda g: '/out/all',
}


def c14_invocation(t, dump, tier, res, stats):
    """the property at the level of one invocation: cmd.Compile (the real wrapper and WriteCodeToFile, file system behind the
    engine's model) with ONE target requested vs ALL SIX requested - every file the single-target run leaves must be there,
    byte for byte, after the six-target run; for three layouts of the output directories (separate, nested, one shared).
    A target that refuses the program (no root packet) must not take the files of the accepting targets away."""
    prog = symgo.repo_prog()

    def compile_run(sub, dirof):
        def run(c):
            M = make_machine(c)
            snap = Snapshot(prog, dump).load()
            m = M.call(PARSER + '.VerifVisit', [snap.tree])
            M.env['parse_result'] = m
            M.env['fs_readable'] = True
            M.effects = []
            M.stdout = []
            outs = GoMap()
            for g in GENS:
                outs.set(go_str(g), go_str(dirof(g)) if g in sub else '')
            err = M.call(MOD + '/cmd.Compile', [go_str('in.dsl'), outs])
            return (err is None), dict(M.env['fs'])
        ctl, paths = explore([], run, 8)
        vals = [v for (k, v), pc in paths if k == 'ok']
        stats['paths'] += len(paths)
        return vals[0] if len(vals) == 1 else None
    for lay, dirof in LAYOUTS.items():
        try:
            alone = {}
            for g in GENS:
                alone[g] = compile_run((g,), dirof)
            accept = [g for g in GENS if alone[g] is not None and alone[g][0]]
            refuse = [g for g in GENS if alone[g] is not None and not alone[g][0]]
            if not accept:
                continue
            if lay == 'same':
                # two targets writing a file of the same name into one directory: no claim
                names = collections.Counter(p for g in accept for p in alone[g][1])
                if any(n > 1 for n in names.values()):
                    continue
            combos = [tuple(accept)] if len(accept) > 1 else []
            # an accepting target together with one refusing target that runs BEFORE it / AFTER it
            for g in accept[:2]:
                for r_ in refuse[:2]:
                    combos.append(tuple(sorted((g, r_), key=GENS.index)))
            for sub in combos:
                both = compile_run(sub, dirof)
                if both is None:
                    continue
                for g in sub:
                    if g not in accept:
                        continue
                    bad = [p for p, data in sorted(alone[g][1].items()) if both[1].get(p) != data]
                    if bad:
                        refusers = [x for x in sub if x in refuse]
                        kind = 'refuser-%s' % ('before' if GENS.index(refusers[0]) < GENS.index(g) else 'after') if refusers else 'files'
                        res.append(BFinding('C14', 'invoke:' + g, t.tag, 'invocation:%s:%s' % (lay, kind),
                                            'compile with targets %s (directories: %s): %s of the %d files that target %s writes when requested alone are %s' % (
                                                '+'.join(sub), lay, len(bad), len(alone[g][1]), g, 'missing' if both[1].get(bad[0]) is None else 'different'),
                                            {'text': t.text, 'targets': list(sub), 'alone': g, 'layout': lay, 'dirs': {x: dirof(x) for x in sub}, 'file': bad[0]}))
        except Unsupported as u:
            stats['inconclusive'].append('invocation[%s]: %s' % (lay, str(u)[:150]))
        except (GoPanic, GoExit):
            pass


def describe_cell(M, cell, before, after):
    if isinstance(cell, GoMap):
        return 'map'
    tag = getattr(cell, 'tag', None) or ''
    if tag.startswith('global:'):
        return 'package state ' + tag[7:].split('/')[-1]
    if isinstance(before, list) and isinstance(after, list) and len(before) == len(after):
        idx = [i for i, (a, b) in enumerate(zip(before, after)) if a != b]
        # try to name the struct by its shape
        for tn in (MODEL + '.Padding', MODEL + '.Configuration', MODEL + '.Field', MODEL + '.Packet', MODEL + '.BinaryModel',
                   MODEL + '.FixedStringFieldAttribute', MODEL + '.ObjectFieldAttribute', MODEL + '.MatchFieldAttribute'):
            t = M.p.TS.get(tn)
            if t and len(M.p.under(t['id'])['fields']) == len(before) and compatible(M, t, before):
                names = [M.p.under(t['id'])['fields'][i]['name'] for i in idx]
                return '%s.%s' % (tn.split('.')[-1], '+'.join(names))
        return 'slice-or-struct[%s]' % ','.join(map(str, idx[:3]))
    return tag or 'cell'


def compatible(M, t, vals):
    fs = M.p.under(t['id'])['fields']
    for f, v in zip(fs, vals):
        k = M.p.kind(f['type'])
        if k == 'basic':
            b = M.p.under(f['type'])['basic']
            if 'string' in b and not isinstance(v, str):
                return False
            if 'bool' in b and not isinstance(v, bool):
                return False
            if ('int' in b) and (isinstance(v, bool) or not isinstance(v, int)):
                return False
        elif k in ('ptr', 'slice', 'map', 'iface') and isinstance(v, (str, bool, int)) and v is not None:
            return False
    return True


# ---------------------------------------------------------------------------- stubs for cmd

def install_cmd_stubs(M):
    def parse_file(M_, a):
        r = M_.env.get('parse_result')
        if r is None:
            return (None, symgo.mkerr('could not read file'))
        return (Iface(M_.p.tid_of('*' + MODEL + '.BinaryModel'), r), None)
    M.intr[PARSER + '.ParseFile'] = parse_file

    def mkdirall(M_, a):
        M_.effects.append(('MkdirAll', to_pystr(a[0])))
        return M_.env.get('mkdir_err')
    M.intr['os.MkdirAll'] = mkdirall

    def create(M_, a):
        M_.effects.append(('Create', to_pystr(a[0])))
        e = M_.env.get('create_err')
        if e is not None:
            return (None, e)
        f = Ptr(Cell([to_pystr(a[0])], tag='os.File'))
        M_.fs_truncate(to_pystr(a[0]))
        return (f, None)
    M.intr['os.Create'] = create

    def openfile(M_, a):
        flags = a[1]
        M_.effects.append(('OpenFile', to_pystr(a[0]), flags))
        f = Ptr(Cell([to_pystr(a[0])], tag='os.File'))
        O_TRUNC, O_APPEND = 0x200, 0x400
        if flags & O_TRUNC:
            M_.fs_truncate(to_pystr(a[0]))
        M_.env.setdefault('append', {})[to_pystr(a[0])] = bool(flags & O_APPEND)
        return (f, None)
    M.intr['os.OpenFile'] = openfile

    def fwrite(M_, a):
        name = M_.load(a[0])[0]
        data = bytes(a[1].items()) if a[1] is not None else b''
        M_.effects.append(('Write', name, data))
        M_.fs_write(name, data)
        e = M_.env.get('write_err')
        return (len(data), e)
    M.intr['(*os.File).Write'] = fwrite
    M.intr['(*os.File).WriteString'] = lambda M_, a: fwrite(M_, [a[0], M_.mkslice([ord(c) for c in a[1]])])
    M.intr['(*os.File).Close'] = lambda M_, a: None

    def writefile(M_, a):
        data = bytes(a[1].items()) if a[1] is not None else b''
        M_.effects.append(('WriteFile', to_pystr(a[0]), data))
        M_.fs_truncate(to_pystr(a[0]))
        M_.fs_write(to_pystr(a[0]), data)
        return M_.env.get('writefile_err')
    M.intr['os.WriteFile'] = writefile

    def readfile(M_, a):
        M_.effects.append(('ReadFile', to_pystr(a[0])))
        r = M_.env.get('readfile')
        if r is None and to_pystr(a[0]) in M_.env.get('fs', {}) and M_.env.get('fs_readable'):
            r = M_.env['fs'][to_pystr(a[0])]
        if r is None:
            return (None, symgo.mkerr('open %s: no such file or directory' % to_pystr(a[0])))
        return (M_.mkslice(list(r)), None)
    M.intr['os.ReadFile'] = readfile
    fs = M.env.setdefault('fs', {})
    pos = {}

    def fs_truncate(name):
        fs[name] = b''
        pos[name] = 0
    def fs_write(name, data):
        cur = fs.get(name, b'')
        if M.env.get('append', {}).get(name):
            fs[name] = cur + data
            return
        p = pos.get(name, 0)
        fs[name] = cur[:p] + data + cur[p + len(data):]
        pos[name] = p + len(data)
    M.fs_truncate = fs_truncate
    M.fs_write = fs_write
    # ---- the rest of the file API a wrapper may reasonably use: stat / temp files / rename / remove.  Modification times are
    # logical stamps: the DSL source 50, files that existed before the run 100 (a previous compile), files written by the run 200.
    mt = M.env.setdefault('mtimes', {})
    FI_T = -5

    def notexist(name):
        e = symgo.mkerr('stat %s: no such file or directory' % name)
        e.v.notexist = True
        return e

    def stat(M_, a):
        name = to_pystr(a[0])
        M_.effects.append(('Stat', name))
        if name in fs:
            return (Iface(FI_T, {'name': name, 'size': len(fs[name]), 'mtime': mt.get(name, 100)}), None)
        if name in ('in.dsl',) or name == M_.env.get('dsl_name'):
            return (Iface(FI_T, {'name': name, 'size': 1, 'mtime': 50}), None)
        return (None, notexist(name))
    M.intr['os.Stat'] = stat
    M.intr['os.Lstat'] = stat
    M.intr['invoke:%d.Size' % FI_T] = lambda M_, a: a[0]['size']
    M.intr['invoke:%d.Name' % FI_T] = lambda M_, a: a[0]['name'].split('/')[-1]
    M.intr['invoke:%d.IsDir' % FI_T] = lambda M_, a: False
    M.intr['invoke:%d.Mode' % FI_T] = lambda M_, a: 0o644
    M.intr['invoke:%d.ModTime' % FI_T] = lambda M_, a: ['time', 2026, a[0]['mtime']]

    def tstamp(t):
        return t[2] if isinstance(t, list) and len(t) > 2 else 150
    M.intr['(time.Time).Before'] = lambda M_, a: tstamp(a[0]) < tstamp(a[1])
    M.intr['(time.Time).After'] = lambda M_, a: tstamp(a[0]) > tstamp(a[1])
    M.intr['(time.Time).Equal'] = lambda M_, a: tstamp(a[0]) == tstamp(a[1])
    M.intr['(time.Time).IsZero'] = lambda M_, a: False
    M.intr['os.IsNotExist'] = lambda M_, a: bool(a[0] is not None and getattr(a[0].v, 'notexist', False))
    M.intr['os.IsExist'] = lambda M_, a: False

    def createtemp(M_, a):
        d, pat = to_pystr(a[0]), to_pystr(a[1])
        n = M_.env['tmp_n'] = M_.env.get('tmp_n', 0) + 1
        rnd = 'RND%d' % n
        name = (d.rstrip('/') + '/' if d else '/tmp/') + (pat.replace('*', rnd, 1) if '*' in pat else pat + rnd)
        M_.effects.append(('CreateTemp', name))
        e = M_.env.get('create_err')
        if e is not None:
            return (None, e)
        fs_truncate(name)
        mt[name] = 200
        return (Ptr(Cell([name], tag='os.File')), None)
    M.intr['os.CreateTemp'] = createtemp
    M.intr['(*os.File).Name'] = lambda M_, a: M_.load(a[0])[0]
    M.intr['(*os.File).Sync'] = lambda M_, a: None
    M.intr['(*os.File).Chmod'] = lambda M_, a: None
    M.intr['os.Chmod'] = lambda M_, a: None

    def rename(M_, a):
        old, new = to_pystr(a[0]), to_pystr(a[1])
        M_.effects.append(('Rename', old, new))
        if old not in fs:
            return notexist(old)
        fs[new] = fs.pop(old)
        mt[new] = mt.pop(old, 200)
        pos.pop(old, None)
        return None
    M.intr['os.Rename'] = rename

    def remove(M_, a):
        name = to_pystr(a[0])
        if name not in fs:
            n_ = re.sub(r'/+', '/', name)
            name = next((p_ for p_ in fs if re.sub(r'/+', '/', p_) == n_), name)
        M_.effects.append(('Remove', name))
        if name not in fs:
            return notexist(name)
        del fs[name]
        mt.pop(name, None)
        return None
    M.intr['os.Remove'] = remove
    # ---- reading and walking the (model) file system
    DE_T = -6
    for gname, msg in (('io.EOF', 'EOF'), ('io.ErrUnexpectedEOF', 'unexpected EOF'), ('io/fs.SkipDir', 'skip this directory'), ('path/filepath.SkipDir', 'skip this directory'),
                       ('io/fs.SkipAll', 'skip everything and stop the walk'), ('path/filepath.SkipAll', 'skip everything and stop the walk')):
        if gname not in M.globals:
            base = M.globals.get('io/fs.' + gname.split('.')[-1]) if gname.startswith('path/filepath.') else None
            M.globals[gname] = base or Ptr(Cell(symgo.mkerr(msg), tag='global:' + gname))
    rpos = {}

    def fopen(M_, a):
        name = key_of(to_pystr(a[0]))
        M_.effects.append(('Open', name))
        if name not in fs:
            return (None, notexist(name))
        f = Ptr(Cell([name], tag='os.File'))
        rpos[id(f.cell)] = 0
        return (f, None)
    M.intr['os.Open'] = fopen

    def fread(M_, fptr, buf, full):
        name = M_.load(fptr)[0]
        data = fs.get(name, b'')
        k = rpos.get(id(fptr.cell), 0)
        want = buf.len if buf is not None else 0
        chunk = data[k:k + want]
        for i, b in enumerate(chunk):
            buf.cell.v[buf.off + i] = b
        rpos[id(fptr.cell)] = k + len(chunk)
        if len(chunk) == want and want > 0 or (want == 0):
            return (len(chunk), None)
        if len(chunk) == 0:
            return (0, M_.load(M_.globals['io.EOF']))
        return (len(chunk), M_.load(M_.globals['io.ErrUnexpectedEOF']) if full else None)
    M.intr['(*os.File).Read'] = lambda M_, a: fread(M_, a[0], a[1], False)
    M.intr['io.ReadFull'] = lambda M_, a: fread(M_, a[0].v if isinstance(a[0], Iface) else a[0], a[1], True)
    M.intr['io.ReadAll'] = lambda M_, a: (M_.mkslice(list(fs.get(M_.load(a[0].v if isinstance(a[0], Iface) else a[0])[0], b''))), None)

    def npath(p_):
        return re.sub(r'/+', '/', p_)

    def key_of(path):
        if path in fs:
            return path
        n = npath(path)
        for p_ in fs:
            if npath(p_) == n:
                return p_
        return path

    def children(d):
        d = npath(d).rstrip('/')
        names = {}
        for p_ in map(npath, fs):
            if p_.startswith(d + '/'):
                rest = p_[len(d) + 1:]
                first = rest.split('/')[0]
                names[first] = names.get(first, False) or ('/' in rest)
        return sorted(names.items())            # [(name, is_dir)] in lexical order, as filepath.Walk visits them

    def is_dir(path):
        return any(npath(p_).startswith(npath(path).rstrip('/') + '/') for p_ in fs)

    def walk(M_, root, fn, entry):
        skipdir = M_.load(M_.globals['io/fs.SkipDir'])
        skipall = M_.load(M_.globals['io/fs.SkipAll'])

        def visit(path, isd):
            r = M_.call_value(fn, [go_str(path), entry(path, isd), None])
            if r is not None:
                if r is skipdir or (getattr(r, 'v', None) is getattr(skipdir, 'v', 0)):
                    return 'skipdir' if isd else 'skiprest'
                return r
            if isd:
                for name, sub in children(path):
                    q = visit(path.rstrip('/') + '/' + name, sub)
                    if q == 'skiprest':
                        break
                    if q not in (None, 'skipdir'):
                        return q
            return None
        root_s = to_pystr(root)
        if key_of(root_s) not in fs and not is_dir(root_s):
            r = M_.call_value(fn, [root, None, notexist(root_s)])
            return None if (r is skipdir or r is skipall) else r
        q = visit(root_s, is_dir(root_s))
        if q in ('skipdir', 'skiprest') or q is skipall or (getattr(q, 'v', None) is not None and getattr(q, 'v', None) is getattr(skipall, 'v', 0)):
            return None
        return q
    M.intr['path/filepath.WalkDir'] = lambda M_, a: walk(M_, a[0], a[1], lambda path, isd: Iface(DE_T, {'name': path, 'dir': isd, 'size': len(fs.get(key_of(path), b'')), 'mtime': mt.get(key_of(path), 100)}))
    M.intr['path/filepath.Walk'] = lambda M_, a: walk(M_, a[0], a[1], lambda path, isd: Iface(FI_T, {'name': path, 'dir': isd, 'size': len(fs.get(key_of(path), b'')), 'mtime': mt.get(key_of(path), 100)}))
    M.intr['invoke:%d.Name' % DE_T] = lambda M_, a: go_str(a[0]['name'].split('/')[-1])
    M.intr['invoke:%d.IsDir' % DE_T] = lambda M_, a: bool(a[0].get('dir'))
    M.intr['invoke:%d.Type' % DE_T] = lambda M_, a: (1 << 31) if a[0].get('dir') else 0
    M.intr['invoke:%d.Info' % DE_T] = lambda M_, a: (Iface(FI_T, a[0]), None)
    M.intr['invoke:%d.IsDir' % FI_T] = lambda M_, a: bool(a[0].get('dir'))
    M.intr['(io/fs.FileMode).IsRegular'] = lambda M_, a: (a[0] & 0x8F280000) == 0
    M.intr['(io/fs.FileMode).IsDir'] = lambda M_, a: bool(a[0] & (1 << 31))

    def readdir(M_, a):
        d = to_pystr(a[0])
        if not is_dir(d):
            return (None, notexist(d))
        return (M_.mkslice([Iface(DE_T, {'name': d.rstrip('/') + '/' + n, 'dir': sub, 'size': len(fs.get(d.rstrip('/') + '/' + n, b'')), 'mtime': 100}) for n, sub in children(d)]), None)
    M.intr['os.ReadDir'] = readdir
    _w0 = M.fs_write

    def fs_write2(name, data):
        _w0(name, data)
        mt[name] = 200
    M.fs_write = fs_write2


_orig_make_machine = make_machine


def make_machine(ctl=None, fuel=6_000_000):          # noqa: F811  (cmd stubs on every machine)
    M = _orig_make_machine(ctl, fuel)
    install_cmd_stubs(M)
    return M


# ---------------------------------------------------------------------------- native confirmation of engine findings

def _file_lines(files):
    return {k: _norm_lines(v) for k, v in (files or {}).items()}


def c14_confirm_invocation(f):
    """the real binary, in a scratch directory with the same layout of output directories: target g alone vs the reported set"""
    import tempfile, shutil, subprocess
    cex = f.get('cex') or {}
    binary = build.build_binary()
    d = tempfile.mkdtemp(prefix='zzc14_', dir=build.cache_dir())
    flag = {'lua': '-l', 'rust': '-r', 'go': '-g', 'java': '-j', 'python': '-p', 'cpp': '-c'}
    try:
        open(os.path.join(d, 'a.dsl'), 'w').write(cex['text'])

        def run(sub, tag):
            root = os.path.join(d, tag)
            args = [binary, 'compile', '-f', os.path.join(d, 'a.dsl')]
            for g in sub:
                args += [flag[g], root + cex['dirs'][g]]
            subprocess.run(args, capture_output=True, text=True, timeout=60, errors='replace')
            out = {}
            for r_, _, names in os.walk(root):
                for n in names:
                    q = os.path.join(r_, n)
                    out[os.path.relpath(q, root)] = _norm_lines(open(q, 'rb').read())
            return out
        g = cex['alone']
        dirs = dict(cex['dirs'])
        if g not in dirs:
            return None, 'witness lacks the directory of %s' % g
        a = run([g], 'alone')
        b = run(cex['targets'], 'both')
        bad = [k for k in a if b.get(k) != a[k]]
        return bool(bad), 'real binary: %d of the %d files %s writes alone are missing or different when %s are requested' % (len(bad), len(a), g, '+'.join(cex['targets']))
    except Exception as e:
        return None, 'native run failed: %s' % str(e)[:80]
    finally:
        shutil.rmtree(d, ignore_errors=True)


def c14_confirm(f, tier):
    locus = f.get('locus', '')
    if locus.startswith('invoke:'):
        return c14_confirm_invocation(f)
    if '>' not in locus:
        return None, 'a change of the model without a changed output has no native observable'
    g1, g2 = locus.split('>')
    text = (f.get('cex') or {}).get('text')
    if not text:
        return None, 'no witness text'
    # three native runs each way.  A file the generator writes identically in all three "alone" runs is compared byte for byte;
    # a file whose bytes vary between the "alone" runs (Go map iteration order, C13's subject) is compared as a multiset of lines.
    alone, after = [], []
    for _ in range(3):
        # one process per order: package-level state (of the repository or of a library) must not leak from one into the other
        ra = symgo.native_run([text], orders=[[g1, g2]], fmt=False, visit=False, content=True)[0]
        rb = symgo.native_run([text], orders=[[g2]], fmt=False, visit=False, content=True)[0]
        gens = (ra.get('gens') or []) + (rb.get('gens') or [])
        if len(gens) < 2 or gens[0].get('panic') or gens[1].get('panic'):
            return None, 'native run did not complete: %s' % [g.get('panic') for g in gens]
        after.append((gens[0].get('files') or {}).get(g2) or {})
        alone.append((gens[1].get('files') or {}).get(g2) or {})
    names = set().union(*[set(x) for x in alone + after])
    differing = []
    for k in sorted(names):
        a = [re.sub(r'Copyright \d+', 'Copyright Y', x.get(k, '')) for x in alone]
        b = [re.sub(r'Copyright \d+', 'Copyright Y', x.get(k, '')) for x in after]
        if len(set(a)) == 1:
            if any(y != a[0] for y in b):
                differing.append(k)
        elif not any(sorted(y.split('\n')) in [sorted(x.split('\n')) for x in a] for y in b):
            differing.append(k)
    if not differing:
        return False, 'natively %s writes the same files whether or not %s ran first' % (g2, g1)
    return True, 'natively %s of %s differ when %s ran first' % (differing[:3], g2, g1)


def c10_confirm(f, tier):
    cex = f.get('cex') or {}
    sym = f.get('sig', '').split('|')[-1]
    text = cex.get('text')
    if not text or sym.startswith('file-mode:'):
        return None, 'no native statement'
    if sym.startswith('layout-dependent'):
        lay = cex.get('relayout')
        if not lay:
            return None, 'no re-layout witness'
        r = symgo.native_run([cex.get('relayout_base') or text, lay], orders=[], fmt=True, visit=False)
        if any(x.get('format_panic') or x.get('format_err') for x in r):
            return None, 'native formatter fails on the witness'
        if r[0].get('format') == r[1].get('format'):
            return False, 'natively both layouts format to the same text'
        return True, 'natively the two layouts format differently'
    if sym.startswith('not-idempotent'):
        once = cex.get('once')
        if sym.endswith('same-process') or not once:
            r = symgo.native_run([text], orders=[], fmt=True, visit=False)[0]
            if r.get('format_panic') or r.get('format_err') or r.get('format2_err'):
                return None, 'native formatter fails on the witness'
            if r.get('format') == r.get('format2'):
                return False, 'natively format(format(x)) == format(x) (two calls in one process)'
            return True, 'natively the second formatting changes the text again'
        r = symgo.native_run([once], orders=[], fmt=True, visit=False)[0]
        if r.get('format_panic') or r.get('format_err'):
            return None, 'native formatter fails on the witness'
        if r.get('format') == once:
            return False, 'natively the formatted text is a fixed point'
        return True, 'natively formatting the formatted text changes it again'
    return None, 'no native statement'


def c16_confirm(f, tier):
    """the real binary, in a scratch directory"""
    import subprocess, tempfile, shutil
    cex = f.get('cex') or {}
    text = cex.get('text')
    locus, sym = f.get('locus', ''), f.get('sig', '').split('|')[-1]
    if text is None:
        return None, 'no witness text'
    binary = build.build_binary()
    lib = symgo.native_run([text], orders=[], fmt=True, visit=False)[0]
    if lib.get('format_panic'):
        return None, 'native formatter panics on the witness'
    d = tempfile.mkdtemp(prefix='zzc16_', dir=build.cache_dir())
    try:
        if locus == 'cmd:format-f' and sym in ('file-differs', 'error-touches-file', 'error-exit-zero', 'exit-nonzero'):
            fn = os.path.join(d, 'in.dsl')
            open(fn, 'w').write(text)
            r = subprocess.run([binary, 'format', '-f', fn], capture_output=True, text=True, timeout=60)
            got = open(fn).read()
            if lib.get('format_err'):
                bad = (r.returncode == 0) or (got != text)
                return bad, 'real binary on a file with a syntax error: exit %d, file %s' % (r.returncode, 'changed' if got != text else 'unchanged')
            bad = got != lib.get('format') or r.returncode != 0
            return bad, 'real binary: exit %d, file %s the library result' % (r.returncode, 'differs from' if got != lib.get('format') else 'equals')
        if locus == 'cmd:format-d' and sym in ('stdout-differs', 'exit-nonzero', 'error-exit-zero', 'writes-file'):
            if not text.strip():
                return None, 'empty -d argument'
            r = subprocess.run([binary, 'format', '-d', text], capture_output=True, text=True, timeout=60, cwd=d)
            if lib.get('format_err'):
                return (r.returncode == 0), 'real binary on a syntax error: exit %d' % r.returncode
            bad = r.stdout not in (lib.get('format'), (lib.get('format') or '') + '\n') or r.returncode != 0 or bool(os.listdir(d))
            return bad, 'real binary: exit %d, stdout %s the library result' % (r.returncode, 'equals' if not bad else 'differs from')
        m = re.search(r'compile -([a-z+]+)\[(own|shared),(longer|same|stale|none)\]', f.get('detail') or '')
        if locus == 'cmd:compile' and m:
            sub, layout, pre = m.group(1).split('+'), m.group(2), m.group(3)
            flag = {'go': '-g', 'rust': '-r', 'java': '-j', 'python': '-p', 'cpp': '-c', 'lua': '-l'}
            nat = symgo.native_run([text], orders=[[g] for g in sub], fmt=False, visit=False, content=True)[0]
            gens = nat.get('gens') or []
            if len(gens) != len(sub) or any(g.get('panic') or g.get('err') for g in gens):
                return None, 'native generators do not complete on the witness'
            want = {}
            for g, gr in zip(sub, gens):
                for k, v in ((gr.get('files') or {}).get(g) or {}).items():
                    want[os.path.join('shared' if layout == 'shared' else g, k)] = v.encode('utf-8', 'surrogateescape') if isinstance(v, str) else v
            fn = os.path.join(d, 'in.dsl')
            open(fn, 'w').write(text)
            time.sleep(0.02)
            for rel, v in want.items():
                if pre == 'none':
                    continue
                q = os.path.join(d, 'out', rel)
                os.makedirs(os.path.dirname(q), exist_ok=True)
                open(q, 'wb').write(v if pre == 'same' else b'#' * (len(v) + (17 if pre == 'longer' else 0)))
            args = [binary, '-f', fn]
            for g in sub:
                args += [flag[g], os.path.join(d, 'out', 'shared' if layout == 'shared' else g)]
            r = subprocess.run(args, capture_output=True, text=True, timeout=60)
            got = {}
            for root, _, names in os.walk(os.path.join(d, 'out')):
                for n in names:
                    q = os.path.join(root, n)
                    got[os.path.relpath(q, os.path.join(d, 'out'))] = open(q, 'rb').read()
            if r.returncode != 0:
                return None, 'real binary exits %d' % r.returncode
            if set(got) != set(want):
                return True, 'real binary: file set differs (extra %s, missing %s)' % (sorted(set(got) - set(want))[:2], sorted(set(want) - set(got))[:2])
            bad = [k for k in want if _norm_lines(got[k]) != _norm_lines(want[k])]
            if bad:
                return True, 'real binary: %s differs from the generator output' % bad[:2]
            if any(got[k] != want[k] for k in want):
                return None, 'real binary: same lines in another order than the native generator run (no statement)'
            return False, 'real binary writes exactly the generators\' files for this case'
    finally:
        shutil.rmtree(d, ignore_errors=True)
    return None, 'no native statement for this entry point'


def c12_confirm(f, tier):
    cex = f.get('cex') or {}
    sym = f.get('sig', '').split('|')[-1]
    text = cex.get('text')
    if text is None:
        return None, 'no witness text'
    if sym.startswith('diag-missing') or sym.startswith('diag-spurious'):
        n = symgo.native_run([text], orders=[], fmt=False, visit=True)[0]
        if n.get('panic') or n.get('parse_errors'):
            return None, 'native visitor does not complete on the witness'
        has = bool(n.get('model_errors'))
        if sym.startswith('diag-missing'):
            return (not has), 'native visitor reports %d diagnostics' % len(n.get('model_errors') or [])
        return has, 'native visitor reports %d diagnostics' % len(n.get('model_errors') or [])
    if sym.startswith('diag-line:') and cex.get('relayout') and cex.get('span'):
        lay, (lo, hi) = cex['relayout'], cex['span']
        n = symgo.native_run([lay], orders=[], fmt=False, visit=True)[0]
        if n.get('panic') or n.get('parse_errors'):
            return None, 'native visitor does not complete on the re-laid-out witness'
        lines = [int(e[0]) for e in (n.get('model_errors') or [])]
        if not lines:
            return None, 'no native diagnostics on the re-laid-out witness'
        if any(lo <= x <= hi for x in lines):
            return False, 'natively a diagnostic sits at line %s, inside the declaration (lines %d..%d of the witness text)' % ([x for x in lines if lo <= x <= hi][:2], lo, hi)
        return True, 'natively the diagnostics sit at lines %s, the declaration spans lines %d..%d of the witness text' % (lines[:4], lo, hi)
    if sym == 'no-refusal' and 'targets' in cex:
        import tempfile, shutil, subprocess
        binary = build.build_binary()
        d = tempfile.mkdtemp(prefix='zzc12_', dir=build.cache_dir())
        try:
            open(os.path.join(d, 'a.dsl'), 'w').write(text)
            flags = dict((lang, flag) for lang, flag in build.LANG_FLAGS)
            args = [binary, 'compile', '-f', os.path.join(d, 'a.dsl')]
            for g in cex['targets']:
                args += [flags[{'rust': 'rs', 'python': 'py'}.get(g, g)], os.path.join(d, 'out_' + g)]
            r = subprocess.run(args, capture_output=True, text=True, timeout=60, errors='replace')
            return (r.returncode == 0), 'the real binary exits %d on the witness with targets %s' % (r.returncode, cex['targets'])
        except Exception as e:
            return None, 'native run failed: %s' % str(e)[:80]
        finally:
            shutil.rmtree(d, ignore_errors=True)
    return None, 'no native statement'


def c08_confirm(f, tier):
    cex = f.get('cex') or {}
    sym = f.get('sig', '').split('|')[-1]
    if not sym.startswith(('differs:', 'attribute-leaks:')) or not cex.get('text') or not cex.get('base'):
        return None, 'no native statement'
    r = symgo.native_run([cex['base'], cex['base'], cex['text']], orders=[GENS], fmt=False, visit=False, content=True)
    if any((x.get('gens') or [{}])[0].get('panic') for x in r) or any(not x.get('gens') for x in r):
        return None, 'native generators do not complete'
    a, a2, b = [(x['gens'][0].get('files') or {}) for x in r]
    if sym.startswith('differs:'):
        diff = []
        for g in set(a) | set(b):
            for k in set(a.get(g) or {}) | set(b.get(g) or {}):
                x, x2, y = [re.sub(r'Copyright \d+', 'Copyright Y', (m.get(g) or {}).get(k, '')) for m in (a, a2, b)]
                # a file written identically by two runs on the base text is compared byte for byte, otherwise as a line multiset
                if (x != y) if x == x2 else (sorted(x.split('\n')) != sorted(y.split('\n'))):
                    diff.append((g, k))
        if diff:
            return True, 'natively the two spellings generate different files: %s' % sorted(diff)[:3]
        return False, 'natively both spellings generate the same files'
    return None, 'no native statement'


NATIVE_CONFIRM = {'C14': c14_confirm, 'C10': c10_confirm, 'C16': c16_confirm, 'C12': c12_confirm, 'C08': c08_confirm}


# ---------------------------------------------------------------------------- driver

TEXT_FUNCS = {'C11': c11_text, 'C12': c12_text, 'C13': c13_text, 'C14': c14_text}


def worker(job):
    prop, tier, idx = job
    core.STATS.__init__()
    t, dump = _CTX['items'][idx]
    t0 = time.time()
    try:
        res, stats = TEXT_FUNCS[prop](t, dump, tier)
    except Unsupported as u:
        res, stats = [], {'paths': 0, 'inconclusive': ['%s' % str(u)[:200]]}
    except Exception as e:
        res, stats = [], {'paths': 0, 'inconclusive': ['tool error: %s' % traceback.format_exc()[-600:]], 'tool_error': True}
    return {'tag': t.tag, 'findings': [f.as_dict() for f in res], 'stats': stats, 'solver': core.STATS.as_dict(), 'wall': time.time() - t0}


def family_for(prop, tier):
    if prop == 'C08':
        from . import c08
        return c08.family(tier)
    fam = bfamily.family(tier)
    from . import bfamily3 as _b3
    fam = fam + _b3.round6_wellformed()
    if prop in ('C11', 'C09'):
        fam = fam + _b3.truncation_family(tier)
    if prop in ('C09', 'C10'):
        from . import bfamily3
        fam = fam + bfamily3.layout_family(tier)
    if prop == 'C16':
        from . import bfamily3
        keep = [t for i, t in enumerate(fam) if (tier == 'thorough' or i % 5 == 0 or t.tag.startswith(('c:', 'p:', 'l:', 'o:ok_Little')))]
        fam = keep + bfamily3.layout_family(tier)
    if prop in ('C13', 'C14'):
        from . import bfamily2
        fam = bfamily2.generator_family(tier) + [t for t in fam if (t.wellformed and not t.faults) or t.tag in ('p:snake_collide',)]
    return fam


def load_known():
    p = os.path.join(VERIF, 'known_findings.json')
    if not os.path.exists(p):
        return {}
    d = json.load(open(p))
    return {k['signature']: k for k in d.get('findings', []) if k.get('status', 'known') == 'known'}


EXPLAIN = {
    'C11': 'every text of the grammar-derived family is parsed by the real ANTLR parser; the parse tree snapshot is loaded into the symbolic go/ssa engine; the formatter runs with symbolic token lines, the visitor with symbolic identifier texts (equalities and map lookups decided by z3), the six generators on the concrete tree and once more with the size N of every char[N]/zchar[N] a 64-bit solver variable; any path ending in a Go panic / stack overflow / fuel exhaustion is a counterexample, rendered to DSL text and replayed on the native code',
    'C12': 'the visitor and cmd.Compile run in the symbolic engine with every token line a bit-vector variable (non-decreasing); for each injected fault the obligation "some diagnostic lies on a line of the offending declaration" is a validity query over the line variables; well-formed texts must produce no diagnostic; Compile must refuse before any file effect',
    'C13': 'each generator runs in the symbolic engine with the order of every executed map range a symbolic permutation and the clock a symbolic choice; all paths must produce the same file map',
    'C14': 'one inductive step per generator: G runs on the parsed model in the engine and every object that existed before the call is compared before/after (frame condition); a frame violation is composed (G1;G2 vs G2 alone) into a concrete interference witness',
}


def main(prop, tier, update_known=False, replay=None):
    t0 = time.time()
    os.environ['VERIF_TIER_EFFECTIVE'] = tier
    seed = int(os.environ.get('VERIF_SEED', '0') or 0)
    if prop not in TEXT_FUNCS and prop not in EXTRA:
        print('property %s is not implemented by this engine' % prop)
        return 2
    if prop in EXTRA:
        return EXTRA[prop](prop, tier, update_known, replay)
    symgo.repo_prog()
    fam = family_for(prop, tier)
    only = os.environ.get('VERIF_ONLY')          # debugging aid (never set by a registered command): restrict to texts by tag prefix
    if only:
        fam = [t for t in fam if any(t.tag.startswith(o) for o in only.split(','))]
    dumps = symgo.native_dump([t.text for t in fam])
    _CTX['items'] = list(zip(fam, dumps))
    jobs = [(prop, tier, i) for i in range(len(fam))]
    with multiprocessing.get_context('fork').Pool(min(16, os.cpu_count() or 4)) as pool:
        results = pool.map(worker, jobs, chunksize=2)
    return finish(prop, tier, seed, t0, fam, results, update_known)


def finish(prop, tier, seed, t0, fam, results, update_known, extra_cov=None):
    known = load_known()
    bysig = collections.OrderedDict()
    incon = []
    paths = 0
    tool_errors = []
    solver = core.Stats()
    validated = 0
    vfails = []
    for r in results:
        validated += r['stats'].get('validated', 0)
        for x in r['stats'].get('validation_failures', []):
            vfails.append((r['tag'], x))
        paths += r['stats'].get('paths', 0)
        for x in r['stats'].get('inconclusive', []):
            incon.append((r['tag'], x))
            if r['stats'].get('tool_error'):
                tool_errors.append((r['tag'], x))
        for k, v in r['solver'].items():
            setattr(solver, k, getattr(solver, k) + v)
        for f in r['findings']:
            bysig.setdefault(f['sig'], []).append(f)
    if prop == 'C13':
        # one finding per (generator, cause); its identity includes the exact set of affected texts, so that a change which makes
        # a known cause show up on further programs is a new finding
        grouped = collections.OrderedDict()
        for sg, fs in bysig.items():
            f = fs[0]
            grouped.setdefault((f['locus'], sg.split('|')[-1]), []).append(f)
        bysig = collections.OrderedDict()
        for (locus, sym), fs in grouped.items():
            tags = sorted(set(f['tag'] for f in fs))
            h = hashlib.sha1('\n'.join(tags).encode()).hexdigest()[:10]
            sg = 'C13|%s|texts=%d:%s|%s' % (locus, len(tags), h, sym)
            f0 = dict(fs[0])
            f0['sig'] = f0['signature'] = sg
            f0['detail'] = '%s; affected texts (%d): %s' % (f0['detail'], len(tags), ', '.join(tags[:12]))
            f0['affected'] = tags
            bysig[sg] = [f0]
    # replay before reporting (C11): witnesses must crash natively
    confirm = {}
    new = [(s, fs) for s, fs in bysig.items() if s not in known]
    unconfirmed = []
    if prop == 'C11' and new:
        conf = c11_confirm([fs[0] for s, fs in new], tier)
        keep = []
        for s, fs in new:
            ok, what = conf.get(s, (False, None))
            if ok:
                fs[0]['native'] = what
                keep.append((s, fs))
            else:
                unconfirmed.append((s, fs[0]['detail']))
        new = keep
    if prop in NATIVE_CONFIRM and new:
        # replay before reporting: where the real code can show the same thing natively it has to; a finding the native run
        # contradicts was produced by our engine or stubs and is never an alarm (None = no native statement possible: kept)
        keep = []
        for s, fs in new[:400]:
            try:
                ok, what = NATIVE_CONFIRM[prop](fs[0], tier)
            except Exception as e:
                ok, what = None, 'native confirmation failed to run: %s' % str(e)[:100]
            fs[0]['native'] = {'confirmed': ok, 'what': what}
            if ok is False:
                unconfirmed.append((s, '%s -- native run: %s' % (fs[0]['detail'][:120], what)))
            else:
                keep.append((s, fs))
        new = keep + new[400:]
    for s, fs in bysig.items():
        if s in known:
            print('KNOWN-FINDING: property=%s %s :: %s' % (prop, s, (fs[0]['detail'] or '')[:140]))
    rdir = os.path.join(VERIF, 'replays', prop)
    for s, fs in new:
        os.makedirs(rdir, exist_ok=True)
        path = os.path.join(rdir, hashlib.sha1(s.encode()).hexdigest()[:12] + '.json')
        json.dump(fs[0], open(path, 'w'), indent=1, default=str)
        print('VIOLATION property=%s replay=%s' % (prop, path))
        print('  %s :: %s' % (s, (fs[0]['detail'] or '')[:220]))
    if validated or vfails:
        print('ENGINE-VALIDATION: %d comparisons of the engine\'s default path with the native code, %d disagreements' % (validated, len(vfails)))
        for tag, x in vfails[:5]:
            print('  engine-validation failure (inconclusive, not a violation): %s: %s' % (tag, x[:200]))
        incon.extend(('validation:' + tag, x) for tag, x in vfails)
    if tool_errors:
        print('TOOL-ERROR: %d cells failed inside the engine (reported as inconclusive): %s' % (len(tool_errors), tool_errors[0][1][-300:]))
    if update_known:
        write_known(prop, bysig, tier)
    wall = time.time() - t0
    cov = {
        'explanation': EXPLAIN.get(prop, ''),
        'evaluations': len(fam), 'distinct_nontrivial': len(set(t.tag for t in fam)), 'texts': len(fam), 'paths': paths,
        'obligations': solver.queries, 'discharged': solver.unsat, 'sat': solver.sat, 'unknown': solver.unknown,
        'feasibility_queries': solver.feas_queries, 'solver_s': round(solver.solver_s, 2),
        'functions_encoded': len(symgo.repo_prog().F), 'engine': 'go/ssa (x/tools v0.29.0) of /repo dumped by tools/ssajson, interpreted by symv/gossa.py',
        'inconclusive_cells': len(incon), 'inconclusive_samples': [list(x) for x in incon[:6]], 'unconfirmed_counterexamples': unconfirmed[:5],
        'known_findings_seen': len([s for s in bysig if s in known]), 'new_findings': len(new),
        'samples': [{'tag': t.tag, 'text': t.text[:400], 'faults': t.faults} for t in fam[:3]],
        'bounds': 'text family of %d grammar-derived programs (symv/bfamily.py); identifier pool = identifiers of the text + 1 fresh; maps <= 4 entries; call depth 200; 6M instructions per path' % len(fam),
    }
    cov['engine_validation'] = {'comparisons_with_native_code': validated, 'disagreements': len(vfails), 'samples': [list(x) for x in vfails[:5]],
                                'what': 'formatter output, visitor diagnostics (line, message) and generated files (as line multisets, year masked) computed by the engine on its default path vs the real code run natively on the same text'}
    if extra_cov:
        cov.update(extra_cov)
    extra_counts = collections.Counter()
    for r in results:
        for k in ('size_paths', 'pinned_size_paths', 'size_paths_outside_bound', 'column_paths', 'column_obligations'):
            extra_counts[k] += r['stats'].get(k, 0)
    if extra_counts.get('size_paths'):
        cov['symbolic_sizes'] = {'what': 'the size N of each char[N]/zchar[N] (first %d per text) is a 64-bit solver variable, 0 <= N < 10^18: visitor and the six generators run with every comparison and allocation on N decided by z3; where N is printed into text the path forks over the feasible boundary values %s' % (2 if tier == 'quick' else 6, list(SIZE_SPREAD)),
                                 'paths': extra_counts['size_paths'], 'paths_pinned_to_one_value_of_N': extra_counts['pinned_size_paths'],
                                 'paths_outside_the_bound_(more_than_64MiB_of_text)': extra_counts['size_paths_outside_bound']}
    if extra_counts.get('column_paths'):
        cov['symbolic_columns'] = {'what': 'every token column is a bit-vector variable (any value below 2^20): a branch of the formatter on a column forks, and all paths of one text must print the same text',
                                   'paths': extra_counts['column_paths'], 'obligations': extra_counts['column_obligations']}
    ev = {'property_id': prop, 'tier': tier, 'seed': seed, 'level': 'other', 'coverage': cov,
          'assumptions': ['the ANTLR lexer/parser is executed natively (tools/vhelper) and its result is taken as the input of the analysed code',
                          'standard-library functions are intrinsics with their documented behaviour on concrete arguments (symv/gointr.py)',
                          'lexer column positions are not modelled', 'file system / clock / stdout are stubs (symv/checks_b.py install_cmd_stubs)'],
          'wall_s': round(wall, 1), 'violations': len(new)}
    os.makedirs(os.path.join(VERIF, 'evidence'), exist_ok=True)
    json.dump(ev, open(os.path.join(VERIF, 'evidence', prop + '.json'), 'w'), indent=1, default=str)
    print('%s %s: texts=%d paths=%d queries=%d known=%d new=%d inconclusive=%d unconfirmed=%d wall=%.1fs' % (
        prop, tier, len(fam), paths, solver.queries + solver.feas_queries, len([s for s in bysig if s in known]), len(new), len(incon), len(unconfirmed), wall))
    return 1 if new else 0


def write_known(prop, bysig, tier):
    p = os.path.join(VERIF, 'known_findings.json')
    d = json.load(open(p)) if os.path.exists(p) else {'findings': [], 'fixed': []}
    have = {k['signature'] for k in d['findings']}
    for s, fs in bysig.items():
        if s not in have:
            d['findings'].append({'property': prop, 'signature': s, 'status': 'known', 'what': (fs[0]['detail'] or '')[:300],
                                  'example_input': (fs[0].get('cex') or {}).get('text', '')[:400], 'first_seen_tier': tier})
    json.dump(d, open(p, 'w'), indent=1)


EXTRA = {}
from . import checks_b2  # noqa: E402  (registers C09, C10, C16)
from . import c08  # noqa: E402
