"""Logical values returned by the front-ends' decoders and their comparison with the
logical message (pspec.Msg).  `null`/absent list == empty list and null == '' at the
logical level (DESIGN 3.2)."""
import z3
from .core import bv, simp
from .pspec import WIDTH

SIGNED = {'i8', 'i16', 'i32', 'i64'}


class LInt:
    def __init__(self, term, signed):
        self.t, self.signed = term, signed


class LFloat:
    def __init__(self, bits):
        self.bits = bits


class LBytes:
    def __init__(self, bs):
        self.bs = list(bs)


class LList:
    def __init__(self, items):
        self.items = list(items)


class LObj:
    def __init__(self, cname, fields):
        self.cname, self.fields = cname, fields


class LNull:
    pass


class LMissing:
    pass


def _ext(term, signed, w=72):
    return (z3.SignExt if signed else z3.ZeroExt)(w - term.size(), term)


def diff_value(spec, f, sem, want, got, path, out, elem=False):
    """append (path, aspect, differs-term-or-True) for every way `got` may differ from `want`"""
    if f.repeat and not elem:
        if isinstance(got, LNull):
            got = LList([])
        if not isinstance(got, LList):
            out.append((path, 'kind', True))
            return
        if len(got.items) != len(want):
            out.append((path, 'list-length(%d!=%d)' % (len(got.items), len(want)), True))
            return
        for i, (w, g) in enumerate(zip(want, got.items)):
            diff_value(spec, f, sem, w, g, '%s[%d]' % (path, i), out, elem=True)
        return
    if sem[0] in ('basic', 'lengthof', 'checksum'):
        t = sem[1]
        if t in ('f32', 'f64'):
            if isinstance(got, LFloat) and got.bits.size() == want.size():
                add(out, path, 'value', got.bits != want)
            elif isinstance(got, LInt) and got.t.size() == want.size():
                add(out, path, 'value', got.t != want)
            else:
                out.append((path, 'kind', True))
            return
        if t == 'char':
            if isinstance(got, LBytes):
                if len(got.bs) != 1:
                    out.append((path, 'length(%d!=1)' % len(got.bs), True))
                else:
                    add(out, path, 'value', bv(got.bs[0], 8) != want)
                return
            if isinstance(got, LInt):
                add(out, path, 'value', _ext(got.t, False) != _ext(want, False))
                return
            out.append((path, 'kind', True))
            return
        if not isinstance(got, LInt):
            out.append((path, 'kind', True))
            return
        # the decoded number must equal the declared-type interpretation of the wire value.
        # (a language without unsigned types holds the same bits: equal width => compare bits)
        if got.t.size() == want.size():
            add(out, path, 'value', got.t != want)
        else:
            add(out, path, 'value', _ext(got.t, got.signed) != _ext(want, t in SIGNED))
        return
    if sem[0] in ('fixed', 'dyn'):
        if isinstance(got, LNull):
            got = LBytes([])
        if not isinstance(got, LBytes):
            out.append((path, 'kind', True))
            return
        if len(got.bs) != len(want):
            out.append((path, 'length(%d!=%d)' % (len(got.bs), len(want)), True))
            return
        for i, (w, g) in enumerate(zip(want, got.bs)):
            add(out, path, 'value', bv(g, 8) != bv(w, 8))
        return
    if sem[0] == 'obj':
        diff_obj(spec, sem[1], want, got, path, out)
        return
    if sem[0] == 'match':
        if isinstance(got, (LNull, LMissing)):
            out.append((path, 'payload-missing', True))
            return
        if not isinstance(got, LObj):
            out.append((path, 'kind', True))
            return
        if not same_class(got.cname, want.packet.name):
            out.append((path, 'dispatch(%s!=%s)' % (got.cname, want.packet.name), True))
            return
        diff_obj(spec, want.packet, want, got, path, out)
        return
    raise ValueError(sem)


def same_class(cname, pname):
    from .names import norm
    c = cname.replace('/', '.').split('.')[-1].split('$')[-1].split('::')[-1]
    return norm(c) == norm(pname)


def diff_obj(spec, packet, want, got, path, out):
    if isinstance(got, (LNull, LMissing)):
        out.append((path, 'object-missing', True))
        return
    if not isinstance(got, LObj):
        out.append((path, 'kind', True))
        return
    for f in packet.fields:
        p = path + '.' + f.name
        if f.name not in got.fields or isinstance(got.fields[f.name], LMissing):
            out.append((p, 'member-missing', True))
            continue
        diff_value(spec, f, spec.resolve(f), want.wire.get(f.name, want.v[f.name]), got.fields[f.name], p, out)


def add(out, path, aspect, term):
    t = simp(term)
    if z3.is_false(t):
        return
    out.append((path, aspect, True if z3.is_true(t) else t))
