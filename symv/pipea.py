"""Pipeline A driver: for every (program, language, packet, shape) cell execute the
emitted encoder/decoder symbolically and discharge the obligations of C01..C07.
Returns findings (with signatures) and coverage statistics."""
import os, sys, json, time, traceback
import z3
from . import core
from .core import (PathCtl, Outcome, Unsupported, Infeasible, check_valid, vacuity_twin, neq_bytes,
                   eval_bytes, bv, conc, simp)
from .pspec import (family, shapes_for, count_alts, build_msg, Packet, WIDTH, Msg)
from .ref import RefCtx, ref_enc
from .compare import diff_obj, LObj
from . import build

LANGS = ['python', 'go', 'java', 'rust', 'cpp']


def get_fe(lang):
    if lang == 'python':
        from .fe_py import PyFE
        return PyFE
    if lang == 'go':
        from .fe_go import GoFE
        return GoFE
    if lang == 'java':
        from .fe_java import JavaFE
        return JavaFE
    if lang == 'rust':
        from .fe_rust import RustFE
        return RustFE
    if lang == 'cpp':
        from .fe_cpp import CppFE
        return CppFE
    raise KeyError(lang)


# ---------------------------------------------------------------------------- signatures

def construct_of(spec, packet, path):
    """closed-vocabulary descriptor of the declared field a layout path points to"""
    parts = [p for p in path.split('.') if p]
    pk = packet
    f = None
    desc = '?'
    for i, part in enumerate(parts):
        name = part.split('[')[0].split('#')[0]
        f = None
        for g in pk.fields:
            if g.name == name:
                f = g
                break
        if f is None:
            return desc
        sem = spec.resolve(f)
        desc = field_desc(spec, f, sem)
        if '#count' in part:
            return desc + '#count'
        if '#len' in part:
            return desc + '#len'
        if sem[0] == 'obj':
            pk = sem[1]
        elif sem[0] == 'match':
            # descend into every alternative that has the next name
            nxt = parts[i + 1].split('[')[0].split('#')[0] if i + 1 < len(parts) else None
            found = None
            for ks, pn in f.pairs:
                cand = spec.packet(pn)
                if cand and any(g.name == nxt for g in cand.fields):
                    found = cand
                    break
            if found is None:
                return desc
            pk = found
    return desc


def field_desc(spec, f, sem):
    rep = 'list:' if f.repeat else ''
    if sem[0] == 'basic':
        d = 'basic:' + sem[1]
    elif sem[0] == 'fixed':
        if f.pad is not None:
            d = 'fixed:@%sPad(%s)' % (f.pad[0], f.pad[1] if f.pad[1] is not None else '')
        elif f.z or (f.kind == 'meta' and spec.meta_type(f.typ)[2]):
            d = 'fixed:zchar'
        else:
            d = 'fixed:plain'
        if f.kind == 'meta':
            d += ':meta'
    elif sem[0] == 'dyn':
        d = 'dyn'
    elif sem[0] == 'obj':
        d = 'obj:inline' if f.kind == 'inline' else ('obj:ref' if f.name == f.typ else 'obj:ref(name!=type)')
    elif sem[0] == 'match':
        kf = None
        d = 'match'
    elif sem[0] == 'lengthof':
        d = 'lengthof:%s:%s' % (sem[1], f.spelling)
    elif sem[0] == 'checksum':
        d = 'checksum:%s:%s' % (sem[1], f.spelling)
    else:
        d = sem[0]
    if f.kind == 'meta' and sem[0] != 'fixed':
        d += ':meta'
    return rep + d


def option_cell(spec, desc):
    """the option values a construct can depend on (documented meaning)"""
    o = spec.options
    cell = []
    if not desc.startswith('fixed') or desc.startswith('list:') or '#' in desc:
        cell.append('LE=%s' % o.get('LittleEndian', '-'))
    if 'dyn' in desc:
        cell.append('sp=%s' % o.get('StringPrefixLenType', '-'))
    if desc.startswith('list:'):
        cell.append('lp=%s' % o.get('ArrayPrefixLenType', '-'))
    if 'fixed' in desc:
        cell.append('pad=%s/%s' % (o.get('FixedStringPadChar', '-'), o.get('FixedStringPadFromLeft', '-')))
    return ','.join(cell)


def norm_detail(s, n=90):
    import re
    s = re.sub(r'0x[0-9a-f]+', 'N', str(s))
    s = re.sub(r'\d+', 'N', s)
    return s[:n]


class Finding:
    def __init__(self, prop, lang, prog, packet, shape, construct, cell, symptom, detail='', cex=None):
        self.prop, self.lang, self.prog, self.packet = prop, lang, prog, packet
        self.shape, self.construct, self.cell, self.symptom = shape, construct, cell, symptom
        self.detail, self.cex = detail, cex

    def signature(self):
        return '%s|%s|%s|%s|%s' % (self.prop, self.lang, self.construct, self.cell, self.symptom)

    def as_dict(self):
        return {'property': self.prop, 'lang': self.lang, 'program': self.prog, 'packet': self.packet,
                'shape': self.shape, 'signature': self.signature(), 'detail': self.detail, 'cex': self.cex}


# ---------------------------------------------------------------------------- model -> concrete message

def concretise(msg, model):
    out = {}
    for k, v in msg.v.items():
        out[k] = conc_val(v, model)
    return out


def conc_val(v, model):
    if isinstance(v, Msg):
        d = concretise(v, model)
        d['__packet'] = v.packet.name
        return d
    if isinstance(v, list):
        if v and not isinstance(v[0], (list, Msg)) and all(z3.is_bv(x) and x.size() == 8 for x in v):
            return {'bytes': eval_bytes(v, model).hex()}
        if not v:
            return []
        return [conc_val(x, model) for x in v]
    if z3.is_bv(v):
        return model.eval(v, model_completion=True).as_long()
    return repr(v)


# ---------------------------------------------------------------------------- cells

class CellStats:
    def __init__(self):
        self.cells = 0
        self.inconclusive = []
        self.obligations = 0
        self.samples = []


def run_c01(fe, spec, packet, shape, asm_base, stats, cks_registered=True):
    """encoder vs reference.  returns list of Findings"""
    lang = fe.lang
    findings = []
    asm = list(asm_base)
    msg = build_msg(spec, packet, shape, packet.name, asm)
    rctx = RefCtx(spec, cks_registered=cks_registered)
    want = ref_enc(rctx, packet, msg)
    ctl = PathCtl(asm)
    results = list(ctl.explore(lambda c: fe.encode(c, packet, msg, cks_registered)[0]))
    if not vacuity_twin(asm):
        raise RuntimeError('vacuous assumptions in %s/%s' % (spec.name, packet.name))
    for res, pc in results:
        stats.obligations += 1
        if isinstance(res, Outcome):
            desc = 'encode'
            findings.append(Finding('C01', lang, spec.name, packet.name, shape.ident(), locate_outcome(spec, packet, res), '*',
                                    'outcome:%s:%s' % (res.kind, norm_detail(res.detail)), detail=str(res), cex=first_model(asm + pc, msg)))
            continue
        got = res
        f = compare_bytes('C01', lang, spec, packet, shape, rctx, want, got, asm + pc, msg)
        if f:
            findings.append(f)
    return findings


def locate_outcome(spec, packet, res):
    return 'packet'


def first_model(asm, msg):
    s = z3.Solver()
    for a in asm:
        s.add(a)
    if s.check() == z3.sat:
        return concretise(msg, s.model())
    return None


def compare_bytes(prop, lang, spec, packet, shape, rctx, want, got, asm, msg):
    """None if got == want for every value, else a Finding located at the first declared field that can differ"""
    n = min(len(want), len(got))
    if len(want) != len(got):
        # locate: first byte of the common prefix that is not provably equal
        idx = n
        for i in range(n):
            d = simp(bv(want[i], 8) != bv(got[i], 8))
            if not z3.is_false(d):
                v = check_valid('loc', asm, d)
                if v.status != 'unsat':
                    idx = i
                    break
        path = path_at(rctx.layout, idx)
        desc = construct_of(spec, packet, path)
        return Finding(prop, lang, spec.name, packet.name, shape.ident(), desc, option_cell(spec, desc),
                       'len%+d' % (len(got) - len(want)), detail='at %s (byte %d): %d bytes, reference %d' % (path, idx, len(got), len(want)),
                       cex=first_model(asm, msg))
    goal = neq_bytes(want, got)
    v = check_valid('%s:%s:%s:%s' % (prop, spec.name, packet.name, lang), asm, goal)
    if v.status == 'unsat':
        return None
    if v.status == 'unknown':
        raise Unsupported('solver unknown')
    # refine: first layout entry with a satisfiable difference
    for path, kind, off, ln in sorted(rctx.layout, key=lambda e: e[2]):
        if ln == 0:
            continue
        g = neq_bytes(want[off:off + ln], got[off:off + ln])
        vv = check_valid('refine', asm, g)
        if vv.status == 'sat':
            desc = construct_of(spec, packet, path)
            w = eval_bytes(want[off:off + ln], vv.model).hex()
            gg = eval_bytes(got[off:off + ln], vv.model).hex()
            return Finding(prop, lang, spec.name, packet.name, shape.ident(), desc, option_cell(spec, desc), 'bytes',
                           detail='%s: emitted %s, reference %s' % (path, gg, w), cex=concretise(msg, vv.model))
    return Finding(prop, lang, spec.name, packet.name, shape.ident(), '?', '*', 'bytes', detail='unlocated', cex=concretise(msg, v.model))


def path_at(layout, idx):
    best = None
    for path, kind, off, ln in sorted(layout, key=lambda e: e[2]):
        if off <= idx < off + max(ln, 1) or (ln == 0 and off == idx):
            best = path
            if ln > 0:
                break
        elif off > idx:
            if best is None:
                best = path
            break
        else:
            best = path
    return best or '?'


def run_c02(fe, spec, packet, shape, asm_base, stats, ntrail=1, cks_registered=True):
    """decoder on the canonical encoding + trailing bytes"""
    lang = fe.lang
    findings = []
    asm = list(asm_base)
    msg = build_msg(spec, packet, shape, packet.name, asm)
    rctx = RefCtx(spec, cks_registered=cks_registered)
    want = ref_enc(rctx, packet, msg)
    trail = [z3.BitVec('trail#%d' % i, 8) for i in range(ntrail)]
    data = list(want) + trail
    ctl = PathCtl(asm, max_paths=64)
    ctl.allow_concretise = True

    def run(c):
        o, r = fe.decode(c, packet, data, cks_registered)
        lv = fe.to_logical(packet, o)
        re = fe.reencode(c, o, cks_registered)
        return o, r, lv, re
    results = list(ctl.explore(run))
    concretised = ctl.concretised
    for res, pc in results:
        stats.obligations += 1
        A = asm + pc
        if isinstance(res, Outcome):
            findings.append(Finding('C02', lang, spec.name, packet.name, shape.ident(), 'packet', '*',
                                    'outcome:%s:%s' % (res.kind, norm_detail(res.detail)), detail=str(res), cex=first_model(A, msg)))
            continue
        o, r, lv, re = res
        diffs = []
        diff_obj(spec, packet, msg, lv, packet.name, diffs)
        reported = False
        for path, aspect, term in diffs:
            stats.obligations += 1
            if term is True:
                ok = False
                cex = first_model(A, msg)
            else:
                v = check_valid('C02:dec', A, term)
                ok = v.status == 'unsat'
                cex = concretise(msg, v.model) if v.status == 'sat' else None
                if v.status == 'unknown':
                    raise Unsupported('solver unknown')
            if not ok:
                rel = path[len(packet.name):]
                desc = construct_of(spec, packet, rel)
                findings.append(Finding('C02', lang, spec.name, packet.name, shape.ident(), desc, option_cell(spec, desc),
                                        'decode:' + norm_detail(aspect), detail='%s %s' % (path, aspect), cex=cex))
                reported = True
                break
        if reported:
            continue
        if r != len(want):
            path = path_at(rctx.layout, min(r, len(want) - 1) if want else 0)
            desc = construct_of(spec, packet, path)
            findings.append(Finding('C02', lang, spec.name, packet.name, shape.ident(), desc if r < len(want) else 'packet', option_cell(spec, desc) if r < len(want) else '*',
                                    'position%+d' % (r - len(want)), detail='decoder consumed %d of %d bytes' % (r, len(want)), cex=first_model(A, msg)))
            continue
        stats.obligations += 1
        f = compare_bytes('C02', lang, spec, packet, shape, rctx, want, re, A, msg)
        if f:
            f.symptom = 'reencode:' + f.symptom
            findings.append(f)
    if concretised and not findings:
        # the decoder asked for a concrete length where it held message data; the values were pinned, so "no counterexample"
        # covers only part of the value space
        raise Unsupported('decoder takes a length from message data (values pinned by the solver): no counterexample on the pinned paths')
    return findings
