"""C08: two spellings of one protocol compile to byte-identical outputs.  Base programs are
PSpecs; each rewrite is a meaning-preserving transformation of the spec or of its text; the
visitor and the six generators run in the symbolic engine (token lines symbolic, so every
whitespace/line-break layout is covered by one run) and the file maps are compared."""
import copy, itertools, re
import z3
from . import symgo, checks_b, bfamily
from .core import PathCtl, Unsupported
from .gossa import GoPanic, go_str
from .pspec import PSpec, Packet, F, opts, ALIAS
from .symgo import PARSER, Snapshot, filemap_to_py, to_pystr
from .checks_b import BFinding, make_machine, decorate, explore, syntax_errors, GENS
from .gointr import SYM_MARK


def walk_fields(spec, fn, nested=True):
    """nested=False: packet-level fields only (attributes cannot be written on the fields of an inline object)"""
    s = copy.deepcopy(spec)
    for p in s.packets:
        p.fields = [fn(f) for f in p.fields]
        for f in p.fields:
            if f.kind == 'inline' and nested:
                f.fields = [fn(g) for g in f.fields]
    return s


def r_alias(spec):
    return walk_fields(spec, lambda f: f.clone(alias=not f.alias) if f.kind in ('basic', 'lengthof', 'checksum') and f.typ != 'char' else f)


def r_zchar(spec):
    def fn(f):
        if f.kind == 'fixed' and f.z and f.pad is None:
            return f.clone(z=False, pad=('right', "'\\x00'"))
        return f
    return walk_fields(spec, fn, nested=False)


def r_defaultpad(spec):
    n = [0]
    if any(k.startswith('FixedStringPad') for k in spec.options):
        return spec              # the built-in default is not this program's default: see r_configpad

    def fn(f):
        if f.kind == 'fixed' and not f.z and f.pad is None:
            n[0] += 1
            return f.clone(pad=('right', "' '" if n[0] % 2 else None))
        return f
    return walk_fields(spec, fn, nested=False)


def r_configpad(spec):
    """'default padding versus none' under an options block that configures the default: the configured padding written out"""
    side = 'left' if spec.options.get('FixedStringPadFromLeft') == 'true' else 'right'
    ch = spec.options.get('FixedStringPadChar')
    if ch is None and side == 'right':
        return spec

    def fn(f):
        if f.kind == 'fixed' and not f.z and f.pad is None:
            return f.clone(pad=(side, ch or "' '"))
        return f
    return walk_fields(spec, fn, nested=False)


def r_placement(spec):
    def fn(f):
        if f.kind in ('lengthof', 'checksum') and f.spelling in ('inline', 'prefixed'):
            return f.clone(spelling='prefixed' if f.spelling == 'inline' else 'inline')
        return f
    return walk_fields(spec, fn)


def r_defaults(spec):
    s = copy.deepcopy(spec)
    for k, v in (('LittleEndian', 'false'), ('StringPrefixLenType', 'u16'), ('ArrayPrefixLenType', 'u16'), ('FixedStringPadFromLeft', 'false'), ('FixedStringPadChar', "' '")):
        s.options.setdefault(k, v)
    return s


def r_expand(spec):
    def fn(f):
        if f.kind == 'match':
            return f.clone(pairs=[([k], pk) for ks, pk in f.pairs for k in ks])
        return f
    return walk_fields(spec, fn)


def r_inline_meta(spec):
    def fn(f):
        if f.kind == 'meta':
            t = spec.meta_type(f.typ)
            if t[0] == 'basic':
                return F('basic', f.name, typ=t[1], repeat=f.repeat, pad=f.pad)
            if t[0] == 'fixed':
                return F('fixed', f.name, n=t[1], z=t[2], repeat=f.repeat, pad=f.pad)
            return F('dyn', f.name, spelling='string', repeat=f.repeat)
        return f
    return walk_fields(spec, fn)


def r_dynspelling(spec):
    return walk_fields(spec, lambda f: f.clone(spelling='char[]' if f.spelling == 'string' else 'string') if f.kind == 'dyn' else f)


def r_docs(spec):
    # the words are there on purpose: a doc string is free text, whatever keywords, type names or format verbs it mentions
    return walk_fields(spec, lambda f: f.clone(doc=None if f.doc else 'documentation of %s (was zchar[8] left repeat match u8 100%% {{x}})' % f.name) if f.kind in ('basic', 'fixed', 'dyn', 'lengthof', 'checksum', 'obj') else f)


SPEC_REWRITES = [('alias', r_alias), ('zchar', r_zchar), ('defaultpad', r_defaultpad), ('configpad', r_configpad), ('placement', r_placement), ('defaults', r_defaults),
                 ('expand', r_expand), ('inline-meta', r_inline_meta), ('dyn-spelling', r_dynspelling), ('docs', r_docs)]


def t_nosep(text):
    text = re.sub(r';[ \t]*\n', '\n', text)
    return re.sub(r'(\n\s+(?:\[[^\]]*\]|"[^"]*"|\d+) : \w+),', r'\1', text)


def t_compact(text):
    return re.sub(r'[ \t]*\n[ \t]*', ' ', text)


def t_comments(text):
    out = []
    for i, ln in enumerate(text.split('\n')):
        if ln.strip() and not ln.strip().startswith('//'):
            out.append(ln + ' // c%d' % i)
            if i % 3 == 0:
                out.append('// own line %d' % i)
        else:
            out.append(ln)
    return '\n'.join(out)


def t_spread(text):
    return text.replace(' {', '\n{').replace(',', '\n,\n\n')


TEXT_REWRITES = [('nosep', t_nosep), ('compact', t_compact), ('comments', t_comments), ('spread', t_spread)]


def base_specs():
    meta = [('Price', ('basic', 'u64'), 'price'), ('Sym', ('fixed', 6, False), 'sym'), ('ZName', ('fixed', 4, True), 'zn'), ('Memo', ('dyn',), 'memo')]
    logon = Packet('Logon', [F('fixed', 'UserName', n=8), F('dyn', 'Password', spelling='string'), F('basic', 'ClientId', typ='u64'), F('fixed', 'Zed', n=4, z=True)])
    logout = Packet('Logout', [F('basic', 'Reason', typ='i8'), F('meta', 'Px', typ='Price'), F('meta', 'Code', typ='Sym')])
    out = []
    for le in (None, 'true'):
        out.append(PSpec('c08_full_%s' % le, [
            Packet('Root', [F('basic', 'MsgType', typ='u16'), F('lengthof', 'BodyLength', typ='u32', target='Body', spelling='inline'),
                            F('match', 'Body', key='MsgType', pairs=[([1], 'Logon'), ([2, 3, 4], 'Logout')]),
                            F('checksum', 'Check', typ='u32', alg='CRC32', spelling='prefixed')], root=True), logon, logout],
            opts(LittleEndian=le), meta=meta))
    out.append(PSpec('c08_lists', [Packet('Root', [F('basic', 'Nums', typ='i32', repeat=True), F('dyn', 'Names', repeat=True, spelling='string'),
                                                  F('fixed', 'Codes', n=3, repeat=True), F('fixed', 'Zs', n=2, z=True, repeat=True),
                                                  F('meta', 'Prices', typ='Price', repeat=True), F('meta', 'Zn', typ='ZName'), F('meta', 'M', typ='Memo'),
                                                  F('inline', 'Sub', repeat=True, fields=[F('basic', 'Qty', typ='u16'), F('fixed', 'Tag', n=2)])], root=True)],
                     opts(StringPrefixLenType='u8'), meta=meta))
    out.append(PSpec('c08_only_array_prefix', [Packet('Root', [F('dyn', 'Name', spelling='string'), F('dyn', 'Names', repeat=True, spelling='string'),
                                                              F('basic', 'Nums', typ='u16', repeat=True)], root=True)], opts(ArrayPrefixLenType='u8'), meta=meta))
    out.append(PSpec('c08_only_string_prefix', [Packet('Root', [F('dyn', 'Name', spelling='string'), F('dyn', 'Names', repeat=True, spelling='string'),
                                                               F('basic', 'Nums', typ='u16', repeat=True)], root=True)], opts(StringPrefixLenType='u32'), meta=meta))
    out.append(PSpec('c08_words_in_names', [Packet('Root', [F('fixed', 'leftQty', n=8, pad=('right', "'0'")), F('fixed', 'rightSide', n=4, pad=('left', "' '")), F('fixed', 'Quizchar', n=5), F('dyn', 'stringent', spelling='string'),
                                                           F('fixed', 'Qty', n=6, pad=('right', "'*'") if False else ('right', "'0'"), doc='quantity left to execute'),
                                                           F('lengthof', 'leftover', typ='u16', target='Body', spelling='inline'),
                                                           F('obj', 'Body', typ='Logout'), F('fixed', 'Tail', n=3, pad=('right', "' '"), doc='left right true false repeat match')], root=True), logout],
                     opts(), meta=meta))
    out.append(PSpec('c08_strkeys', [Packet('Root', [F('dyn', 'Kind', spelling='string'), F('match', 'P', key='Kind', pairs=[(['A', 'B'], 'Logon'), (['C'], 'Logout')])], root=True),
                                     logon, logout], opts(), meta=meta))
    # one numeric MetaData entry types a plain and a repeated field (same packet and another packet); a fixed-string match key
    # under options that configure the default padding
    qmeta = [('Qty', ('basic', 'u32'), 'quantity'), ('Sym', ('fixed', 6, False), 'sym')]
    out.append(PSpec('c08_meta_shared', [Packet('Root', [F('meta', 'Single', typ='Qty'), F('meta', 'Lots', typ='Qty', repeat=True), F('meta', 'Code', typ='Sym'),
                                                        F('meta', 'Codes', typ='Sym', repeat=True), F('obj', 'Tail', typ='Leg')], root=True),
                                         Packet('Leg', [F('meta', 'Fills', typ='Qty', repeat=True), F('meta', 'Last', typ='Qty')])], opts(), meta=qmeta))
    for side, ch in (('true', "'0'"), (None, "'0'")):
        out.append(PSpec('c08_fixedkey_%s_%s' % (side, 'zero' if ch else 'none'), [
            Packet('Root', [F('fixed', 'MsgType', n=4), F('fixed', 'Note', n=6), F('match', 'Body', key='MsgType', pairs=[(['LO'], 'Logon'), (['QB', 'QA'], 'Logout')])], root=True),
            logon, logout], opts(FixedStringPadFromLeft=side, FixedStringPadChar=ch), meta=meta))
    # a MetaData-typed field whose own NAME is another MetaData entry (the type decides, not the name); numeric keys spelled
    # with leading zeros, alone and in lists (the spelling of a key must not depend on where it stands)
    xmeta = [('Price', ('basic', 'u64'), 'price'), ('Qty', ('basic', 'u32'), 'quantity'), ('Sym', ('fixed', 6, False), 'sym')]
    out.append(PSpec('c08_meta_crossnamed', [Packet('Root', [F('meta', 'Qty', typ='Price'), F('meta', 'Price', typ='Qty'), F('meta', 'Sym', typ='Qty', repeat=True),
                                                            F('meta', 'Last', typ='Sym'), F('obj', 'Tail', typ='Leg')], root=True),
                                             Packet('Leg', [F('meta', 'Price', typ='Sym'), F('meta', 'Qty', typ='Qty')])], opts(), meta=xmeta))
    from .pspec import KeyLit
    out.append(PSpec('c08_zerokeys', [Packet('Root', [F('basic', 'Kind', typ='u16'),
                                                     F('match', 'P', key='Kind', pairs=[([KeyLit('007'), KeyLit('010'), KeyLit('0')], 'Logon'), ([KeyLit('0042')], 'Logout'),
                                                                                        ([KeyLit('00100'), 9], 'Logout')])], root=True),
                                      logon, logout], opts(), meta=meta))
    return out


class Group(bfamily.T):
    pass


def extra_specs(tier):
    """thorough tier: programs of the pipeline A family as further bases (those without configured padding: the
    default-padding rewrite spells the built-in default)"""
    if tier != 'thorough':
        return []
    from .pspec import family as afamily
    want = ('combined0', 'combined1', 'fixed_attr0', 'meta_None', 'meta_alias', 'cks_two_same_width', 'len_u16_inline_None_match', 'len_gap_u32_true',
            'disp_u16_true', 'disp_str', 'inline_nested', 'objs_named_both', 'strlist_true_u8_u32', 'idents', 'len_cks_inner')
    out = []
    for p in afamily('quick'):
        if p.name in want and not any(k.startswith('FixedStringPad') for k in p.options):
            import copy
            q = copy.deepcopy(p)
            q.name = 'c08x_' + p.name
            out.append(q)
    return out


def family(tier='quick'):
    groups = []
    for spec in base_specs() + extra_specs(tier):
        base = spec.render()
        variants = []
        for name, fn in SPEC_REWRITES:
            try:
                t = fn(spec).render()
            except Exception as e:
                continue
            if t != base:
                variants.append((name, t))
        # all spec rewrites together, and pairs
        allr = spec
        for name, fn in SPEC_REWRITES:
            allr = fn(allr)
        variants.append(('all-spec', allr.render()))
        for name, fn in TEXT_REWRITES:
            t = fn(base)
            if t != base:
                variants.append((name, t))
        variants.append(('all-spec+comments+nosep', t_comments(t_nosep(allr.render()))))
        if tier == 'thorough':
            for (n1, f1), (n2, f2) in itertools.combinations(SPEC_REWRITES, 2):
                variants.append((n1 + '+' + n2, f2(f1(spec)).render()))
        g = Group('g:' + spec.name, base)
        g.variants = variants
        groups.append(g)
    # converse: an attribute applies only to the field it is written on
    conv_base = 'MetaData M {\n    char[6] Sym `s`,\n}\n\nroot packet Root {\n    Sym AlphaOne,\n    Sym BetaTwo,\n    repeat Sym GammaThree,\n}\n'
    conv_attr = 'MetaData M {\n    char[6] Sym `s`,\n}\n\nroot packet Root {\n    @leftPad(\'0\')\n    Sym AlphaOne,\n    Sym BetaTwo,\n    repeat Sym GammaThree,\n}\n'
    g = Group('g:converse_meta', conv_base)
    g.variants = [('attr-on-AlphaOne', conv_attr)]
    g.converse = ['betatwo', 'gammathree']
    groups.append(g)
    # shared zchar entry (which carries its own padding object), used before and after the attributed field, directly and through an alias
    zm = 'MetaData M {\n    zchar[6] ZSym `s`,\n    ZSym ZAlias `a`,\n}\n\nroot packet Root {\n    ZSym BetaTwo,\n%s    ZSym AlphaOne,\n    ZAlias GammaThree,\n    repeat ZSym DeltaFour,\n}\n\npacket Other {\n    ZSym EpsilonFive,\n}\n'
    g = Group('g:converse_meta_zchar', zm % '')
    g.variants = [('leftpad-on-AlphaOne', zm % "    @leftPad('0')\n"), ('rightpad-on-AlphaOne', zm % "    @rightPad(' ')\n")]
    g.converse = ['betatwo', 'gammathree', 'deltafour', 'epsilonfive']
    groups.append(g)
    conv2_base = 'root packet Root {\n    zchar[8] AlphaOne,\n    zchar[12] BetaTwo,\n}\n'
    conv2_attr = 'root packet Root {\n    @leftPad(\'0\')\n    zchar[8] AlphaOne,\n    zchar[12] BetaTwo,\n}\n'
    g = Group('g:converse_zchar', conv2_base)
    g.variants = [('attr-on-AlphaOne', conv2_attr)]
    g.converse = ['betatwo']
    groups.append(g)
    return groups


def compile_in_engine(prog, dump, text):
    """returns ('ok', {gen/file: bytes}) | ('errors', n) | ('panic', str) ; token lines are symbolic"""
    def run(c):
        M = make_machine(c)
        snap = Snapshot(prog, dump).load()
        asm, info = decorate(M, snap, sym_lines='all', text=text)
        for a in asm:
            c.assume(a)
        m = M.call(PARSER + '.VerifVisit', [snap.tree])
        if syntax_errors(M, m):
            return ('errors', len(syntax_errors(M, m)))
        out = {}
        for g in GENS:
            r = M.call(PARSER + '.VerifGenerate', [go_str(g), m])
            for k, v in filemap_to_py(M, r[0]).items():
                out[g + '/' + k] = v
        return ('ok', out)
    ctl, paths = explore([], run, 16)
    res = []
    for (kind, val), pc in paths:
        if kind == 'panic':
            res.append(('panic', str(val)))
        elif kind == 'ok':
            res.append(val)
    return res


def c08_text(g, dump, tier):
    res = []
    stats = {'paths': 0, 'inconclusive': []}
    prog = symgo.repo_prog()
    if dump.get('panic') or dump.get('syntax_errors'):
        stats['inconclusive'].append('base text does not parse')
        return res, stats
    try:
        base = compile_in_engine(prog, dump, g.text)
    except Unsupported as u:
        stats['inconclusive'].append('base: %s' % str(u)[:150])
        return res, stats
    stats['paths'] += len(base)
    if len(base) != 1 or base[0][0] != 'ok':
        if len(base) > 1:
            res.append(BFinding('C08', 'compile', g.tag, 'layout-dependent:base', 'compilation of one text depends on its line layout', {'text': g.text}))
        else:
            stats['inconclusive'].append('base does not compile: %s' % (base[0],))
        return res, stats
    bfiles = base[0][1]
    if any(SYM_MARK.encode() in v for v in bfiles.values()):
        res.append(BFinding('C08', 'compile', g.tag, 'line-in-output', 'a token line number is printed into generated code', {'text': g.text}))
    vdumps = symgo.native_dump([t for _, t in g.variants])
    for (name, text), d in zip(g.variants, vdumps):
        if d.get('syntax_errors') or d.get('panic'):
            stats['inconclusive'].append('variant %s does not parse: %s' % (name, (d.get('syntax_errors') or [{}])[0].get('Msg', '')[:60]))
            continue
        try:
            v = compile_in_engine(prog, d, text)
        except Unsupported as u:
            stats['inconclusive'].append('variant %s: %s' % (name, str(u)[:150]))
            continue
        stats['paths'] += len(v)
        if len(v) != 1:
            res.append(BFinding('C08', 'compile', g.tag, 'layout-dependent:' + name, 'compilation of one text depends on its line layout', {'text': text}))
            continue
        if v[0][0] != 'ok':
            res.append(BFinding('C08', 'compile', g.tag, 'spelling-rejected:' + name, 'equivalent spelling does not compile: %s' % (v[0],), {'text': text, 'base': g.text}))
            continue
        vfiles = v[0][1]
        conv = getattr(g, 'converse', None)
        if conv:
            for k in sorted(set(bfiles) | set(vfiles)):
                a = pick_lines(bfiles.get(k, b''), conv)
                b = pick_lines(vfiles.get(k, b''), conv)
                if a != b:
                    res.append(BFinding('C08', 'compile', g.tag, 'attribute-leaks:' + k.split('/')[0],
                                        'an attribute written on another field changes the code emitted for %s in %s' % (conv, k), {'text': text, 'base': g.text}))
            continue
        diff = sorted(k for k in set(bfiles) | set(vfiles) if bfiles.get(k) != vfiles.get(k))
        if diff:
            gens = sorted(set(k.split('/')[0] for k in diff))
            res.append(BFinding('C08', 'compile', g.tag, 'differs:%s:%s' % (name, '+'.join(gens)),
                                'spelling "%s" changes the generated %s' % (name, diff[:3]), {'text': text, 'base': g.text, 'files': diff[:6]}))
    return res, stats


def pick_lines(data, names):
    out = []
    for ln in data.decode('utf-8', 'replace').split('\n'):
        l = ln.lower().replace('_', '')
        if any(n in l for n in names) and 'alphaone' not in l:
            out.append(ln)
    return out


checks_b.TEXT_FUNCS['C08'] = c08_text
checks_b.EXPLAIN['C08'] = ('base programs and their meaning-preserving rewrites (aliases, zchar vs NUL right padding, default padding, attribute placement, explicit default options, key list expansion, '
                           'MetaData-typed vs inlined, string/char[], separators, comments, doc strings, layouts) are parsed by the real parser; visitor and six generators run in the symbolic engine '
                           'with all token lines symbolic (one run covers every whitespace/line-break layout); the file maps of each rewrite must equal the base; the converse (an attribute touches only its own field) compares the lines emitted for the other fields')
