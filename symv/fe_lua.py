"""Lua front-end (C15): own parser for the statement/expression subset the Wireshark
dissector generator emits, with Lua's lexical scoping (a `local function` is invisible to
code that precedes it), and a symbolic evaluator whose Wireshark API (Tvb ranges, tree
items, Proto/ProtoField) is the contract of runtimes/CONTRACT.md.  There is no Lua
interpreter in the image: counterexamples are confirmed by concrete re-evaluation here."""
import re
import z3
from .core import bv, from_bytes, simp, conc, is_sym, Outcome, Unsupported, PathCtl

KEYWORDS = {'and', 'break', 'do', 'else', 'elseif', 'end', 'false', 'for', 'function', 'if', 'in', 'local', 'nil', 'not', 'or', 'repeat', 'return', 'then',
            'true', 'until', 'while'}


class LuaSyntaxError(Exception):
    pass


def tokenize(src):
    toks = []
    i, n = 0, len(src)
    line = 1
    while i < n:
        c = src[i]
        if c == '\n':
            line += 1
            i += 1
        elif c in ' \t\r':
            i += 1
        elif src.startswith('--', i):
            if src.startswith('--[[', i):
                j = src.find(']]', i)
                if j < 0:
                    raise LuaSyntaxError('unterminated long comment at line %d' % line)
                line += src[i:j].count('\n')
                i = j + 2
            else:
                j = src.find('\n', i)
                i = n if j < 0 else j
        elif c.isalpha() or c == '_':
            j = i
            while j < n and (src[j].isalnum() or src[j] == '_'):
                j += 1
            w = src[i:j]
            toks.append(('kw' if w in KEYWORDS else 'name', w, line))
            i = j
        elif c.isdigit():
            j = i
            while j < n and (src[j].isalnum() or src[j] == '.'):
                j += 1
            toks.append(('num', src[i:j], line))
            i = j
        elif c in '"\'':
            j = i + 1
            buf = []
            while j < n and src[j] != c:
                if src[j] == '\\':
                    j += 1
                    buf.append({'n': '\n', 't': '\t', '\\': '\\', '"': '"', "'": "'", '0': '\0'}.get(src[j], src[j]))
                elif src[j] == '\n':
                    raise LuaSyntaxError('unfinished string at line %d' % line)
                else:
                    buf.append(src[j])
                j += 1
            if j >= n:
                raise LuaSyntaxError('unfinished string at line %d' % line)
            toks.append(('str', ''.join(buf), line))
            i = j + 1
        else:
            for op in ('...', '..', '==', '~=', '<=', '>=', '::'):
                if src.startswith(op, i):
                    toks.append(('op', op, line))
                    i += len(op)
                    break
            else:
                if c in '+-*/%^#<>=(){}[];:,.':
                    toks.append(('op', c, line))
                    i += 1
                else:
                    raise LuaSyntaxError('unexpected symbol %r at line %d' % (c, line))
    toks.append(('eof', '', line))
    return toks


class Parser:
    def __init__(self, src):
        self.t = tokenize(src)
        self.i = 0

    def peek(self):
        return self.t[self.i]

    def next(self):
        t = self.t[self.i]
        self.i += 1
        return t

    def accept(self, kind, val=None):
        t = self.t[self.i]
        if t[0] == kind and (val is None or t[1] == val):
            self.i += 1
            return t
        return None

    def expect(self, kind, val=None):
        t = self.accept(kind, val)
        if t is None:
            cur = self.t[self.i]
            raise LuaSyntaxError("'%s' expected near '%s' at line %d" % (val or kind, cur[1], cur[2]))
        return t

    def block(self):
        stmts = []
        while True:
            t = self.peek()
            if t[0] == 'eof' or (t[0] == 'kw' and t[1] in ('end', 'else', 'elseif', 'until')):
                break
            if t[0] == 'kw' and t[1] == 'return':
                self.next()
                exprs = []
                p = self.peek()
                if not (p[0] == 'eof' or (p[0] == 'kw' and p[1] in ('end', 'else', 'elseif', 'until')) or (p[0] == 'op' and p[1] == ';')):
                    exprs = self.exprlist()
                self.accept('op', ';')
                stmts.append(('return', exprs, t[2]))
                break
            s = self.statement()
            if s is not None:
                stmts.append(s)
        return stmts

    def statement(self):
        t = self.peek()
        line = t[2]
        if self.accept('op', ';'):
            return None
        if t[0] == 'kw':
            if t[1] == 'local':
                self.next()
                if self.accept('kw', 'function'):
                    name = self.expect('name')[1]
                    return ('localfunc', name, self.funcbody(), line)
                names = [self.expect('name')[1]]
                while self.accept('op', ','):
                    names.append(self.expect('name')[1])
                exprs = []
                if self.accept('op', '='):
                    exprs = self.exprlist()
                return ('local', names, exprs, line)
            if t[1] == 'function':
                self.next()
                target = ('name', self.expect('name')[1])
                while True:
                    if self.accept('op', '.'):
                        target = ('index', target, ('str', self.expect('name')[1]))
                    elif self.accept('op', ':'):
                        target = ('index', target, ('str', self.expect('name')[1]))
                        fb = self.funcbody(selfarg=True)
                        return ('assign', [target], [fb], line)
                    else:
                        break
                return ('assign', [target], [self.funcbody()], line)
            if t[1] == 'if':
                self.next()
                clauses = []
                cond = self.expr()
                self.expect('kw', 'then')
                clauses.append((cond, self.block()))
                els = None
                while True:
                    if self.accept('kw', 'elseif'):
                        c = self.expr()
                        self.expect('kw', 'then')
                        clauses.append((c, self.block()))
                    elif self.accept('kw', 'else'):
                        els = self.block()
                        self.expect('kw', 'end')
                        break
                    else:
                        self.expect('kw', 'end')
                        break
                return ('if', clauses, els, line)
            if t[1] == 'for':
                self.next()
                n1 = self.expect('name')[1]
                if self.accept('op', '='):
                    a = self.expr()
                    self.expect('op', ',')
                    b = self.expr()
                    step = None
                    if self.accept('op', ','):
                        step = self.expr()
                    self.expect('kw', 'do')
                    body = self.block()
                    self.expect('kw', 'end')
                    return ('fornum', n1, a, b, step, body, line)
                names = [n1]
                while self.accept('op', ','):
                    names.append(self.expect('name')[1])
                self.expect('kw', 'in')
                exprs = self.exprlist()
                self.expect('kw', 'do')
                body = self.block()
                self.expect('kw', 'end')
                return ('forin', names, exprs, body, line)
            if t[1] == 'while':
                self.next()
                c = self.expr()
                self.expect('kw', 'do')
                body = self.block()
                self.expect('kw', 'end')
                return ('while', c, body, line)
            if t[1] == 'do':
                self.next()
                body = self.block()
                self.expect('kw', 'end')
                return ('do', body, line)
            if t[1] == 'break':
                self.next()
                return ('break', line)
            raise LuaSyntaxError("unexpected symbol near '%s' at line %d" % (t[1], line))
        e = self.suffixedexp()
        if self.peek()[0] == 'op' and self.peek()[1] in ('=', ','):
            targets = [e]
            while self.accept('op', ','):
                targets.append(self.suffixedexp())
            self.expect('op', '=')
            exprs = self.exprlist()
            return ('assign', targets, exprs, line)
        if e[0] not in ('call', 'method'):
            raise LuaSyntaxError("syntax error near '%s' at line %d" % (self.peek()[1], line))
        return ('exprstat', e, line)

    def funcbody(self, selfarg=False):
        self.expect('op', '(')
        params = ['self'] if selfarg else []
        if not self.accept('op', ')'):
            while True:
                if self.accept('op', '...'):
                    params.append('...')
                else:
                    params.append(self.expect('name')[1])
                if not self.accept('op', ','):
                    break
            self.expect('op', ')')
        body = self.block()
        self.expect('kw', 'end')
        return ('function', params, body)

    def exprlist(self):
        es = [self.expr()]
        while self.accept('op', ','):
            es.append(self.expr())
        return es

    PREC = {'or': 1, 'and': 2, '<': 3, '>': 3, '<=': 3, '>=': 3, '~=': 3, '==': 3, '..': 5, '+': 6, '-': 6, '*': 7, '/': 7, '%': 7}

    def expr(self, limit=0):
        t = self.peek()
        if (t[0] == 'kw' and t[1] == 'not') or (t[0] == 'op' and t[1] in ('-', '#')):
            self.next()
            left = ('unop', t[1], self.expr(8))
        else:
            left = self.simpleexp()
        while True:
            t = self.peek()
            op = t[1] if (t[0] == 'op' or (t[0] == 'kw' and t[1] in ('and', 'or'))) else None
            p = self.PREC.get(op)
            if p is None or p <= limit:
                break
            self.next()
            right = self.expr(p - 1 if op == '..' else p)
            left = ('binop', op, left, right)
        return left

    def simpleexp(self):
        t = self.peek()
        if t[0] == 'num':
            self.next()
            return ('num', int(t[1], 0) if re.fullmatch(r'\d+|0[xX][0-9a-fA-F]+', t[1]) else float(t[1]))
        if t[0] == 'str':
            self.next()
            return ('str', t[1])
        if t[0] == 'kw' and t[1] in ('nil', 'true', 'false'):
            self.next()
            return ('const', {'nil': None, 'true': True, 'false': False}[t[1]])
        if t[0] == 'kw' and t[1] == 'function':
            self.next()
            return self.funcbody()
        if t[0] == 'op' and t[1] == '{':
            return self.table()
        return self.suffixedexp()

    def table(self):
        self.expect('op', '{')
        items = []
        while not self.accept('op', '}'):
            t = self.peek()
            if t[0] == 'name' and self.t[self.i + 1][0] == 'op' and self.t[self.i + 1][1] == '=':
                self.next()
                self.next()
                items.append((('str', t[1]), self.expr()))
            elif t[0] == 'op' and t[1] == '[':
                self.next()
                k = self.expr()
                self.expect('op', ']')
                self.expect('op', '=')
                items.append((k, self.expr()))
            else:
                items.append((None, self.expr()))
            if not (self.accept('op', ',') or self.accept('op', ';')):
                self.expect('op', '}')
                break
        return ('table', items)

    def suffixedexp(self):
        t = self.peek()
        if t[0] == 'name':
            self.next()
            e = ('name', t[1])
        elif t[0] == 'op' and t[1] == '(':
            self.next()
            e = ('paren', self.expr())
            self.expect('op', ')')
        else:
            raise LuaSyntaxError("unexpected symbol near '%s' at line %d" % (t[1], t[2]))
        while True:
            t = self.peek()
            if t[0] == 'op' and t[1] == '.':
                self.next()
                e = ('index', e, ('str', self.expect('name')[1]))
            elif t[0] == 'op' and t[1] == '[':
                self.next()
                k = self.expr()
                self.expect('op', ']')
                e = ('index', e, k)
            elif t[0] == 'op' and t[1] == ':':
                self.next()
                name = self.expect('name')[1]
                e = ('method', e, name, self.args(), t[2])
            elif (t[0] == 'op' and t[1] in ('(', '{')) or t[0] == 'str':
                e = ('call', e, self.args(), t[2])
            else:
                return e

    def args(self):
        t = self.peek()
        if t[0] == 'str':
            self.next()
            return [('str', t[1])]
        if t[0] == 'op' and t[1] == '{':
            return [self.table()]
        self.expect('op', '(')
        if self.accept('op', ')'):
            return []
        a = self.exprlist()
        self.expect('op', ')')
        return a


# ---------------------------------------------------------------------------- evaluator

class Env:
    __slots__ = ('parent', 'name', 'box')

    def __init__(self, parent, name, value):
        self.parent, self.name, self.box = parent, name, [value]


def lookup(env, name):
    while env is not None:
        if env.name == name:
            return env.box
        env = env.parent
    return None


class LuaFunc:
    def __init__(self, params, body, env, name='?'):
        self.params, self.body, self.env, self.name = params, body, env, name


class Builtin:
    def __init__(self, fn, name='builtin'):
        self.fn, self.name = fn, name


class Table:
    def __init__(self):
        self.d = {}
        self.order = []

    def get(self, k):
        return self.d.get(key(k))

    def set(self, k, v):
        kk = key(k)
        if kk not in self.d:
            self.order.append(k)
        self.d[kk] = v


def key(k):
    if isinstance(k, (int, float, str, bool)):
        return k
    return ('obj', id(k))


class ProtoField:
    def __init__(self, kind, abbr, name):
        self.kind, self.abbr, self.name = kind, abbr, name


class Proto:
    def __init__(self, name, desc):
        self.name, self.desc = name, desc
        self.fields = Table()
        self.dissector = None


class TvbRange:
    def __init__(self, buf, o, l):
        self.buf, self.o, self.l = buf, o, l


class Tvb:
    def __init__(self, data):
        self.data = list(data)


class TreeItem:
    def __init__(self, log, label='root'):
        self.log, self.label = log, label


class UInt64Box:
    """Wireshark's UInt64/Int64 userdata: comparing it with a Lua number by == is false (no __eq across types)"""
    def __init__(self, term):
        self.term = term


class Opaque:
    def __init__(self, what=''):
        self.what = what


class LuaError(Exception):
    def __init__(self, msg, line=None):
        Exception.__init__(self, msg)
        self.msg, self.line = msg, line


class _Return(Exception):
    def __init__(self, vals):
        self.vals = vals


class _Break(Exception):
    pass


class LuaFE:
    lang = 'lua'

    def __init__(self, spec, emit):
        self.spec = spec
        self.rejects = []
        self.src = None
        files = emit['files'].get('lua', {})
        srcs = [p for rel, p in files.items() if rel.endswith('.lua')]
        if not srcs:
            self.rejects.append('no lua file emitted')
            return
        self.path = srcs[0]
        self.src = open(self.path, errors='replace').read()
        try:
            self.chunk = Parser(self.src).block()
        except LuaSyntaxError as e:
            self.rejects.append('lua syntax error: %s' % e)
        self.functions_encoded = [s[1] for s in getattr(self, 'chunk', []) if s[0] == 'localfunc']

    # ------------------------------------------------------------------ run
    def dissect(self, ctl, data):
        """returns (adds, final_offset, proto) ; adds = [(field abbr or None, offset, length, little_endian, label)]"""
        self.ctl = ctl
        self.steps = 0
        self.adds = []
        self.globals = {}
        self.protos = []
        self.final_offset = None
        G = self.globals
        G['Proto'] = Builtin(lambda a: self._proto(a))
        pf = Table()
        for kind in ('uint8', 'uint16', 'uint24', 'uint32', 'uint64', 'int8', 'int16', 'int24', 'int32', 'int64', 'int', 'float', 'double', 'string',
                     'stringz', 'bytes', 'bool', 'char', 'none', 'ubytes'):
            pf.set(kind, Builtin(lambda a, kind=kind: ProtoField(kind, self._s(a[0]) if a else '?', self._s(a[1]) if len(a) > 1 else ''), 'ProtoField.' + kind))
        G['ProtoField'] = pf
        base = Table()
        for b in ('DEC', 'HEX', 'OCT', 'DEC_HEX', 'HEX_DEC', 'NONE', 'ASCII', 'UNICODE'):
            base.set(b, b)
        G['base'] = base
        G['pairs'] = Builtin(lambda a: self._pairs(a))
        G['ipairs'] = Builtin(lambda a: self._pairs(a))
        G['tostring'] = Builtin(lambda a: Opaque('tostring'))
        G['print'] = Builtin(lambda a: None)
        dt = Table()
        dt.set('get', Builtin(lambda a: DTable(), 'DissectorTable.get'))
        G['DissectorTable'] = dt
        G['string'] = Table()
        env = None
        try:
            self.exec_block(self.chunk, env)
        except _Return:
            pass
        protos = [p for p in self.protos if isinstance(p.dissector, LuaFunc)]
        if not protos:
            raise LuaError('no Proto with a dissector function was defined')
        proto = protos[0]
        tvb = Tvb(data)
        pinfo = make_pinfo()
        root = TreeItem(self.adds, 'root')
        self.call(proto.dissector, [tvb, pinfo, root], 0, top=True)
        return self.adds, self.final_offset, proto

    def _s(self, v):
        return v if isinstance(v, str) else '?'

    def _proto(self, a):
        p = Proto(self._s(a[0]), self._s(a[1]) if len(a) > 1 else '')
        self.protos.append(p)
        return p

    def _pairs(self, a):
        t = a[0]
        if isinstance(t, Table):
            return ('iter', [(k, t.get(k)) for k in t.order])
        raise LuaError("bad argument #1 to 'pairs' (table expected)")

    # ------------------------------------------------------------------ statements
    def exec_block(self, stmts, env):
        for s in stmts:
            self.steps += 1
            if self.steps > 200000:
                raise Outcome('unwind', 'instruction budget exceeded')
            k = s[0]
            if k == 'local':
                vals = self.evallist(s[2], env)
                for i, n in enumerate(s[1]):
                    env = Env(env, n, vals[i] if i < len(vals) else None)
            elif k == 'localfunc':
                env = Env(env, s[1], None)
                env.box[0] = LuaFunc(s[2][1], s[2][2], env, s[1])
            elif k == 'assign':
                vals = self.evallist(s[2], env)
                for i, tg in enumerate(s[1]):
                    self.assign(tg, vals[i] if i < len(vals) else None, env, s[3])
            elif k == 'exprstat':
                self.eval(s[1], env)
            elif k == 'if':
                done = False
                for cond, body in s[1]:
                    if self.truth(self.eval(cond, env)):
                        self.exec_block(body, env)
                        done = True
                        break
                if not done and s[2] is not None:
                    self.exec_block(s[2], env)
            elif k == 'fornum':
                a = self.num(self.eval(s[2], env), s[6])
                b = self.num(self.eval(s[3], env), s[6])
                st = self.num(self.eval(s[4], env), s[6]) if s[4] is not None else 1
                n = 0
                i = a
                try:
                    while (st > 0 and i <= b) or (st < 0 and i >= b):
                        n += 1
                        if n > 64:
                            raise Outcome('unwind', 'loop bound 64 exceeded')
                        self.exec_block(s[5], Env(env, s[1], i))
                        i += st
                except _Break:
                    pass
            elif k == 'forin':
                it = self.evallist(s[2], env)[0]
                if not (isinstance(it, tuple) and it[0] == 'iter'):
                    raise LuaError('attempt to call a non-iterator in for-in', s[4])
                try:
                    for kk, vv in it[1]:
                        e2 = Env(env, s[1][0], kk)
                        if len(s[1]) > 1:
                            e2 = Env(e2, s[1][1], vv)
                        self.exec_block(s[3], e2)
                except _Break:
                    pass
            elif k == 'do':
                self.exec_block(s[1], env)
            elif k == 'while':
                n = 0
                try:
                    while self.truth(self.eval(s[1], env)):
                        n += 1
                        if n > 64:
                            raise Outcome('unwind', 'loop bound 64 exceeded')
                        self.exec_block(s[2], env)
                except _Break:
                    pass
            elif k == 'return':
                raise _Return(self.evallist(s[1], env))
            elif k == 'break':
                raise _Break()
            else:
                raise Unsupported('lua statement ' + k)
        self._last_env = env
        return env

    def num(self, v, line):
        if isinstance(v, (int, float)) and not isinstance(v, bool):
            return v
        if is_sym(v):
            c = conc(v)
            if c is not None:
                return c
            raise Unsupported('symbolic loop bound / offset')
        if isinstance(v, UInt64Box):
            raise LuaError("'for' limit must be a number (got userdata UInt64)", line)
        raise LuaError("'for' limit must be a number", line)

    def assign(self, tg, v, env, line):
        if tg[0] == 'name':
            box = lookup(env, tg[1])
            if box is not None:
                box[0] = v
            else:
                self.globals[tg[1]] = v
            return
        if tg[0] == 'index':
            obj = self.eval(tg[1], env)
            k = self.eval(tg[2], env)
            self.setindex(obj, k, v, line)
            return
        raise Unsupported('assignment target')

    def setindex(self, obj, k, v, line):
        if isinstance(obj, Table):
            obj.set(k, v)
        elif isinstance(obj, Proto):
            if k == 'dissector':
                obj.dissector = v
            elif k == 'fields':
                obj.fields = v
            else:
                setattr(obj, 'x_' + str(k), v)
        elif isinstance(obj, Opaque):
            pass
        elif obj is None:
            raise LuaError('attempt to index a nil value', line)
        else:
            raise Unsupported('index assignment on %s' % type(obj).__name__)

    # ------------------------------------------------------------------ expressions
    def evallist(self, exprs, env):
        out = []
        for i, e in enumerate(exprs):
            v = self.eval(e, env, multi=(i == len(exprs) - 1))
            if isinstance(v, _Multi):
                out.extend(v.vals)
            else:
                out.append(v)
        return out

    def truth(self, v):
        if v is None or v is False:
            return False
        if z3.is_bool(v):
            return self.ctl.branch(v)
        return True

    def eval(self, e, env, multi=False):
        k = e[0]
        if k == 'num' or k == 'str':
            return e[1]
        if k == 'const':
            return e[1]
        if k == 'name':
            box = lookup(env, e[1])
            if box is not None:
                return box[0]
            return self.globals.get(e[1])
        if k == 'paren':
            v = self.eval(e[1], env)
            return v.vals[0] if isinstance(v, _Multi) and v.vals else (None if isinstance(v, _Multi) else v)
        if k == 'index':
            obj = self.eval(e[1], env)
            key_ = self.eval(e[2], env)
            return self.index(obj, key_, e)
        if k == 'function':
            return LuaFunc(e[1], e[2], env, 'anonymous')
        if k == 'table':
            t = Table()
            n = 1
            for kk, vv in e[1]:
                v = self.eval(vv, env)
                if kk is None:
                    t.set(n, v)
                    n += 1
                else:
                    t.set(self.eval(kk, env), v)
            return t
        if k == 'call':
            f = self.eval(e[1], env)
            args = self.evallist(e[2], env)
            r = self.call(f, args, e[3], name=describe(e[1]))
            return r if multi else first(r)
        if k == 'method':
            obj = self.eval(e[1], env)
            args = self.evallist(e[3], env)
            r = self.method(obj, e[2], args, e[4])
            return r if multi else first(r)
        if k == 'unop':
            v = self.eval(e[2], env)
            if e[1] == 'not':
                return not self.truth(v)
            if e[1] == '-':
                if isinstance(v, (int, float)):
                    return -v
                raise Unsupported('unary minus on %s' % type(v).__name__)
            if e[1] == '#':
                if isinstance(v, str):
                    return len(v)
                if isinstance(v, Table):
                    return len([x for x in v.order if isinstance(x, int)])
            raise Unsupported('unary ' + e[1])
        if k == 'binop':
            op = e[1]
            if op == 'and':
                l = self.eval(e[2], env)
                return self.eval(e[3], env) if self.truth(l) else l
            if op == 'or':
                l = self.eval(e[2], env)
                return l if self.truth(l) else self.eval(e[3], env)
            l = self.eval(e[2], env)
            r = self.eval(e[3], env)
            return self.binop(op, l, r)
        raise Unsupported('lua expression ' + k)

    def binop(self, op, l, r):
        if op == '..':
            if isinstance(l, (str, int, float)) and isinstance(r, (str, int, float)) and not isinstance(l, bool) and not isinstance(r, bool):
                return str(l) + str(r)
            if l is None or r is None or isinstance(l, (bool, Table)) or isinstance(r, (bool, Table)):
                raise LuaError('attempt to concatenate a %s value' % lua_type(l if not isinstance(l, (str, int, float)) or isinstance(l, bool) else r))
            return Opaque('concat')
        if op in ('==', '~='):
            eq = self.lua_eq(l, r)
            if isinstance(eq, bool):
                return eq if op == '==' else not eq
            return eq if op == '==' else z3.Not(eq)
        if op in ('+', '-', '*'):
            if isinstance(l, (int, float)) and isinstance(r, (int, float)):
                return {'+': l + r, '-': l - r, '*': l * r}[op]
            if is_sym(l) or is_sym(r):
                cl, cr = (conc(l) if is_sym(l) else l), (conc(r) if is_sym(r) else r)
                if cl is not None and cr is not None and isinstance(cl, (int, float)) and isinstance(cr, (int, float)):
                    return {'+': cl + cr, '-': cl - cr, '*': cl * cr}[op]
                raise Unsupported('arithmetic on a symbolic value')
            if isinstance(l, UInt64Box) or isinstance(r, UInt64Box):
                # UInt64 userdata supports arithmetic with numbers: result is a UInt64
                a = l.term if isinstance(l, UInt64Box) else l
                b = r.term if isinstance(r, UInt64Box) else r
                ca, cb = (conc(a) if is_sym(a) else a), (conc(b) if is_sym(b) else b)
                if ca is not None and cb is not None:
                    return UInt64Box(z3.BitVecVal({'+': ca + cb, '-': ca - cb, '*': ca * cb}[op] & ((1 << 64) - 1), 64))
                raise Unsupported('arithmetic on a symbolic UInt64')
            raise LuaError('attempt to perform arithmetic on a %s value' % lua_type(l if not isinstance(l, (int, float)) else r))
        if op in ('<', '<=', '>', '>='):
            if isinstance(l, (int, float)) and isinstance(r, (int, float)):
                return {'<': l < r, '<=': l <= r, '>': l > r, '>=': l >= r}[op]
            raise Unsupported('comparison on %s' % type(l).__name__)
        raise Unsupported('lua operator ' + op)

    def lua_eq(self, l, r):
        if isinstance(l, UInt64Box) or isinstance(r, UInt64Box):
            if isinstance(l, UInt64Box) and isinstance(r, UInt64Box):
                c = simp(l.term == r.term)
                return True if z3.is_true(c) else False if z3.is_false(c) else c
            return False          # userdata vs number: never equal
        if is_sym(l) or is_sym(r):
            a = l if is_sym(l) else (z3.BitVecVal(l, r.size()) if isinstance(l, int) else None)
            b = r if is_sym(r) else (z3.BitVecVal(r, l.size()) if isinstance(r, int) else None)
            if a is None or b is None:
                return False
            if a.size() != b.size():
                w = max(a.size(), b.size())
                a = z3.ZeroExt(w - a.size(), a) if a.size() < w else a
                b = z3.ZeroExt(w - b.size(), b) if b.size() < w else b
            c = simp(a == b)
            return True if z3.is_true(c) else False if z3.is_false(c) else c
        if isinstance(l, SymStrVal) or isinstance(r, SymStrVal):
            ls = l.bs if isinstance(l, SymStrVal) else [z3.BitVecVal(x, 8) for x in l.encode()] if isinstance(l, str) else None
            rs = r.bs if isinstance(r, SymStrVal) else [z3.BitVecVal(x, 8) for x in r.encode()] if isinstance(r, str) else None
            if ls is None or rs is None or len(ls) != len(rs):
                return False
            cs = [simp(bv(a, 8) == bv(b, 8)) for a, b in zip(ls, rs)]
            if any(z3.is_false(c) for c in cs):
                return False
            cs = [c for c in cs if not z3.is_true(c)]
            return z3.And(cs) if cs else True
        if type(l) in (int, float) and type(r) in (int, float):
            return l == r
        if type(l) is not type(r):
            return False
        if isinstance(l, (str, bool)) or l is None:
            return l == r
        return l is r

    def index(self, obj, k, e):
        if isinstance(obj, Table):
            return obj.get(k)
        if isinstance(obj, Proto):
            if k == 'fields':
                return obj.fields
            if k == 'dissector':
                return obj.dissector
            return getattr(obj, 'x_' + str(k), None)
        if isinstance(obj, PInfo):
            return obj.get(k)
        if isinstance(obj, Opaque):
            return Opaque(str(k))
        if obj is None:
            raise LuaError("attempt to index a nil value (%s)" % describe(e[1]))
        if isinstance(obj, str):
            raise Unsupported('string library')
        raise Unsupported('index of %s' % type(obj).__name__)

    def call(self, f, args, line, name='?', top=False):
        if isinstance(f, Tvb):
            if len(args) < 2:
                raise Unsupported('buf() with default range')
            o, l = self.num(args[0], line), self.num(args[1], line)
            if o < 0 or l < 0 or o + l > len(f.data):
                raise LuaError('Range is out of bounds (offset %d length %d, tvb length %d)' % (o, l, len(f.data)), line)
            return TvbRange(f, o, l)
        if isinstance(f, Builtin):
            return f.fn(args)
        if isinstance(f, LuaFunc):
            env = f.env
            for i, p in enumerate(f.params):
                env = Env(env, p, args[i] if i < len(args) else None)
            try:
                last = self.exec_block(f.body, env)
                if top:
                    box = lookup(self._last_env, 'offset')
                    self.final_offset = box[0] if box else None
            except _Return as r:
                if top:
                    self.final_offset = None
                return _Multi(r.vals)
            return _Multi([])
        if f is None:
            raise LuaError("attempt to call a nil value (%s)" % name, line)
        raise LuaError('attempt to call a %s value (%s)' % (lua_type(f), name), line)

    def method(self, obj, name, args, line):
        if isinstance(obj, TvbRange):
            return self.range_method(obj, name, args, line)
        if isinstance(obj, TreeItem):
            if name in ('add', 'le_add', 'add_le', 'add_packet_field'):
                first_ = args[0] if args else None
                rng = args[1] if len(args) > 1 else None
                label = args[2] if len(args) > 2 else None
                if isinstance(rng, TvbRange):
                    o, l = rng.o, rng.l
                elif rng is None:
                    o, l = None, None
                else:
                    o, l = None, None
                abbr = first_.abbr if isinstance(first_, ProtoField) else None
                if first_ is None:
                    raise LuaError("bad argument #1 to '%s' (field expected, got nil)" % name, line)
                self.adds.append((abbr, o, l, name != 'add', label if isinstance(label, str) else (first_ if isinstance(first_, str) else None), line))
                return TreeItem(self.adds, 'sub')
            if name in ('append_text', 'set_text', 'set_len', 'add_expert_info', 'set_generated'):
                return obj
            raise LuaError("attempt to call method '%s' (a nil value)" % name, line)
        if isinstance(obj, (Opaque, PInfoCol)):
            return Opaque(name)
        if isinstance(obj, DTable):
            return None
        if isinstance(obj, Table):
            f = obj.get(name)
            return self.call(f, [obj] + args, line, name=name)
        if obj is None:
            raise LuaError("attempt to index a nil value (method '%s')" % name, line)
        if isinstance(obj, UInt64Box):
            if name == 'tonumber':
                c = conc(obj.term)
                return c if c is not None else obj.term
            raise LuaError("attempt to call method '%s' (a nil value)" % name, line)
        if is_sym(obj) or isinstance(obj, (int, float)):
            raise LuaError("attempt to index a number value (method '%s')" % name, line)
        if isinstance(obj, Tvb):
            # Wireshark's Tvb: the captured bytes (the canonical encoding: captured length = reported length)
            if name in ('len', 'reported_len', 'captured_len'):
                return len(obj.data)
            if name in ('reported_length_remaining',):
                off = args[0] if args else 0
                if not isinstance(off, int):
                    raise Unsupported('Tvb:%s with a symbolic offset' % name)
                return len(obj.data) - off if off <= len(obj.data) else -1
            if name == 'range':
                o = args[0] if args else 0
                l = args[1] if len(args) > 1 else len(obj.data) - o
                return self.call(obj, [o, l], line, name='range')
            if name == 'offset':
                return 0
            raise LuaError("attempt to call method '%s' (a nil value)" % name, line)
        raise Unsupported('method %s on %s' % (name, type(obj).__name__))

    def range_method(self, r, name, args, line):
        bs = r.buf.data[r.o:r.o + r.l]
        le = name.startswith('le_')
        base = name[3:] if le else name
        if base in ('uint', 'int'):
            if r.l not in (1, 2, 3, 4):
                raise LuaError('TvbRange:%s() does not handle %d byte integers' % (name, r.l), line)
            v = from_bytes(bs, le)
            c = conc(v)
            if c is not None:
                if base == 'int' and c >> (8 * r.l - 1):
                    c -= 1 << (8 * r.l)
                return c
            return v
        if base in ('uint64', 'int64'):
            if r.l < 1 or r.l > 8:
                raise LuaError('TvbRange:%s() does not handle %d byte integers' % (name, r.l), line)
            return UInt64Box(from_bytes(bs, le) if bs else z3.BitVecVal(0, 64))
        if base == 'float':
            if r.l not in (4, 8):
                raise LuaError('TvbRange:%s() does not handle %d byte floating numbers' % (name, r.l), line)
            return Opaque('float')
        if base in ('string', 'stringz', 'raw'):
            if any(conc(b) is None for b in bs):
                return SymStrVal(bs)
            return bytes(conc(b) for b in bs).decode('latin-1')
        if base in ('len',):
            return r.l
        if base in ('offset',):
            return r.o
        if base in ('bytes', 'tvb'):
            return Opaque(base)
        raise LuaError("attempt to call method '%s' (a nil value)" % name, line)


class SymStrVal:
    def __init__(self, bs):
        self.bs = list(bs)


class _Multi:
    def __init__(self, vals):
        self.vals = vals


def first(r):
    if isinstance(r, _Multi):
        return r.vals[0] if r.vals else None
    return r


class DTable:
    pass


class PInfoCol:
    pass


class PInfo:
    def __init__(self):
        self.cols = Table()

    def get(self, k):
        if k == 'cols':
            return PInfoCols()
        return Opaque(str(k))


class PInfoCols(Opaque):
    pass


def make_pinfo():
    return PInfo()


def lua_type(v):
    if v is None:
        return 'nil'
    if isinstance(v, bool):
        return 'boolean'
    if isinstance(v, (int, float)):
        return 'number'
    if isinstance(v, str):
        return 'string'
    if isinstance(v, Table):
        return 'table'
    if isinstance(v, (LuaFunc, Builtin)):
        return 'function'
    return 'userdata'


def describe(e):
    if e[0] == 'name':
        return "global '%s'" % e[1] if True else e[1]
    if e[0] == 'index' and e[2][0] == 'str':
        return "field '%s'" % e[2][1]
    return '?'
