"""DSL text families for pipeline B (the compiler's own code).  Texts are generated
systematically from the grammar (grammar/PacketDsl.g4): every rule alternative and every
optional element appears present and absent, semantically ill-formed combinations
included.  Each text carries a tag and, for ill-formed ones, the expected fault class and
the 1-based (first,last) line range of the offending declaration (C12 oracle input)."""
import itertools


class T:
    def __init__(self, tag, text, faults=(), wellformed=None, note=''):
        self.tag, self.text, self.note = tag, text, note
        self.faults = list(faults)       # [(class, first_line, last_line)]
        self.wellformed = (not self.faults) if wellformed is None else wellformed


OPTS_OK = [('StringPrefixLenType', 'u8'), ('ArrayPrefixLenType', 'u32'), ('LittleEndian', 'true'), ('LittleEndian', 'false'),
           ('JavaPackage', '"com.x.y"'), ('GoPackage', '"msg"'), ('GoModule', '"example.com/m"'),
           ('FixedStringPadFromLeft', 'true'), ('FixedStringPadChar', "'0'"), ('FixedStringPadChar', "' '"), ('FixedStringPadChar', "'\\x00'"),
           ('StringPrefixLenType', 'u64'), ('ArrayPrefixLenType', 'u16')]
OPTS_BAD = [('StringPrefixLenType', 'i8'), ('ArrayPrefixLenType', 'string'), ('LittleEndian', '1'), ('LittleEndian', '"yes"'),
            ('FixedStringPadFromLeft', '0'), ('FixedStringPadChar', '"x"'), ('StringPrefixLenType', 'uint16'), ('ArrayPrefixLenType', 'char[4]'),
            ('FixedStringPadChar', '0'), ('FixedStringPadChar', '7'), ('FixedStringPadChar', '""'), ('FixedStringPadChar', "''"), ('FixedStringPadChar', 'x'),
            ('ArrayPrefixLenType', 'uint8'), ('LittleEndian', 'TRUE')]

AUX = '''packet Other {
    u8 v,
}

packet Third {
    string s,
}
'''


def wrap_root(fields, pre='', post=AUX, root=True, name='Root'):
    """returns (text, line of first field)"""
    head = pre
    lines = head.count('\n')
    text = head + ('root ' if root else '') + 'packet %s {\n' % name
    first = lines + 2
    text += ''.join('    ' + f + '\n' for f in fields)
    text += '}\n\n' + post
    return text, first


def field_variants():
    """(tag, [field lines], faults-relative [(class, offset_first, offset_last)], wellformed)"""
    V = []

    def add(tag, lines, faults=(), wf=None):
        V.append((tag, lines, list(faults), (not faults) if wf is None else wf))
    # MetaField forms
    for i, t in enumerate(['u8', 'uint16', 'i32', 'int64', 'f32', 'float64', 'char', 'char[4]', 'zchar[3]', 'string', 'char[]']):
        add('meta_%s' % t.replace('[', '').replace(']', ''), ['%s a,' % t])
        if i % 3 == 0:
            add('meta_%s_doc' % t, ['%s a `the doc`,' % t])
        if i % 2 == 0:
            add('meta_%s_rep' % t.replace('[', '').replace(']', ''), ['repeat %s a,' % t])
    for t in ['char[0]', 'zchar[0]', 'char[00]', 'char[1]', 'zchar[1]', 'char[010]']:
        add('meta_%s' % t.replace('[', '_').replace(']', ''), ['%s a,' % t], wf=t in ('char[1]', 'zchar[1]'))
    add('meta_char0_attr', ["@leftPad('0')", 'char[0] a,'], wf=False)
    add('meta_char0_rep', ['repeat char[0] a,'], wf=False)
    # attributes
    for side in ('left', 'right'):
        for ch in ("'0'", "' '", "'\\x00'", ''):
            add('pad_%s_%s' % (side, {"'0'": 'zero', "' '": 'sp', "'\\x00'": 'nul', '': 'none'}[ch]), ['@%sPad(%s)' % (side, ch), 'char[6] a,'])
    add('pad_on_zchar', ["@leftPad('0')", 'zchar[6] a,'])
    add('pad_on_u8', ["@leftPad('0')", 'u8 a,'], wf=False)
    add('pad_on_string', ["@rightPad(' ')", 'string a,'], wf=False)
    add('pad_on_object', ["@rightPad(' ')", 'Other a,'], wf=False)
    add('pad_on_inline', ["@rightPad(' ')", 'Sub {', '    u8 x,', '},'], wf=False)
    add('pad_on_rep_fixed', ["@leftPad('0')", 'repeat char[3] a,'])
    add('pad_sameline', ["@leftPad('0') char[6] a,"])
    add('tag', ['@tag(49)', 'u16 a,'])
    add('tag_pad', ['@tag(49)', "@rightPad('0')", 'char[2] a,'])
    add('two_pads', ["@leftPad('0')", "@rightPad(' ')", 'char[2] a,'])
    # object fields
    add('obj', ['Other,'])
    add('obj_named', ['Other o,'])
    add('obj_doc', ['Other o `doc`,'])
    add('obj_rep', ['repeat Other os,'])
    add('obj_undeclared', ['Nope n,'], [('undeclared-packet', 0, 0)])
    add('obj_rep_undeclared', ['repeat Nope n,'], [('undeclared-packet', 0, 0)])
    add('obj_forward', ['Third t,'])
    # inline objects
    add('inline', ['Sub {', '    u8 x,', '    string y,', '},'])
    add('inline_rep', ['repeat Sub {', '    u8 x,', '},'])
    add('inline_nested', ['Sub {', '    u8 x,', '    Deep {', '        u16 y,', '    },', '},'])
    add('inline_obj_inside', ['Sub {', '    Other o,', '    repeat Third ts,', '},'])
    add('inline_undeclared_inside', ['Sub {', '    Nope o,', '},'], [('undeclared-packet', 1, 1)])
    add('inline_match_inside', ['Sub {', '    u8 k,', '    match k as b {', '        1 : Other,', '    },', '},'], wf=False)
    add('inline_len_inside', ['Sub {', '    u16 l @lengthOf(x),', '    Other x,', '},'], wf=False)
    # length-of
    add('len_inline', ['u16 Len @lengthOf(Body),', 'Other Body,'])
    add('len_prefixed', ['@lengthOf(Body)', 'u32 Len,', 'Other Body,'])
    add('len_doc', ['u16 Len @lengthOf(Body) `length`,', 'Other Body,'])
    add('len_notype', ['Len @lengthOf(Body),', 'Other Body,'], wf=False)
    add('len_undeclared_target', ['u16 Len @lengthOf(Nothing),', 'Other Body,'], [('undeclared-target', 0, 0)])
    add('len_twice', ['u16 Len @lengthOf(Body),', 'u16 Len2 @lengthOf(Body),', 'Other Body,'], [('len-twice', 1, 1)])
    add('len_twice_prefixed', ['u16 Len @lengthOf(Body),', '@lengthOf(Body)', 'u16 Len2,', 'Other Body,'], [('len-twice', 1, 2)])
    add('len_target_before', ['Other Body,', 'u16 Len @lengthOf(Body),'])
    add('len_match_target', ['u8 k,', 'u16 Len @lengthOf(b),', 'match k as b {', '    1 : Other,', '    2 : Third,', '},'])
    add('len_signed', ['i16 Len @lengthOf(Body),', 'Other Body,'])
    add('len_on_string_target', ['u16 Len @lengthOf(s),', 'string s,'])
    # checksum
    add('cks_inline', ['u32 Ck @calculatedFrom("CRC32"),'])
    add('cks_prefixed', ['@calculatedFrom("CRC32")', 'u16 Ck,'])
    add('cks_doc', ['u32 Ck @calculatedFrom("SUM") `checksum`,'])
    add('cks_notype', ['Ck @calculatedFrom("CRC32"),'], wf=False)
    add('cks_alias', ['uint32 Ck @calculatedFrom("CRC32"),'])
    # match
    add('match', ['u8 k,', 'match k as b {', '    1 : Other,', '    2 : Third,', '},'])
    add('match_nocomma', ['u8 k,', 'match k as b {', '    1 : Other', '    2 : Third', '},'])
    add('match_list', ['u16 k,', 'match k as b {', '    [1, 2, 3] : Other,', '    4 : Third,', '},'])
    add('match_list6', ['u16 k,', 'match k as b {', '    [1, 2, 3, 4, 5, 6] : Other,', '},'])
    add('match_list10', ['u16 k,', 'match k as b {', '    [1, 2, 3, 4, 5, 6, 7, 8, 9, 10] : Other,', '},'])
    add('match_str', ['string k,', 'match k as b {', '    "A" : Other,', '    ["B", "C"] : Third,', '},'])
    add('match_mixed_list', ['string k,', 'match k as b {', '    ["B", 7, "C"] : Third,', '},'], wf=False)
    add('match_undeclared_key', ['u8 k,', 'match nokey as b {', '    1 : Other,', '},'], [('undeclared-key', 1, 3)])
    add('match_undeclared_target', ['u8 k,', 'match k as b {', '    1 : Nope,', '},'], [('undeclared-packet', 2, 2)])
    add('match_dup_key', ['u8 k,', 'match k as b {', '    1 : Other,', '    1 : Third,', '},'], [('dup-key', 3, 3)])
    add('match_dup_key_list', ['u8 k,', 'match k as b {', '    [1, 2] : Other,', '    2 : Third,', '},'], [('dup-key', 3, 3)])
    add('match_dup_in_list', ['u8 k,', 'match k as b {', '    [1, 2, 1] : Other,', '    3 : Third,', '},'], [('dup-key', 2, 2)])
    add('match_dup_in_strlist', ['string k,', 'match k as b {', '    ["a", "b"] : Other,', '    ["c", "c"] : Third,', '},'], [('dup-key', 3, 3)])
    add('match_dup_in_list_last', ['u8 k,', 'match k as b {', '    1 : Other,', '    [7, 8, 9, 8] : Third,', '},'], [('dup-key', 3, 3)])
    add('match_key_after', ['match k as b {', '    1 : Other,', '},', 'u8 k,'])
    add('match_two', ['u8 k,', 'u8 j,', 'match k as b {', '    1 : Other,', '},', 'match j as c {', '    1 : Third,', '},'])
    add('match_self', ['u8 k,', 'match k as b {', '    1 : Root,', '},'], wf=False)
    # duplicates / meta typed
    add('dup_field', ['u8 a,', 'u16 a,'], [('dup-field', 1, 1)])
    add('dup_field_obj', ['Other a,', 'u16 a,'], [('dup-field', 1, 1)])
    add('metatyped', ['Price,', 'Price p,', 'repeat Price ps,', 'Sym s,', 'Px2 q,'])
    add('metatyped_pad', ["@leftPad('0')", 'Sym s,', 'Sym t,'])
    add('self_ref', ['Root r,'], wf=False)
    add('self_ref_rep', ['repeat Root rs,'], wf=False)
    add('empty_packet', [])
    return V


META = '''MetaData M {
    u64 Price `price`,
    char[6] Sym `symbol`,
    Price Px2 `ref`,
    string Memo `memo`,
}

'''


def family(tier='quick'):
    out = []
    for tag, lines, faults, wf in field_variants():
        pre = META if tag.startswith('metatyped') else ''
        fields = ['u8 first,'] + lines + ['u8 last,'] if tag not in ('empty_packet',) else lines
        off = 1 if tag != 'empty_packet' else 0
        text, first = wrap_root(fields, pre=pre)
        fs = [(c, first + off + a, first + off + b) for c, a, b in faults]
        out.append(T('f:' + tag, text, fs, wf))
        if tag.startswith(('len_', 'match_undeclared', 'obj_undeclared', 'dup_field', 'self_ref')) or tag in ('match', 'cks_inline', 'inline'):
            # the same in a non-root packet that follows a root packet (length-of is root only)
            text2, first2 = wrap_root(fields, pre='root packet Main {\n    u8 z,\n}\n\n', root=False, name='Root')
            fs2 = [(c, first2 + off + a, first2 + off + b) for c, a, b in faults]
            if tag.startswith('len_') and not any(c == 'undeclared-target' for c, _, _ in faults):
                k = [i for i, l in enumerate(lines) if 'lengthOf' in l]
                fs2 = [('len-nonroot', first2 + off + k[0], first2 + off + k[0] + (1 if lines[k[0]].startswith('@') else 0))] + \
                      ([('len-nonroot', first2 + off + k[1], first2 + off + k[1] + (1 if lines[k[1]].startswith('@') else 0))] if len(k) > 1 else [])
            out.append(T('n:' + tag, text2, fs2, wf and not fs2))
            # non-root packet declared BEFORE the root packet
            text3, first3 = wrap_root(fields, pre='', post='root packet Main {\n    u8 z,\n}\n\n' + AUX, root=False, name='Root')
            fs3 = [(c, a - first2 + first3, b - first2 + first3) for c, a, b in fs2]
            out.append(T('b:' + tag, text3, fs3, wf and not fs3))
    # options
    for n, v in OPTS_OK:
        out.append(T('o:ok_%s_%s' % (n, v.strip('"\'\\ ').replace('.', '_').replace('/', '_') or 'sp'), 'options {\n    %s = %s;\n}\n\nroot packet Root {\n    char[4] c,\n    string s,\n    repeat u8 l,\n}\n' % (n, v)))
    for n, v in OPTS_BAD:
        out.append(T('o:bad_%s_%s' % (n, v.strip('"\'').replace('[', '').replace(']', '')), 'options {\n    LittleEndian = true;\n    %s = %s;\n}\n\nroot packet Root {\n    u8 a,\n}\n' % (n, v),
                     [('bad-value', 3, 3)]))
    out.append(T('o:unknown', 'options {\n    Foo = 1;\n}\n\nroot packet Root {\n    u8 a,\n}\n', [('unknown-option', 2, 2)]))
    out.append(T('o:unknown_second', 'options {\n    LittleEndian = true;\n\n    CppNamespace = "x";\n}\n\nroot packet Root {\n    u8 a,\n}\n', [('unknown-option', 4, 4)]))
    out.append(T('o:dup', 'options {\n    LittleEndian = true;\n    LittleEndian = false;\n}\n\nroot packet Root {\n    u8 a,\n}\n', [('dup-option', 3, 3)]))
    out.append(T('o:dup_two_blocks', 'options {\n    GoPackage = "a";\n}\n\noptions {\n    GoPackage = "b";\n}\n\nroot packet Root {\n    u8 a,\n}\n', [('dup-option', 6, 6)]))
    out.append(T('o:nosemi', 'options {\n    LittleEndian = true\n    GoPackage = "m"\n}\n\nroot packet Root {\n    u8 a,\n}\n'))
    out.append(T('o:empty', 'options {\n}\n\nroot packet Root {\n    u8 a,\n}\n'))
    out.append(T('o:after_packet', 'root packet Root {\n    u8 a,\n}\n\noptions {\n    LittleEndian = true;\n}\n'))
    out.append(T('o:digits_value', 'options {\n    GoPackage = 12;\n}\n\nroot packet Root {\n    u8 a,\n}\n', wellformed=False))
    # MetaData
    out.append(T('m:ok', META + 'root packet Root {\n    Price p,\n    Memo,\n}\n'))
    out.append(T('m:nodoc', 'MetaData M {\n    u16 a,\n}\n\nroot packet Root {\n    a,\n}\n', wellformed=False))
    out.append(T('m:ref_nodoc', 'MetaData M {\n    u16 a `d`,\n    a b,\n}\n\nroot packet Root {\n    b x,\n}\n', wellformed=False))
    out.append(T('m:dup', 'MetaData M {\n    u16 a `d`,\n    u32 a `e`,\n}\n\nroot packet Root {\n    a x,\n}\n', [('dup-meta', 3, 3)]))
    out.append(T('m:dup_two_blocks', 'MetaData M {\n    u16 a `d`,\n}\n\nMetaData N {\n    string a `e`,\n}\n\nroot packet Root {\n    a x,\n}\n', [('dup-meta', 6, 6)]))
    out.append(T('m:dup_ref_then_typed', 'MetaData M {\n    u32 Base `b`,\n    Base Price `p`,\n    u64 Qty `q`,\n    u64 Price `p2`,\n}\n\nroot packet Root {\n    Price Px,\n    Qty Q,\n}\n', [('dup-meta', 5, 5)]))
    out.append(T('m:dup_typed_then_ref', 'MetaData M {\n    u32 Base `b`,\n    u64 Price `p`,\n    u64 Qty `q`,\n    Base Price `p2`,\n}\n\nroot packet Root {\n    Price Px,\n    Qty Q,\n}\n', [('dup-meta', 5, 5)]))
    out.append(T('m:dup_ref_ref', 'MetaData M {\n    u32 Base `b`,\n    Base Price `p`,\n    u64 Qty `q`,\n    Qty Price `p2`,\n}\n\nroot packet Root {\n    Price Px,\n    Qty Q,\n}\n', [('dup-meta', 5, 5)]))
    out.append(T('m:ref_undeclared', 'MetaData M {\n    nothing b `d`,\n}\n\nroot packet Root {\n    b x,\n}\n', wellformed=False))
    out.append(T('m:ref_forward', 'MetaData M {\n    a b `d`,\n    u8 a `e`,\n}\n\nroot packet Root {\n    b x,\n}\n', wellformed=False))
    out.append(T('m:empty', 'MetaData M {\n}\n\nroot packet Root {\n    u8 a,\n}\n'))
    out.append(T('m:zchar', 'MetaData M {\n    zchar[4] z `z`,\n    char[4] c `c`,\n}\n\nroot packet Root {\n    z a,\n    z b,\n    c d,\n}\n'))
    out.append(T('m:after_packet', 'root packet Root {\n    a x,\n}\n\nMetaData M {\n    u16 a `d`,\n}\n'))
    out.append(T('m:len_from_meta', 'MetaData M {\n    u32 BodyLength `len`,\n}\n\nroot packet Root {\n    BodyLength @lengthOf(Body),\n    Other Body,\n}\n\n' + AUX))
    out.append(T('m:cks_from_meta', 'MetaData M {\n    u32 Ck `ck`,\n}\n\nroot packet Root {\n    u8 a,\n    Ck @calculatedFrom("CRC32"),\n}\n'))
    # packet level
    out.append(T('p:empty_file', '', wellformed=False))
    out.append(T('p:only_comment', '// nothing here\n', wellformed=False))
    out.append(T('p:only_ws', '\n\n   \n', wellformed=False))
    out.append(T('p:dup_packet', 'root packet Root {\n    u8 a,\n}\n\npacket A {\n    u8 x,\n}\n\npacket A {\n    u16 y,\n}\n', [('dup-packet', 9, 11)]))
    out.append(T('p:dup_root_name', 'root packet Root {\n    u8 a,\n}\n\npacket Root {\n    u16 y,\n}\n', [('dup-packet', 5, 7)]))
    out.append(T('p:two_roots', 'root packet Root {\n    u8 a,\n}\n\nroot packet Second {\n    u16 y,\n}\n', [('multi-root', 5, 7)]))
    out.append(T('p:three_roots', 'root packet Root {\n    u8 a,\n}\n\npacket M {\n    u8 a,\n}\n\nroot packet Second {\n    u16 y,\n}\n\nroot packet Third {\n    u16 y,\n}\n',
                 [('multi-root', 9, 11), ('multi-root', 13, 15)]))
    dupin = 'root packet A {\n    u8 t,\n    Item {\n        u8 k,\n        B b,\n    },\n}\n\npacket C {\n    u16 n,\n    Item {\n        %s\n        B b2,\n    },\n}\n\npacket B {\n    u8 y,\n}\n'
    out.append(T('p:inline_dup_objfield', dupin % 'u8 pad,', note='two packets declare an inline object of the same name; the later one holds an object field'))
    out.append(T('p:inline_dup_undeclared', dupin % 'Missing Reason,', [('undeclared-packet', 12, 12)]))
    out.append(T('p:inline_dup_nested', 'root packet A {\n    Item {\n        u8 k,\n        Item {\n            B b,\n        },\n    },\n}\n\npacket B {\n    u8 y,\n}\n', wellformed=False))
    out.append(T('p:inline_like_packet', 'root packet A {\n    u8 t,\n    B {\n        C c,\n    },\n}\n\npacket B {\n    u8 y,\n}\n\npacket C {\n    u8 z,\n}\n', wellformed=False))
    out.append(T('p:inline_dup_match', 'root packet A {\n    u8 t,\n    Item {\n        u8 k,\n    },\n}\n\npacket C {\n    Item {\n        u8 q,\n        match q as body {\n            1 : B,\n            2 : Nope,\n        },\n    },\n}\n\npacket B {\n    u8 y,\n}\n', [('undeclared-packet', 13, 13)]))
    deep = 'root packet Root {\n    u8 a,\n' + ''.join('    ' * (i + 1) + 'L%d {\n' % i for i in range(30)) + '    ' * 31 + 'u8 x,\n' + ''.join('    ' * (30 - i) + '},\n' for i in range(30)) + '}\n'
    out.append(T('p:deep_inline_30', deep, note='thirty inline objects nested in one another: compile time stays proportional to the text'))
    out.append(T('p:special_strings', 'options {\n    GoPackage = "a{{b";\n    JavaPackage = "c%d";\n}\n\nroot packet Root {\n    u8 a `doc {{ .X }} and %s and {{`,\n    u32 cs @calculatedFrom("CRC{{32"),\n    string s `}} {{end}}`,\n}\n', wellformed=False))
    out.append(T('p:special_strings2', 'root packet Root {\n    u8 k `{{range}}`,\n    match k as b {\n        1 : Other,\n    },\n    @calculatedFrom("%d{{template \\"x\\"}}")\n    u16 c2,\n}\n\n' + AUX, wellformed=False))
    out.append(T('p:no_root', 'packet A {\n    u8 x,\n}\n\npacket B {\n    A a,\n}\n', wellformed=False))
    out.append(T('p:mutual_rec', 'root packet A {\n    B b,\n}\n\npacket B {\n    A a,\n}\n', wellformed=False))
    out.append(T('p:snake_collide', 'root packet Root {\n    MsgA a,\n    Msg_a b,\n}\n\npacket MsgA {\n    u8 x,\n}\n\npacket Msg_a {\n    u16 y,\n}\n', wellformed=False))
    out.append(T('p:many', 'root packet Root {\n    u8 k,\n    match k as b {\n        1 : A,\n        2 : B,\n        3 : C,\n    },\n}\n\npacket A {\n    B b,\n    C c,\n}\n\npacket B {\n    repeat C cs,\n}\n\npacket C {\n    u8 x,\n}\n'))
    out.append(T('p:oneline', 'root packet Root { u8 a, string b, repeat Other os, }\n' + AUX))
    # comments
    base = ['// file comment', 'options { // after brace', '    // before option', '    LittleEndian = true; // after option', '} // after options', '',
            '// before packet', 'root packet Root { // after packet brace', '    // before field', '    u8 a, // after field',
            "    @leftPad('0') // after attribute", '    char[4] c,', '    u8 k,', '    match k as b { // after match brace', '        // before pair',
            '        1 : Other, // after pair', '        [2, 3] : Third,', '    }, // after match', '    Sub { // after inline brace', '        u8 x, // inner',
            '    }, // after inline', '} // after packet', '', '// before aux', 'packet Other {', '    u8 v,', '}', '', 'packet Third {', '    string s,', '}', '// trailing comment']
    out.append(T('c:everywhere', '\n'.join(base) + '\n'))
    import re as _re
    out.append(T('c:blank_comments', _re.sub(r'//[^\n]*', '//   ', '\n'.join(base)) + '\n'))
    out.append(T('c:tab_comments', _re.sub(r'//[^\n]*', '//\t', '\n'.join(base)) + '\n'))
    out.append(T('c:empty_comments', '//\nroot packet Root {\n    //\n    u8 a, //\n    //   \n}\n//'))
    out.append(T('c:meta_comments', 'MetaData M { // brace\n    // before entry\n    u16 a `d`, // after entry\n    a b `e`,\n} // after meta\n\nroot packet Root {\n    b x,\n}\n'))
    # long tokens: a key / identifier / doc string / comment of about a hundred characters meets every width-dependent rule
    K1, K2, K3 = 'A' * 97, 'B' * 46, 'C' * 45
    out.append(T('l:long_keys2', 'root packet Root {\n    string k,\n    match k as b {\n        ["%s", "x"] : Other,\n        "%s" : Third,\n    },\n}\n\n' % (K1, 'D' * 130) + AUX))
    out.append(T('l:long_keylist_edge', 'root packet Root {\n    string k,\n    match k as b {\n  ["%s", "%s"] : Other,\n                                                  ["%s", "%s"] : Third,\n    },\n}\n\n' % (K2, K3, 'E' * 45, 'F' * 46) + AUX))
    out.append(T('l:long_ident_doc', 'root packet Root {\n    u8 %s `%s`, // %s\n    Other %s,\n}\n\n' % ('f' * 110, 'doc ' * 40, 'c' * 120, 'o' * 101) + AUX))
    # the same tokens with blanks / line breaks inside the multi-token rules (types, attributes, lists, options)
    out.append(T('l:inner_blanks', "options {\n    StringPrefixLenType   =   u8  ;\n    ArrayPrefixLenType = char[ 4 ];\n}\n\nMetaData M {\n    zchar[ 3 ] z `z`,\n}\n\nroot packet Root {\n    char[ 10 ] a,\n    zchar[\n        5\n    ] b,\n    @leftPad( '0' )\n    char[\t4\t] c,\n    u16 l @lengthOf( body ),\n    u8 k,\n    match k as body {\n        [ 1 ,\n          2 ] : Other,\n    },\n    u32 ck @calculatedFrom( \"CRC32\" ),\n}\n\n" + AUX, wellformed=False))
    out.append(T('l:bare_cr', 'root packet Root {\r    u8 a, // first\r    int8\rb,\r    Other o, // last\r}\r\r' + AUX.replace('\n', '\r')))
    out.append(T('l:mixed_cr', '// head\rroot packet Root {\n    u8 a,\r    u16 b, // c\r\n    string s,\n}\n'))
    out.append(T('l:double_blanks', 'root packet Root {\n    string k `two  blanks\tand a tab`,\n    match k as b {\n        "LO  " : Other, // two  blanks\n        ["A  B", "C\tD"] : Third,\n    },\n}\n\n' + AUX))
    out.append(T('l:no_final_newline', 'root packet Root {\n    u8 a,\n}\n\npacket Other {\n    u8 v,\n}\npacket AVeryLongLastLineWithoutALineTerminator { u8 %s, u16 z, }' % ('w' * 60)))
    out.append(T('l:acronym_whole_names', 'options {\n    GoPackage = "msg";\n    JavaPackage = "com.x";\n}\n\nroot packet Root {\n    u32 id,\n    string url,\n    u8 ip,\n    u16 ttl,\n    Uid uid,\n}\n\npacket Uid {\n    u64 Id,\n    u8 api,\n}\n'))
    out.append(T('l:faults_no_final_newline', 'root packet Root {\n    Nope a,\n}\n\npacket A {\n    u8 x,\n}\n\npacket A {\n    u16 y,\n}\npacket AVeryLongLastLineWithoutALineTerminator { u8 %s, u16 z, }' % ('w' * 60),
                 [('undeclared-packet', 2, 2), ('dup-packet', 9, 11)], note='diagnostics in a file whose last line is long and has no line terminator'))
    out.append(T('l:huge_comment', '// %s\nroot packet Root {\n    u8 a,\n}\n' % ('h' * 70000), note='a text of more than 64 KiB (one long comment): size limits of an entry point show'))
    out.append(T('o:dup_default_first', 'options {\n    LittleEndian = false;\n    LittleEndian = true;\n}\n\nroot packet Root {\n    u8 a,\n}\n', [('dup-option', 3, 3)]))
    out.append(T('o:dup_default_pfx', 'options {\n    StringPrefixLenType = u16;\n    ArrayPrefixLenType = u16;\n    StringPrefixLenType = u8;\n}\n\nroot packet Root {\n    string a,\n}\n', [('dup-option', 4, 4)]))
    out.append(T('o:dup_default_pad', 'options {\n    FixedStringPadFromLeft = false;\n}\n\noptions {\n    FixedStringPadFromLeft = true;\n}\n\nroot packet Root {\n    char[4] a,\n}\n', [('dup-option', 6, 6)]))
    out.append(T('c:between_tokens', 'root // c1\npacket // c2\nRoot // c3\n{\n    u8 // c4\n    a // c5\n    , // c6\n}\n'))
    return out
