"""Abstract protocol specs (PSpec), their DSL rendering, the systematic program family,
shapes and symbolic messages.  Nothing in here looks at /repo: the spec is the input of
both fin-protoc (as DSL text) and of the reference semantics (ref.py)."""
import itertools, hashlib
import re
import z3
from .core import bv

WIDTH = {'u8': 1, 'i8': 1, 'u16': 2, 'i16': 2, 'u32': 4, 'i32': 4, 'u64': 8, 'i64': 8,
         'f32': 4, 'f64': 8, 'char': 1}
ALIAS = {'u8': 'uint8', 'u16': 'uint16', 'u32': 'uint32', 'u64': 'uint64', 'i8': 'int8',
         'i16': 'int16', 'i32': 'int32', 'i64': 'int64', 'f32': 'float32', 'f64': 'float64',
         'char': 'char'}
SCALARS = ['u8', 'u16', 'u32', 'u64', 'i8', 'i16', 'i32', 'i64', 'f32', 'f64', 'char']
INTS = ['u8', 'u16', 'u32', 'u64', 'i8', 'i16', 'i32', 'i64']
PADCHARS = {"'0'": 0x30, "' '": 0x20, "'\\x00'": 0}


class F:
    """one declared field"""
    def __init__(self, kind, name, **kw):
        self.kind = kind      # basic fixed dyn obj inline meta match lengthof checksum
        self.name = name
        self.repeat = kw.pop('repeat', False)
        self.typ = kw.pop('typ', None)          # basic: scalar type; obj: packet name; meta: entry name
        self.alias = kw.pop('alias', False)     # spell the long alias (uint16)
        self.n = kw.pop('n', None)              # fixed
        self.z = kw.pop('z', False)             # zchar
        self.nspell = kw.pop('nspell', None)    # fixed: spelling of the size, e.g. '010' (decimal 10 whatever the leading zeros)
        self.pad = kw.pop('pad', None)          # None | ('left'|'right', None|"'0'"|"' '"|"'\\x00'")
        self.spelling = kw.pop('spelling', None)  # dyn: 'string'|'char[]'; lengthof/checksum: 'inline'|'prefixed'|'meta'
        self.fields = kw.pop('fields', None)    # inline
        self.key = kw.pop('key', None)          # match: key field name
        self.pairs = kw.pop('pairs', None)      # match: [([keys], packet)], key = int or str
        self.target = kw.pop('target', None)    # lengthof
        self.alg = kw.pop('alg', None)          # checksum
        self.doc = kw.pop('doc', None)
        self.tag = kw.pop('tag', None)
        self.explicit_name = kw.pop('explicit_name', True)  # obj: 'Type Name' vs 'Type'
        assert not kw, kw

    def clone(self, **kw):
        import copy
        c = copy.copy(self)
        for k, v in kw.items():
            setattr(c, k, v)
        return c


class Packet:
    def __init__(self, name, fields, root=False):
        self.name = name
        self.fields = fields
        self.root = root


class PSpec:
    def __init__(self, name, packets, options=None, meta=None, family='general', note='', may_reject=False):
        self.name = name
        self.may_reject = may_reject      # the compiler may answer with a diagnostic instead of code (not a documented construct)
        self.packets = packets
        self.options = dict(options or {})
        self.meta = list(meta or [])    # [(entry name, ('basic',t)|('fixed',n,z)|('dyn',)|('ref',other), doc)]
        self.family = family
        self.note = note

    # ---- option accessors (the *documented* meaning, not the model's) ----
    def little(self):
        return self.options.get('LittleEndian', 'false') == 'true'

    def strpfx(self):
        return self.options.get('StringPrefixLenType', 'u16')

    def listpfx(self):
        return self.options.get('ArrayPrefixLenType', 'u16')

    def default_pad(self):
        ch = self.options.get('FixedStringPadChar', "' '")
        left = self.options.get('FixedStringPadFromLeft', 'false') == 'true'
        return PADCHARS[ch], left

    def packet(self, name):
        for p in self.packets:
            if p.name == name:
                return p
        return None

    def root(self):
        for p in self.packets:
            if p.root:
                return p
        return None

    def meta_type(self, name):
        for n, t, d in self.meta:
            if n == name:
                if t[0] == 'ref':
                    return self.meta_type(t[1])
                return t
        return None

    def resolve(self, f):
        """semantic kind of a field after MetaData resolution:
        ('basic',t) ('fixed',n,padbyte,left) ('dyn',) ('obj',Packet) ('match',) ('lengthof',t,target) ('checksum',t,alg)"""
        if f.kind == 'basic':
            return ('basic', f.typ)
        if f.kind == 'fixed':
            return ('fixed', f.n) + self.padding_of(f.z, f.pad)
        if f.kind == 'dyn':
            return ('dyn',)
        if f.kind == 'obj':
            return ('obj', self.packet(f.typ))
        if f.kind == 'inline':
            return ('obj', Packet(f.name, f.fields))
        if f.kind == 'meta':
            t = self.meta_type(f.typ)
            if t[0] == 'basic':
                return ('basic', t[1])
            if t[0] == 'fixed':
                return ('fixed', t[1]) + self.padding_of(t[2], f.pad)
            return ('dyn',)
        if f.kind == 'match':
            return ('match',)
        if f.kind == 'lengthof':
            t = f.typ if f.spelling != 'meta' else self.meta_type(f.name)[1]
            return ('lengthof', t, f.target)
        if f.kind == 'checksum':
            t = f.typ if f.spelling != 'meta' else self.meta_type(f.name)[1]
            return ('checksum', t, f.alg)
        raise ValueError(f.kind)

    def padding_of(self, z, pad):
        if pad is not None:
            side, ch = pad
            return (PADCHARS[ch] if ch is not None else 0x20, side == 'left')
        if z:
            return (0, False)
        return self.default_pad()

    # ---- rendering ----
    def render(self):
        out = []
        if self.options:
            out.append('options {')
            for k, v in self.options.items():
                if k in ('JavaPackage', 'GoPackage', 'GoModule'):
                    v = '"%s"' % v
                out.append('    %s = %s;' % (k, v))
            out.append('}')
            out.append('')
        if self.meta:
            out.append('MetaData M {')
            for n, t, d in self.meta:
                out.append('    %s %s `%s`,' % (self._tystr(t), n, d or n))
            out.append('}')
            out.append('')
        for p in self.packets:
            out.append('%spacket %s {' % ('root ' if p.root else '', p.name))
            for f in p.fields:
                out.extend(self._render_field(f, 1, top=True))
            out.append('}')
            out.append('')
        return '\n'.join(out)

    def _tystr(self, t):
        if t[0] == 'basic':
            return t[1]
        if t[0] == 'fixed':
            return ('zchar[%d]' if t[2] else 'char[%d]') % t[1]
        if t[0] == 'dyn':
            return 'string'
        if t[0] == 'ref':
            return t[1]
        raise ValueError(t)

    def _render_field(self, f, ind, top):
        I = '    ' * ind
        rep = 'repeat ' if f.repeat else ''
        doc = (' `%s`' % f.doc) if f.doc else ''
        pre = []
        if f.tag is not None and top:
            pre.append(I + '@tag(%d)' % f.tag)
        if f.pad is not None and top:
            side, ch = f.pad
            pre.append(I + '@%sPad(%s)' % (side, ch if ch is not None else ''))
        if f.kind == 'basic':
            t = ALIAS[f.typ] if f.alias else f.typ
            return pre + [I + '%s%s %s%s,' % (rep, t, f.name, doc)]
        if f.kind == 'fixed':
            return pre + [I + '%s%s[%s] %s%s,' % (rep, 'zchar' if f.z else 'char', f.nspell or str(f.n), f.name, doc)]
        if f.kind == 'dyn':
            return pre + [I + '%s%s %s%s,' % (rep, f.spelling or 'string', f.name, doc)]
        if f.kind in ('obj', 'meta'):
            if f.explicit_name:
                return pre + [I + '%s%s %s%s,' % (rep, f.typ, f.name, doc)]
            return pre + [I + '%s%s%s,' % (rep, f.typ, doc)]
        if f.kind == 'inline':
            out = pre + [I + '%s%s {' % (rep, f.name)]
            for g in f.fields:
                out.extend(self._render_field(g, ind + 1, top=False))
            out.append(I + '},')
            return out
        if f.kind == 'lengthof':
            t = ALIAS[f.typ] if f.alias else f.typ
            if f.spelling == 'inline':
                return pre + [I + '%s %s @lengthOf(%s)%s,' % (t, f.name, f.target, doc)]
            if f.spelling == 'meta':
                return pre + [I + '%s @lengthOf(%s)%s,' % (f.name, f.target, doc)]
            return pre + [I + '@lengthOf(%s)' % f.target, I + '%s %s%s,' % (t, f.name, doc)]
        if f.kind == 'checksum':
            t = ALIAS[f.typ] if f.alias else f.typ
            if f.spelling == 'inline':
                return pre + [I + '%s %s @calculatedFrom("%s")%s,' % (t, f.name, f.alg, doc)]
            if f.spelling == 'meta':
                return pre + [I + '%s @calculatedFrom("%s")%s,' % (f.name, f.alg, doc)]
            return pre + [I + '@calculatedFrom("%s")' % f.alg, I + '%s %s%s,' % (t, f.name, doc)]
        if f.kind == 'match':
            out = pre + [I + 'match %s as %s {' % (f.key, f.name)]
            for keys, pk in f.pairs:
                ks = [('"%s"' % k if isinstance(k, str) else str(k)) for k in keys]
                if len(ks) == 1 and not getattr(f, 'force_list', False):
                    out.append(I + '    %s : %s,' % (ks[0], pk))
                else:
                    out.append(I + '    [%s] : %s,' % (', '.join(ks), pk))
            out.append(I + '},')
            return out
        raise ValueError(f.kind)


# ----------------------------------------------------------------------------
# shapes and symbolic messages

# dispatch family: constraints on the arbitrary payload bytes handed to a decoder (byte index -> allowed values), for programs whose
# payload packets do not decode from every byte string (a payload that dispatches again needs a key of its own table)
PAYLOAD_DOMAIN = {'disp_nested_samename': [(0, [5, 6, 7])], 'disp_nested_keyname': [(0, [1, 2])]}


class KeyLit(int):
    """a numeric match key with its spelling in the DSL text (`007`, `010`): an int for every consumer, the spelling when printed"""
    def __new__(cls, text):
        o = int.__new__(cls, int(text, 10))
        o.text = text
        return o

    def __str__(self):
        return self.text

    __repr__ = __str__

    def __deepcopy__(self, memo):
        return KeyLit(self.text)

    def __reduce__(self):
        return (KeyLit, (self.text,))


class Shape:
    """decides the concrete length of every string / list and the alternative of every
    match; identified by a small tuple so it can be printed in evidence"""
    def __init__(self, s, k, alt=0, salt=None):
        self.s, self.k, self.alt, self.salt = s, k, alt, salt

    def _h(self, path, mod):
        h = hashlib.sha1(('%s|%s' % (self.salt, path)).encode()).digest()
        return h[0] % mod

    RAGGED = ('ragged-last', 'ragged-first')

    def strlen(self, path, maxn=None):
        if self.salt in self.RAGGED:
            return min(self.s, maxn) if maxn is not None else self.s
        if self.salt is not None:
            m = (maxn if maxn is not None else self.s)
            return self._h(path, m + 1)
        if self.s == 'full':
            return maxn if maxn is not None else 2
        return min(self.s, maxn) if maxn is not None else self.s

    def listlen(self, path):
        if self.salt in self.RAGGED:
            # ragged nesting: a list that lives inside a list element is EMPTY in the last (first) element of the enclosing list
            # and has k elements in the others, so a message can end with an element that carries nothing but an empty list
            idx = re.findall(r'\[(\d+)\]', path)
            if not idx:
                return self.k
            i = int(idx[-1])
            return 0 if i == (self.k - 1 if self.salt == 'ragged-last' else 0) else self.k
        if self.salt is not None:
            return self._h('L' + path, self.k + 1)
        return self.k

    def altidx(self, path, n):
        return self.alt % n

    def ident(self):
        return {'s': self.s, 'k': self.k, 'alt': self.alt, 'salt': self.salt}

    def __repr__(self):
        return 'Shape(s=%s,k=%s,alt=%s,salt=%s)' % (self.s, self.k, self.alt, self.salt)


class Msg:
    """logical message of one packet: ordered dict field name -> value
    basic: BV(8w)   fixed/dyn: list of BV8   list: python list   obj: Msg   match: Msg (with .alt)"""
    def __init__(self, packet):
        self.packet = packet
        self.v = {}
        self.alt = None      # for match payloads: (keys, packet name, chosen key)
        self.wire = {}       # derived on-the-wire values of length-of / checksum fields (set by ref_enc)

    def __repr__(self):
        return 'Msg(%s,%r)' % (self.packet.name, self.v)


def build_msg(spec, packet, shape, path, asm, fixed_keys=None, symkey=False):
    """symbolic message for `packet`; value-domain assumptions are appended to asm.
    Match key fields are set to the concrete key of the chosen alternative unless symkey."""
    m = Msg(packet)
    # first pass: choose alternatives so that key fields can be pinned
    pinned = dict(fixed_keys or {})
    for f in packet.fields:
        if f.kind == 'match':
            idx = shape.altidx(path + '.' + f.name, sum(len(ks) for ks, _ in f.pairs))
            flat = [(k, pk) for ks, pk in f.pairs for k in ks]
            k, pk = flat[idx]
            if not symkey:
                pinned[f.key] = k
    for f in packet.fields:
        p = path + '.' + f.name
        sem = spec.resolve(f)
        if f.repeat:
            n = shape.listlen(p)
            m.v[f.name] = [elem_value(spec, f, sem, shape, '%s[%d]' % (p, i), asm) for i in range(n)]
        elif f.kind == 'match':
            idx = shape.altidx(p, sum(len(ks) for ks, _ in f.pairs))
            flat = [(k, pk) for ks, pk in f.pairs for k in ks]
            k, pk = flat[idx]
            sub = build_msg(spec, spec.packet(pk), shape, p, asm)
            sub.alt = (idx, pk, k)
            m.v[f.name] = sub
        else:
            val = elem_value(spec, f, sem, shape, p, asm)
            if f.name in pinned:
                kk = pinned[f.name]
                if isinstance(kk, int):
                    val = z3.BitVecVal(kk, val.size())
                else:
                    val = [z3.BitVecVal(c, 8) for c in kk.encode()]
            m.v[f.name] = val
    return m


def elem_value(spec, f, sem, shape, p, asm):
    if sem[0] in ('basic', 'lengthof', 'checksum'):
        return z3.BitVec(p, 8 * WIDTH[sem[1]])
    if sem[0] == 'fixed':
        n, pad, left = sem[1], sem[2], sem[3]
        k = shape.strlen(p, n)
        bs = [z3.BitVec('%s#%d' % (p, i), 8) for i in range(k)]
        if k > 0:
            # value domain: the value does not begin (left pad) / end (right pad) with its pad char
            asm.append(bs[0] != pad if left else bs[-1] != pad)
        return bs
    if sem[0] == 'dyn':
        k = shape.strlen(p)
        return [z3.BitVec('%s#%d' % (p, i), 8) for i in range(k)]
    if sem[0] == 'obj':
        return build_msg(spec, sem[1], shape, p, asm)
    raise ValueError(sem)


def shapes_for(tier, nalts=1):
    if tier == 'quick':
        base = [Shape(0, 0), Shape(1, 1), Shape(2, 2), Shape(0, 2), Shape(2, 1), Shape('full', 1),
                Shape(2, 2, salt='a')]
    else:
        base = [Shape(s, k) for s in (0, 1, 2, 3, 4, 'full') for k in (0, 1, 2, 3)]
        base += [Shape(4, 3, salt=x) for x in 'abcdefgh']
    out = []
    for a in range(max(1, nalts)):
        for sh in base:
            out.append(Shape(sh.s, sh.k, a, sh.salt))
    return out


def has_nested_lists(spec, pk, inlist=False, depth=0):
    """some list of the packet lives inside an element of another list"""
    if depth > 6:
        return False
    for f in pk.fields:
        sem = spec.resolve(f)
        if f.repeat and inlist:
            return True
        if sem[0] == 'obj' and has_nested_lists(spec, sem[1], inlist or f.repeat, depth + 1):
            return True
    return False


def count_alts(spec, packet):
    n = 1
    for f in packet.fields:
        if f.kind == 'match':
            n = max(n, sum(len(ks) for ks, _ in f.pairs))
        elif f.kind == 'obj' and spec.packet(f.typ):
            n = max(n, count_alts(spec, spec.packet(f.typ)))
    return n


# ----------------------------------------------------------------------------
# the program family

BASE_OPTS = {'JavaPackage': 'com.fp.msg', 'GoPackage': 'msg', 'GoModule': 'example.com/fp/msg'}


def opts(**kw):
    o = dict(BASE_OPTS)
    for k, v in kw.items():
        if v is not None:
            o[k] = v
    return o


ORDERS = [None, 'true', 'false']
PFX = [None, 'u8', 'u16', 'u32', 'u64']


def family(tier):
    progs = []
    thorough = tier == 'thorough'

    def add(name, packets, options, meta=None, fam='general', note='', may_reject=False):
        progs.append(PSpec(name, packets, options, meta, fam, note, may_reject))

    # ---- single-kind programs: one kind per packet, options the kind depends on ----
    # scalars: byte order only
    for le in ORDERS:
        fields = [F('basic', 'F%s' % t.capitalize(), typ=t, alias=(i % 2 == 1)) for i, t in enumerate(SCALARS) if t != 'char']
        add('scal_%s' % le, [Packet('Root', [F('obj', 'Body', typ='Scal')], root=True), Packet('Scal', fields)],
            opts(LittleEndian=le))
        add('char_%s' % le, [Packet('Root', [F('basic', 'Flag', typ='char'), F('basic', 'N', typ='u16')], root=True)],
            opts(LittleEndian=le), note='char scalar')
    # scalar lists: byte order x list prefix
    for le in ORDERS:
        for lp in (PFX if thorough else [None, 'u8', 'u32', 'u64']):
            fields = [F('basic', 'L%s' % t.capitalize(), typ=t, repeat=True) for t in ['u8', 'i16', 'u32', 'i64', 'f32', 'f64']]
            add('scallist_%s_%s' % (le, lp), [Packet('Root', fields, root=True)], opts(LittleEndian=le, ArrayPrefixLenType=lp))
    # dynamic strings: byte order x string prefix (x list prefix for lists)
    for le in ORDERS:
        for sp in PFX:
            add('str_%s_%s' % (le, sp), [Packet('Root', [F('dyn', 'Name', spelling='string'), F('basic', 'X', typ='u8'),
                                                          F('dyn', 'Alt', spelling='char[]')], root=True)],
                opts(LittleEndian=le, StringPrefixLenType=sp))
    for le in ORDERS:
        for sp, lp in ([(a, b) for a in PFX for b in PFX] if thorough else
                       [(None, None), ('u8', 'u32'), ('u32', 'u8'), ('u64', 'u16'), ('u16', 'u64'), ('u8', 'u8'), (None, 'u32'), ('u8', None),
                        (None, 'u8'), ('u32', None)]):
            add('strlist_%s_%s_%s' % (le, sp, lp), [Packet('Root', [F('dyn', 'Names', repeat=True, spelling='string'),
                                                                  F('basic', 'X', typ='u16')], root=True)],
                opts(LittleEndian=le, StringPrefixLenType=sp, ArrayPrefixLenType=lp))
    # fixed strings: attribute forms x default padding options
    padforms = [None, ('left', "'0'"), ('right', "'0'"), ('left', "' '"), ('right', "' '"), ('left', "'\\x00'"),
                ('right', "'\\x00'"), ('left', None), ('right', None)]
    for i, pf in enumerate(padforms):
        add('fixed_attr%d' % i, [Packet('Root', [F('fixed', 'Code', n=4, pad=pf), F('basic', 'X', typ='u8'),
                                                 F('fixed', 'One', n=1, pad=pf)], root=True)], opts())
    add('zchar', [Packet('Root', [F('fixed', 'Z', n=5, z=True), F('fixed', 'C', n=3)], root=True)], opts())
    for fl in [None, 'true', 'false']:
        for pc in [None, "'0'", "' '", "'\\x00'"]:
            if fl is None and pc is None:
                continue
            add('fixed_opt_%s_%s' % (fl, {None: 'n', "'0'": 'zero', "' '": 'sp', "'\\x00'": 'nul'}[pc]),
                [Packet('Root', [F('fixed', 'Code', n=4), F('fixed', 'Z', n=3, z=True),
                                 F('fixed', 'P', n=4, pad=('left', "'0'")), F('fixed', 'Q', n=4, pad=('right', "' '")),
                                 F('fixed', 'R', n=3, pad=('right', None)), F('fixed', 'Qs', n=2, pad=('right', "' '"), repeat=True)], root=True)],
                opts(FixedStringPadFromLeft=fl, FixedStringPadChar=pc))
    for le in ORDERS[:2]:
        for lp in [None, 'u8', 'u32']:
            add('fixedlist_%s_%s' % (le, lp), [Packet('Root', [F('fixed', 'Codes', n=3, repeat=True),
                                                              F('fixed', 'Zs', n=2, z=True, repeat=True),
                                                              F('fixed', 'Ps', n=4, pad=('left', "'0'"), repeat=True)], root=True)],
                opts(LittleEndian=le, ArrayPrefixLenType=lp))
    # objects: referenced (name = type, name != type), inline, repeated
    det = Packet('Detail', [F('dyn', 'RuleName', spelling='string'), F('basic', 'Code', typ='u16')])
    for le in ORDERS[:2]:
        for lp in [None, 'u8', 'u32']:
            add('objs_%s_%s' % (le, lp),
                [Packet('Root', [F('obj', 'Detail', typ='Detail', explicit_name=False), F('basic', 'Mid', typ='u32'),
                                 F('obj', 'Details', typ='Detail', repeat=True)], root=True), det],
                opts(LittleEndian=le, ArrayPrefixLenType=lp))
            add('inline_%s_%s' % (le, lp),
                [Packet('Root', [F('inline', 'Sub', fields=[F('fixed', 'Id', n=4), F('basic', 'Px', typ='f64')]),
                                 F('inline', 'Legs', repeat=True, fields=[F('basic', 'Qty', typ='i32'), F('dyn', 'Sym', spelling='string')]),
                                 F('basic', 'Tail', typ='u8')], root=True)],
                opts(LittleEndian=le, ArrayPrefixLenType=lp))
    add('objs_named', [Packet('Root', [F('obj', 'D', typ='Detail'), F('obj', 'Ds', typ='Detail', repeat=True)], root=True), det], opts())
    # MetaData-typed fields
    meta = [('Price', ('basic', 'u64'), 'price'), ('Symbol', ('fixed', 6, False), 'sym'), ('Memo', ('dyn',), 'memo'),
            ('Px2', ('ref', 'Price'), 'px2'), ('ZName', ('fixed', 4, True), 'zn')]
    for le in ORDERS[:2]:
        add('meta_%s' % le, [Packet('Root', [F('meta', 'Price', typ='Price', explicit_name=False), F('meta', 'Sym', typ='Symbol'),
                                             F('meta', 'Memo', typ='Memo', explicit_name=False), F('meta', 'Last', typ='Px2'),
                                             F('meta', 'Prices', typ='Price', repeat=True), F('meta', 'Zn', typ='ZName')], root=True)],
            opts(LittleEndian=le), meta=meta)
    add('meta_pad_alias', [Packet('Root', [F('meta', 'A', typ='Symbol', pad=('left', "'0'")), F('meta', 'B', typ='Symbol'),
                                           F('basic', 'X', typ='u8')], root=True)], opts(), meta=meta,
        note='padding attribute on one of two fields sharing a MetaData entry')
    add('meta_zpad_alias', [Packet('Root', [F('meta', 'B0', typ='ZName'), F('meta', 'A', typ='ZName', pad=('left', "'0'")), F('meta', 'B', typ='ZName'),
                                            F('meta', 'Bs', typ='ZName', repeat=True)], root=True)], opts(), meta=meta,
        note='padding attribute on one of several fields sharing a zchar MetaData entry (which carries its own padding)')
    add('objs_named_both', [Packet('Root', [F('basic', 'Id', typ='u32'), F('obj', 'Detail', typ='Detail', explicit_name=False), F('obj', 'Hedge', typ='Detail'),
                                            F('obj', 'Fill', typ='Fill', explicit_name=False, repeat=True), F('obj', 'Fixes', typ='Fill', repeat=True)], root=True),
                            det, Packet('Fill', [F('basic', 'Px', typ='u64'), F('basic', 'Qty', typ='u32')])], opts(),
        note='named and unnamed object fields of the same packet type side by side')
    add('fixed_sizespell', [Packet('Root', [F('basic', 'Seq', typ='u32'), F('fixed', 'Symbol', n=8, nspell='08'), F('fixed', 'Account', n=10, nspell='010'),
                                            F('fixed', 'Venue', n=16, nspell='0016', z=True), F('basic', 'Qty', typ='u32')], root=True)], opts(),
        note='fixed-string sizes written with leading zeros are decimal')
    add('opt_alias_values', [Packet('Root', [F('basic', 'Nums', typ='u32', repeat=True), F('dyn', 'Name', spelling='string'), F('dyn', 'Names', spelling='string', repeat=True)], root=True)],
        opts(ArrayPrefixLenType='uint8', StringPrefixLenType='uint16'),
        note='long spellings as option values: either a diagnostic, or code that means u8/u16', may_reject=True)
    # aliases (entry typed by another entry), alias of alias, of every entry kind
    meta2 = meta + [('ZAlias', ('ref', 'ZName'), 'za'), ('ZAlias2', ('ref', 'ZAlias'), 'za2'), ('SymAlias', ('ref', 'Symbol'), 'sa'),
                    ('MemoAlias', ('ref', 'Memo'), 'ma'), ('Px3', ('ref', 'Px2'), 'px3')]
    for nm, o in (('meta_alias', opts()), ('meta_alias_pad', opts(FixedStringPadChar="'0'", FixedStringPadFromLeft='true', LittleEndian='true'))):
        add(nm, [Packet('Root', [F('meta', 'Z0', typ='ZName'), F('meta', 'Z1', typ='ZAlias'), F('meta', 'Z2', typ='ZAlias2'),
                                 F('meta', 'S1', typ='SymAlias'), F('meta', 'M1', typ='MemoAlias'), F('meta', 'P3', typ='Px3'),
                                 F('meta', 'Zs', typ='ZAlias', repeat=True), F('meta', 'Ss', typ='SymAlias', repeat=True)], root=True)],
            o, meta=meta2, note='MetaData aliases keep the aliased entry\'s kind, size and padding')

    # ---- structured programs ----
    logon = Packet('Logon', [F('fixed', 'UserName', n=4, pad=('left', "'0'")), F('dyn', 'Password', spelling='string'),
                             F('basic', 'ClientId', typ='u64')])
    logout = Packet('Logout', [F('basic', 'Reason', typ='i8')])
    hb = Packet('Heartbeat', [])
    # length-of family
    for w in ['u8', 'u16', 'u32', 'u64']:
        for sp in ['inline', 'prefixed']:
            for le in ORDERS[:2]:
                for tgt in ['match', 'obj']:
                    if tgt == 'match':
                        body = F('match', 'Body', key='MsgType', pairs=[([1], 'Logon'), ([2], 'Logout'), ([3], 'Heartbeat')])
                        pk = [logon, logout, hb]
                    else:
                        body = F('obj', 'Body', typ='Logon')
                        pk = [logon]
                    add('len_%s_%s_%s_%s' % (w, sp, le, tgt),
                        [Packet('Root', [F('basic', 'MsgType', typ='u16'), F('lengthof', 'BodyLength', typ=w, target='Body', spelling=sp, alias=(le == 'true')),
                                         body, F('basic', 'Tail', typ='u8')], root=True)] + pk,
                        opts(LittleEndian=le), fam='lengthof')
    add('len_meta', [Packet('Root', [F('basic', 'MsgType', typ='u16'), F('lengthof', 'BodyLength', typ='u32', target='Body', spelling='meta'),
                                      F('obj', 'Body', typ='Logon')], root=True), logon],
        opts(), meta=[('BodyLength', ('basic', 'u32'), 'len')], fam='lengthof')
    add('len_cks_inner', [Packet('Root', [F('basic', 'Seq', typ='u32'), F('lengthof', 'BodyLength', typ='u16', target='Body', spelling='inline'),
                                           F('obj', 'Body', typ='Inner'), F('basic', 'Tail', typ='u8')], root=True),
                          Packet('Inner', [F('basic', 'A', typ='u16'), F('dyn', 'S', spelling='string'), F('checksum', 'Check', typ='u16', alg='SUM16', spelling='inline')])],
        opts(), fam='combined', note='the length-of target holds a checksum field: the checksum covers every byte written before it, header included')
    add('len_cks_inner_match', [Packet('Root', [F('basic', 'MsgType', typ='u16'), F('lengthof', 'BodyLength', typ='u32', target='Body', spelling='prefixed'),
                                                 F('match', 'Body', key='MsgType', pairs=[([1], 'Inner'), ([2], 'Logout')])], root=True),
                                Packet('Inner', [F('basic', 'A', typ='u16'), F('checksum', 'Check', typ='u32', alg='CRC32', spelling='prefixed'), F('basic', 'After', typ='u8')]), logout],
        opts(LittleEndian='true'), fam='combined')
    for le in ORDERS[:2]:
        add('len_gap_obj_%s' % le, [Packet('Root', [F('lengthof', 'BodyLength', typ='u16', target='Body', spelling='inline'), F('basic', 'SeqNo', typ='u32'), F('dyn', 'Note', spelling='string'),
                                                    F('obj', 'Body', typ='Logon'), F('basic', 'Tail', typ='u8')], root=True), logon], opts(LittleEndian=le), fam='lengthof',
            note='ordinary fields between the length field and an object target')
    add('len_gap_inline', [Packet('Root', [F('lengthof', 'BodyLength', typ='u32', target='Body', spelling='prefixed'), F('basic', 'SeqNo', typ='u64'),
                                           F('inline', 'Body', fields=[F('dyn', 'S', spelling='string'), F('basic', 'V', typ='u16')]), F('basic', 'Tail', typ='u8')], root=True)],
        opts(), fam='lengthof')
    # object targets made of fixed-width fields only - with and without lists among them (a list is never fixed-size)
    for le in ORDERS[:2]:
        add('len_obj_fixedonly_%s' % le, [Packet('Root', [F('lengthof', 'BodyLength', typ='u16', target='Body', spelling='inline'), F('obj', 'Body', typ='Flat')], root=True),
                                          Packet('Flat', [F('basic', 'A', typ='u32'), F('fixed', 'Sym', n=4), F('basic', 'B', typ='u8')])], opts(LittleEndian=le), fam='lengthof')
        add('len_obj_numlists_%s' % le, [Packet('Root', [F('lengthof', 'BodyLength', typ='u16', target='Body', spelling='prefixed'), F('obj', 'Body', typ='Book')], root=True),
                                         Packet('Book', [F('basic', 'A', typ='u32'), F('basic', 'Levels', typ='u16', repeat=True), F('fixed', 'Tags', n=4, repeat=True),
                                                         F('obj', 'Leg', typ='Leg')]),
                                         Packet('Leg', [F('basic', 'Q', typ='u64', repeat=True), F('fixed', 'Z', n=2, z=True)])], opts(LittleEndian=le), fam='lengthof',
            note='the object target has only fixed-width ELEMENT types, but some of them repeated')
    add('len_inlineobj', [Packet('Root', [F('lengthof', 'BodyLength', typ='u16', target='Body', spelling='inline'),
                                           F('inline', 'Body', fields=[F('dyn', 'S', spelling='string'), F('basic', 'V', typ='u32', repeat=True)])], root=True)],
        opts(LittleEndian='true'), fam='lengthof')
    for le in ORDERS[:2]:
        for w in ['u16', 'u32']:
            add('len_gap_%s_%s' % (w, le),
                [Packet('Root', [F('lengthof', 'BodyLength', typ=w, target='Body', spelling='inline'), F('basic', 'MsgType', typ='u16'),
                                 F('basic', 'SeqNo', typ='u32'),
                                 F('match', 'Body', key='MsgType', pairs=[([1], 'Logon'), ([2], 'Logout'), ([3], 'Heartbeat')]),
                                 F('basic', 'Tail', typ='u8')], root=True), logon, logout, hb],
                opts(LittleEndian=le), fam='lengthof', note='ordinary fields between the length field and its target')
    # match family
    pa = Packet('Alpha', [F('basic', 'A', typ='u8')])
    pb = Packet('Beta', [F('basic', 'B', typ='u16')])
    pc = Packet('Gamma', [])
    for kt in INTS:
        for le in ORDERS[:2]:
            add('disp_%s_%s' % (kt, le),
                [Packet('Root', [F('basic', 'Kind', typ=kt), F('match', 'Payload', key='Kind', pairs=[([1], 'Alpha'), ([2, 200 if kt != 'i8' else 120, 7], 'Beta'), ([3], 'Alpha'), ([100], 'Gamma')])],
                        root=True), pa, pb, pc], opts(LittleEndian=le), fam='dispatch')
    for kt, hi in (('u16', [40000, 65535]), ('u32', [3000000000, 4294967295]), ('u64', [9223372036854775808, 18446744073709551615]), ('i64', [9223372036854775807])):
        add('disp_hi_%s' % kt,
            [Packet('Root', [F('basic', 'Kind', typ=kt), F('match', 'Payload', key='Kind', pairs=[([1], 'Alpha'), (hi, 'Beta'), ([3], 'Gamma')])], root=True), pa, pb, pc],
            opts(), fam='dispatch', note='keys at and above the signed boundary of the key type')
    for le in ORDERS[:2]:
        add('disp_len_%s' % le,
            [Packet('Root', [F('basic', 'Kind', typ='u8'), F('lengthof', 'Len', typ='u16', target='Payload', spelling='inline'),
                             F('match', 'Payload', key='Kind', pairs=[([1], 'Alpha'), ([2, 7], 'Beta'), ([100], 'Gamma')])], root=True), pa, pb, pc],
            opts(LittleEndian=le), fam='dispatch', note='the match is measured by a length-of field: a length of zero (field-less packet, or chosen by the peer) must not switch the dispatch off')
    add('disp_nonroot_before', [Packet('Root', [F('basic', 'Len', typ='u16'), F('obj', 'Env', typ='Envelope'), F('basic', 'Tail', typ='u32')], root=True), pa, pb,
                                Packet('Envelope', [F('basic', 'T', typ='u8'), F('match', 'Inner', key='T', pairs=[([1], 'Alpha'), ([2], 'Beta')])])],
        opts(), fam='dispatch', note='a non-root packet holding a match is embedded by the root; its payload packets are declared before it')
    add('disp_nested_samename', [Packet('Root', [F('basic', 'Kind', typ='u8'), F('match', 'Body', key='Kind', pairs=[([1], 'Mid'), ([2], 'Alpha'), ([9], 'Gamma')])], root=True),
                                 Packet('Mid', [F('basic', 'Sub', typ='u8'), F('match', 'Body', key='Sub', pairs=[([5], 'Alpha'), ([6, 7], 'Beta')])]), pa, pb, pc],
        opts(), fam='dispatch', note='a match payload that dispatches again through a match field of the SAME name: each packet keeps its own table')
    add('disp_nested_keyname', [Packet('Root', [F('basic', 'Kind', typ='u16'), F('match', 'Outer', key='Kind', pairs=[([1], 'Mid'), ([2], 'Beta')])], root=True),
                                Packet('Mid', [F('basic', 'Kind', typ='u8'), F('match', 'Inner', key='Kind', pairs=[([1], 'Beta'), ([2], 'Alpha')])]), pa, pb],
        opts(LittleEndian='true'), fam='dispatch', note='nested dispatch whose key fields share a name while the tables differ')
    add('disp_manyfields', [Packet('Root', [F('basic', 'Kind', typ='u16')] + [F('basic', 'F%02d' % i, typ='u8') for i in range(70)] +
                                   [F('match', 'Payload', key='Kind', pairs=[([1], 'Alpha'), ([2, 3], 'Beta')]), F('basic', 'Tail', typ='u16')], root=True), pa, pb],
        opts(), fam='dispatch', note='more than 64 fields between the key field and the match that uses it')
    add('disp_keyruns', [Packet('Root', [F('basic', 'Kind', typ='u8'), F('match', 'Payload', key='Kind',
                                                                        pairs=[([1], 'Alpha'), ([10, 11, 20], 'Beta'), ([12], 'Gamma'), ([30, 31, 32, 40], 'Alpha'), ([33], 'Beta')])], root=True), pa, pb, pc],
        opts(), fam='dispatch', note='key lists that are almost, but not quite, consecutive runs')
    add('disp_strspecial', [Packet('Root', [F('dyn', 'Kind', spelling='string'),
                                            F('match', 'Payload', key='Kind', pairs=[(['100%%', 'p%d'], 'Alpha'), (['%s', 'a{{b'], 'Beta'), ([' B', 'B '], 'Gamma')])], root=True), pa, pb, pc],
        opts(), fam='dispatch', note='string keys with characters that are special in format strings / templates, and with blanks at the border')
    add('disp_fixedkey', [Packet('Root', [F('fixed', 'Kind', n=2), F('match', 'Payload', key='Kind', pairs=[(['A'], 'Alpha'), ([' B', 'BB'], 'Beta')])], root=True), pa, pb],
        opts(), fam='dispatch', note='fixed-width string key field', may_reject=True)
    add('disp_str', [Packet('Root', [F('dyn', 'Kind', spelling='string'),
                                     F('match', 'Payload', key='Kind', pairs=[(['AA'], 'Alpha'), (['BB', 'CC', 'D'], 'Beta')])], root=True), pa, pb],
        opts(), fam='dispatch')
    add('disp_strlist', [Packet('Root', [F('dyn', 'Kind', spelling='string'),
                                         F('match', 'Payload', key='Kind', pairs=[(['X', 'YZ'], 'Alpha')])], root=True), pa],
        opts(LittleEndian='true'), fam='dispatch')
    add('disp_nonroot', [Packet('Root', [F('obj', 'Env', typ='Envelope')], root=True),
                         Packet('Envelope', [F('basic', 'T', typ='u32'), F('match', 'Inner', key='T', pairs=[([5], 'Alpha'), ([6, 70000], 'Beta')]),
                                             F('basic', 'After', typ='u8')]), pa, pb],
        opts(), fam='dispatch')
    for kt in INTS:
        for le in ORDERS[:2]:
            pairs = [([1], 'Logon'), ([2, 7], 'Logout'), ([100], 'Heartbeat')]
            add('match_%s_%s' % (kt, le),
                [Packet('Root', [F('basic', 'MsgType', typ=kt), F('match', 'Body', key='MsgType', pairs=pairs)], root=True), logon, logout, hb],
                opts(LittleEndian=le), fam='match')
    add('match_single', [Packet('Root', [F('basic', 'Kind', typ='u8'), F('match', 'Payload', key='Kind', pairs=[([9], 'Logout')]),
                                          F('basic', 'After', typ='u16')], root=True), logout], opts(), fam='match')
    add('match_strkey', [Packet('Root', [F('dyn', 'MsgType', spelling='string'),
                                          F('match', 'Body', key='MsgType', pairs=[(['A'], 'Logon'), (['B', 'CD'], 'Logout')])], root=True), logon, logout],
        opts(), fam='match')
    add('match_fixkey', [Packet('Root', [F('fixed', 'MsgType', n=2),
                                          F('match', 'Body', key='MsgType', pairs=[(['AA'], 'Logon'), (['BB'], 'Logout')])], root=True), logon, logout],
        opts(), fam='match')
    add('match_two', [Packet('Root', [F('basic', 'K1', typ='u8'), F('basic', 'K2', typ='u16'),
                                       F('match', 'First', key='K1', pairs=[([1], 'Logon'), ([2], 'Logout')]),
                                       F('match', 'Second', key='K2', pairs=[([10], 'Logout'), ([20], 'Heartbeat')])], root=True), logon, logout, hb],
        opts(LittleEndian='true'), fam='match', note='two match fields in one packet')
    add('match_nonroot', [Packet('Root', [F('obj', 'Env', typ='Envelope')], root=True),
                          Packet('Envelope', [F('basic', 'T', typ='u32'), F('match', 'Inner', key='T', pairs=[([5], 'Logout'), ([6], 'Logon')])]), logon, logout],
        opts(), fam='match')
    # checksum family
    for w in INTS:
        for sp in ['inline', 'prefixed']:
            for le in ORDERS[:2]:
                add('cks_%s_%s_%s' % (w, sp, le),
                    [Packet('Root', [F('basic', 'A', typ='u16'), F('dyn', 'S', spelling='string'),
                                     F('checksum', 'Check', typ=w, alg='CRC32', spelling=sp, alias=(le is None))], root=True)],
                    opts(LittleEndian=le), fam='checksum')
    add('cks_mid', [Packet('Root', [F('basic', 'A', typ='u32'), F('checksum', 'Check', typ='u32', alg='SUM8', spelling='inline'),
                                     F('basic', 'After', typ='u16')], root=True)], opts(LittleEndian='true'), fam='checksum',
        note='checksum field followed by another field')
    add('cks_meta_samename', [Packet('Root', [F('basic', 'A', typ='u16'), F('checksum', 'Checksum', typ='u16', alg='CRC16', spelling='prefixed'), F('basic', 'B', typ='u8'),
                                               F('checksum', 'Crc', typ='u16', alg='SUM16', spelling='inline')], root=True)],
        opts(LittleEndian='true'), meta=[('Checksum', ('basic', 'u32'), 'a MetaData entry that happens to share the field name'), ('Crc', ('basic', 'u64'), 'same')], fam='checksum',
        note='an explicitly typed checksum field keeps its declared width when a MetaData entry of the same name exists')
    add('cks_case', [Packet('Root', [F('basic', 'A', typ='u16'), F('checksum', 'Head', typ='u32', alg='crc32c', spelling='inline'),
                                      F('dyn', 'S', spelling='string'), F('checksum', 'Check', typ='u32', alg='Adler32', spelling='prefixed')], root=True)],
        opts(LittleEndian='true'), fam='checksum', note='algorithm names are case sensitive and used as written, in both spellings')
    add('cks_two_same_width', [Packet('Root', [F('checksum', 'Head', typ='u32', alg='ADLER32', spelling='inline'), F('basic', 'A', typ='u16'),
                                                F('dyn', 'S', spelling='string'), F('checksum', 'Check', typ='u32', alg='CRC32', spelling='prefixed')], root=True)],
        opts(LittleEndian='true'), fam='checksum', note='two checksum fields of the same width and different algorithms in one packet')
    for le in (None, 'true'):
        for lp in (None, 'u8'):
            add('nestlist_%s_%s' % (le, lp),
                [Packet('Root', [F('basic', 'Seq', typ='u16'), F('obj', 'Levels', typ='Level', repeat=True), F('basic', 'Tail', typ='u16')], root=True),
                 Packet('Level', [F('basic', 'Px', typ='u32'), F('basic', 'Qtys', typ='u16', repeat=True)])],
                opts(LittleEndian=le, ArrayPrefixLenType=lp), note='a list of objects that hold a list themselves; the message may end with an element whose inner list is empty')
    add('nestlist_inline', [Packet('Root', [F('inline', 'Legs', repeat=True, fields=[F('basic', 'Side', typ='u8'), F('dyn', 'Tags', spelling='string', repeat=True)])], root=True)],
        opts(ArrayPrefixLenType='u8', StringPrefixLenType='u8'), note='repeated inline object whose last member is a list of strings; nothing follows the list')
    add('cks_inline_only', [Packet('Root', [F('basic', 'A', typ='u16'), F('dyn', 'S', spelling='string'),
                                            F('inline', 'Trailer', fields=[F('basic', 'Flags', typ='u8'), F('checksum', 'CheckSum', typ='u32', alg='CRC32', spelling='inline')])], root=True)],
        opts(), fam='checksum', note='the only calculated-from field of the program sits inside an inline object')
    add('cks_obj_only', [Packet('Root', [F('basic', 'A', typ='u16'), F('obj', 'Body', typ='Payload'), F('obj', 'End', typ='Trailer')], root=True),
                         Packet('Payload', [F('basic', 'Qty', typ='u32'), F('dyn', 'S', spelling='string')]),
                         Packet('Trailer', [F('checksum', 'CheckSum', typ='u32', alg='SUM32', spelling='prefixed')])],
        opts(LittleEndian='true'), fam='checksum', note='the checksum lives in a referenced packet that is encoded after a header and a body: it covers all of them')
    add('cks_two_widths', [Packet('Root', [F('checksum', 'Head', typ='u16', alg='SUM16', spelling='inline'), F('basic', 'A', typ='u16'),
                                            F('checksum', 'Check', typ='u32', alg='CRC32', spelling='inline')], root=True)],
        opts(), fam='checksum')
    add('docs_special', [Packet('Root', [F('basic', 'A', typ='u16', doc='two\nlines of "doc" with 50% and {{braces}} and a \\ backslash'),
                                         F('lengthof', 'Len', typ='u16', target='Body', spelling='inline', doc='100% of Body, max 50%d'),
                                         F('obj', 'Body', typ='DocBody', doc="it's */ a -- doc #1"),
                                         F('checksum', 'Check', typ='u32', alg='CRC32', spelling='inline', doc='sum %s\nsecond line')], root=True),
                         Packet('DocBody', [F('dyn', 'S', spelling='string', doc='"""triple""" quotes'), F('fixed', 'Z', n=3, doc='tab\there')])],
        opts(), fam='combined', note='doc strings with newlines, quotes, percent signs, braces and comment terminators of the target languages')
    add('objs_empty', [Packet('Root', [F('basic', 'A', typ='u8'), F('obj', 'Mark', typ='Marker'), F('basic', 'B', typ='u16'), F('obj', 'Pads', typ='Marker', repeat=True),
                                       F('basic', 'C', typ='u8')], root=True), Packet('Marker', [])], opts(),
        note='a packet without fields used as an object field and as a list element')
    # identifier shapes
    add('idents', [Packet('Root', [F('basic', 'MsgType2', typ='u8'), F('dyn', 'clOrdID', spelling='string'), F('basic', 'user_name', typ='u16'),
                                   F('basic', 'ID', typ='u32'), F('obj', 'leg', typ='OrderLeg')], root=True),
                   Packet('OrderLeg', [F('basic', 'legQty', typ='i64')])], opts(LittleEndian='true'), note='identifier shapes')
    add('idents_acronyms', [Packet('Root', [F('basic', 'MDMsgType', typ='u16'), F('match', 'Body', key='MDMsgType', pairs=[([1], 'Snapshot'), ([2], 'IOIQuote')])], root=True),
                            Packet('Snapshot', [F('basic', 'MDEntryPx', typ='u32'), F('basic', 'NoMDEntries', typ='u64'), F('fixed', 'SecurityID', n=8),
                                                F('basic', 'MDEntrySizes', typ='u32', repeat=True), F('dyn', 'IOIRef', spelling='string')]),
                            Packet('IOIQuote', [F('basic', 'IOIQty', typ='u32'), F('basic', 'HTTPCode', typ='u16')])], opts(),
        note='identifiers with acronyms followed by capitalised words (each generator converts case its own way)')
    add('idents_caps', [Packet('Root', [F('basic', 'K', typ='u8'), F('match', 'P', key='K', pairs=[([1], 'PA'), ([2], 'NewOrderV2')])], root=True),
                        Packet('PA', [F('basic', 'A', typ='u8')]), Packet('NewOrderV2', [F('basic', 'B', typ='u8')])], opts(),
        note='all-caps and digit-suffixed packet names')
    add('inline_samename', [Packet('Root', [F('basic', 'K', typ='u8'), F('match', 'Body', key='K', pairs=[([1], 'TradeBatch'), ([2], 'QuoteBatch')])], root=True),
                            Packet('TradeBatch', [F('inline', 'Item', repeat=True, fields=[F('basic', 'Qty', typ='u32'), F('basic', 'Px', typ='u64')]), F('basic', 'Tail', typ='u8')]),
                            Packet('QuoteBatch', [F('inline', 'Item', repeat=True, fields=[F('dyn', 'Sym', spelling='string'), F('basic', 'Lvl', typ='u16')]), F('basic', 'Tail', typ='u8')])],
        opts(), note='two packets declare inline objects with the same name and different layouts')
    # ---- combined programs ----
    for i, (le, sp, lp) in enumerate([(None, None, None), ('true', 'u8', 'u32'), ('true', 'u32', 'u8'), ('false', 'u64', 'u64')]):
        sub = F('inline', 'Sub', repeat=True, fields=[F('fixed', 'Id', n=4), F('fixed', 'Z', n=5, z=True), F('basic', 'Px', typ='f64')])
        lg = Packet('Logon', [F('fixed', 'UserName', n=10, pad=('left', "'0'")), F('dyn', 'Password', spelling='string'),
                              F('basic', 'ClientId', typ='u64', alias=True), F('basic', 'Nums', typ='i32', repeat=True),
                              F('dyn', 'Extra', repeat=True, spelling='string'), sub, F('obj', 'Detail', typ='Detail', explicit_name=False),
                              F('obj', 'Ds', typ='Detail', repeat=True)])
        lo = Packet('Logout', [F('fixed', 'UserName', n=10, pad=('right', "'0'")), F('basic', 'X', typ='i8')])
        add('combined%d' % i,
            [Packet('Sample', [F('basic', 'MsgType', typ='u16', alias=True, doc='t'),
                               F('lengthof', 'BodyLength', typ='u16' if i < 3 else 'u32', target='Body', spelling='inline', doc='len'),
                               F('match', 'Body', key='MsgType', pairs=[([1], 'Logon'), ([2, 3], 'Logout')]),
                               F('checksum', 'Checksum', typ='u32', alg='CRC32', spelling='prefixed', doc='cs')], root=True), lg, lo, det],
            opts(LittleEndian=le, StringPrefixLenType=sp, ArrayPrefixLenType=lp), fam='combined')
    if thorough:
        # depth-3 nesting, reordered neighbours
        l3 = Packet('L3', [F('basic', 'V', typ='u16'), F('dyn', 'T', spelling='string')])
        l2 = Packet('L2', [F('obj', 'C', typ='L3'), F('obj', 'Cs', typ='L3', repeat=True), F('basic', 'W', typ='i32')])
        for le in ORDERS[:2]:
            add('nest3_%s' % le, [Packet('Root', [F('obj', 'B', typ='L2'), F('obj', 'Bs', typ='L2', repeat=True)], root=True), l2, l3],
                opts(LittleEndian=le, ArrayPrefixLenType='u8'))
    # inline objects nested inside inline objects (every level needs its own emitted type)
    add('inline_nested', [Packet('Root', [F('basic', 'Id', typ='u32'),
                                          F('inline', 'Party', fields=[F('basic', 'Role', typ='u8'),
                                                                       F('inline', 'Contact', fields=[F('dyn', 'Name', spelling='string'),
                                                                                                      F('inline', 'Phone', repeat=True, fields=[F('basic', 'Cc', typ='u16'), F('dyn', 'Num', spelling='string')])])]),
                                          F('basic', 'Tail', typ='u8')], root=True)], opts(LittleEndian='true'),
        note='inline objects nested two and three levels deep')
    return progs
