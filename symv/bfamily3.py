"""extra texts for the formatter properties: syntactically invalid inputs (error path), layouts, comment placements"""
from .bfamily import T


def layout_family(tier='quick'):
    out = []
    out.append(T('s:missing_brace', 'root packet Root {\n    u8 a,\n', wellformed=False))
    out.append(T('s:bad_token', 'root packet Root {\n    u8 a $,\n}\n', wellformed=False))
    out.append(T('s:missing_comma', 'root packet Root {\n    u8 a\n    u8 b,\n}\n', wellformed=False))
    out.append(T('s:garbage', '\x00\x01 not a dsl ][', wellformed=False))
    out.append(T('s:unterminated_doc', 'root packet Root {\n    u8 a `doc,\n}\n', wellformed=False))
    out.append(T('l:compact', 'options{LittleEndian=true;GoPackage="m";}root packet Root{u8 a,string b,repeat Other os,match a as m{1:Other,[2,3]:Third},}packet Other{u8 v,}packet Third{string s,}'))
    out.append(T('l:spread', 'root\npacket\nRoot\n{\nu8\na\n,\n@leftPad\n(\n\'0\'\n)\nchar[4]\nc\n,\n}\n'))
    out.append(T('l:tabs_blank', 'root packet Root {\n\n\n\tu8\ta,\n\n\n\t\tstring   b   `doc`  ,\n}\n\n\n\n'))
    out.append(T('l:comment_after_comma_nl', 'root packet Root {\n    u8 a,\n    // about b\n    u8 b, // trailing b\n    // end of packet\n}\n// eof'))
    out.append(T('l:comment_multiline_field', 'root packet Root {\n    u8 k,\n    match k as b {\n        1 : Other,\n    }, // after match\n    Sub {\n        u8 x,\n    }, // after inline\n    u8 z, // last\n}\n\npacket Other {\n    u8 v,\n}\n'))
    out.append(T('l:comment_oneline_match', 'root packet Root {\n    u8 k,\n    match k as b { 1 : Other, 2 : Other, }, // c\n    u8 z,\n}\n\npacket Other { u8 v, } // tail\n'))
    out.append(T('l:doc_everywhere', 'MetaData M {\n    u8 m `meta doc`,\n}\n\nroot packet Root {\n    u16 Len @lengthOf(Body) `len doc`,\n    Other Body `obj doc`,\n    u32 Ck @calculatedFrom("X") `cks doc`,\n    m `metafield doc`,\n    string s `str doc`,\n}\n\npacket Other {\n    u8 v,\n}\n'))
    out.append(T('l:keylist_exact10', 'root packet Root {\n    u16 k,\n    match k as b {\n        [1, 2, 3, 4, 5, 6, 7, 8, 9, 10] : Other,\n        [11, 12, 13, 14, 15, 16, 17] : Other,\n    },\n}\n\npacket Other {\n    u8 v,\n}\n'))
    out.append(T('l:strlist_mixed_order', 'root packet Root {\n    string k,\n    match k as b {\n        ["B", "A"] : Other,\n        "C" : Other,\n    },\n}\n\npacket Other {\n    u8 v,\n}\n'))
    out.append(T('l:empty_pad', 'root packet Root {\n    @leftPad()\n    char[4] a,\n    @rightPad()\n    char[2] b,\n}\n'))
    out.append(T('l:options_comments', 'options {\n    // first\n    LittleEndian = true; // le\n    // second\n    GoPackage = "m" // no semi\n}\n\nroot packet Root {\n    u8 a,\n}\n'))
    out.append(T('l:inline_comments', 'root packet Root {\n    repeat Sub { // open\n        // inner lead\n        u8 x, // inner trail\n        Deep {\n            u8 y, // deep\n        },\n    }, // close\n}\n'))
    out.append(T('l:percent', 'root packet Root {\n    u8 load, // 100% of capacity, rate in %d units %s\n    string s `50%% doc %v`,\n}\n'))
    out.append(T('l:comment_above_attrs', "root packet Root {\n    u16 MsgType,\n    // user name, zero padded\n    @tag(553)\n    @leftPad('0')\n    char[10] UserName `user`,\n    // above first of three\n    @tag(1)\n    // above second\n    @rightPad(' ')\n    // above the field\n    char[4] c,\n    // above length attribute\n    @tag(9)\n    @lengthOf(Body)\n    u32 BodyLength,\n    Other Body,\n    // above checksum attribute\n    @tag(10)\n    @calculatedFrom(\"CRC32\")\n    u32 Check,\n}\n\npacket Other {\n    u8 v,\n}\n"))
    out.append(T('l:percent_everywhere', 'options {\n    GoPackage = "m%d"; // 100%\n}\n\nMetaData M {\n    u16 Px `50% of %s`, // %v\n    Px Alias `%d%%`,\n}\n\nroot packet Root {\n    u16 Len @lengthOf(Body) `100% of Body, max 50%d`,\n    @tag(1)\n    u8 k `key %x`,\n    match k as Body { // %s\n        1 : Other, // %d\n    },\n    Inner { // %q\n        char[4] c `%c`,\n    },\n    Other o `obj %v`,\n    repeat Other os `list %T`,\n    @calculatedFrom("CRC32")\n    u32 cs `sum %08x`,\n} // end %\n\npacket Other {\n    u8 v `%%`,\n}\n'))
    out.append(T('l:percent_docs', 'MetaData M {\n    u16 Px `50% of %s`,\n    Px Alias `%d%%`,\n}\n\nroot packet Root {\n    u16 Len @lengthOf(Body) `100% of Body, max 50%d`,\n    @tag(1)\n    u8 k `key %x`,\n    Other Body `obj %v`,\n    Inner {\n        char[4] c `%c`,\n    },\n    repeat Other os `list %T`,\n    @lengthOf(os)\n    u32 Len2 `%5.2f`,\n    u32 cs @calculatedFrom("CRC32") `sum %08x`,\n}\n\npacket Other {\n    u8 v `%%`,\n}\n'))
    out.append(T('l:options_nosemi_comment', 'options {\n    LittleEndian = true // le\n    GoPackage = "m" // last, no semicolon\n}\n\nroot packet Root {\n    u8 a, // comment\n}\n'))
    out.append(T('l:oneline_constructs', 'options { LittleEndian = true; GoPackage = "m"; } // after options\nroot packet Root { u8 a, repeat Pair { u8 k, u8 v, }, // after inline\n    match a as b { 1 : Other, }, // after match\n} // after packet\npacket Other { } // keep alive\n'))
    out.extend(round6_texts())
    return out


def round6_wellformed():
    """well-formed programs added after the sixth seeding round (compile path: C11, C12, C13, C14, C16)"""
    A = 'packet Alpha {\n    u8 a,\n}\n'
    out = []
    out.append(T('w:empty_shared', 'root packet Root {\n    u8 k,\n    u8 j,\n    match k as First {\n        1 : Heartbeat,\n        2 : Alpha,\n    },\n    match j as Second {\n        1 : Heartbeat,\n    },\n}\n\npacket Heartbeat {\n}\n\n' + A))
    out.append(T('w:empty_above', 'packet Body {\n}\n\nroot packet Root {\n    Body,\n    Body again,\n    repeat Body more,\n}\n'))
    out.append(T('w:empty_nested_twice', 'packet Leaf {\n}\n\npacket Mid {\n    Leaf l,\n}\n\nroot packet Root {\n    Mid m,\n    Leaf l,\n    Mid m2,\n}\n'))
    out.append(T('w:diamond', 'root packet Root {\n    Left l,\n    Right r,\n}\n\npacket Left {\n    Alpha a,\n}\n\npacket Right {\n    Alpha a,\n}\n\n' + A))
    out.append(T('w:u64_keys', 'root packet Root {\n    u64 k,\n    match k as Body {\n        9223372036854775807 : Alpha,\n        9223372036854775808 : Beta,\n        [18446744073709551615, 18446744073709551614] : Alpha,\n    },\n}\n\n' + A + '\npacket Beta {\n    u16 b,\n}\n'))
    out.append(T('w:u64_keys_meta', 'MetaData M {\n    u64 Key `k`,\n}\n\nroot packet Root {\n    Key,\n    match Key as Body {\n        18446744073709551615 : Alpha,\n        1 : Alpha,\n    },\n}\n\n' + A))
    out.append(T('w:max_keys_each_width', 'root packet Root {\n    u8 a,\n    u16 b,\n    u32 c,\n    i8 d,\n    match a as Pa {\n        255 : Alpha,\n        0 : Alpha,\n    },\n    match b as Pb {\n        65535 : Alpha,\n    },\n    match c as Pc {\n        4294967295 : Alpha,\n    },\n    match d as Pd {\n        127 : Alpha,\n    },\n}\n\n' + A))
    out.append(T('w:keyword_names', 'options {\n    GoPackage = "msg";\n    JavaPackage = "com.x";\n}\n\nroot packet Type {\n    u8 k,\n    match k as body {\n        1 : Match,\n        2 : Lambda,\n        3 : Struct,\n    },\n    Static s,\n}\n\npacket Match {\n    u8 a,\n}\n\npacket Lambda {\n    u8 b,\n}\n\npacket Struct {\n    u8 c,\n}\n\npacket Static {\n    u8 d,\n}\n'))
    out.append(T('w:keyword_names2', 'root packet Lib {\n    Pass p,\n    Mod m,\n    Global g,\n    repeat Yield ys,\n}\n\npacket Pass {\n    u8 a,\n}\n\npacket Mod {\n    u8 b,\n}\n\npacket Global {\n    u8 c,\n}\n\npacket Yield {\n    u8 d,\n}\n'))
    out.append(T('w:match_key_objfield_below', 'root packet Root {\n    Other o,\n    match o as b {\n        1 : Alpha,\n    },\n}\n\npacket Other {\n    u8 v,\n}\n\n' + A, wellformed=False))
    out.append(T('w:match_key_objfield_undeclared', 'root packet Root {\n    Missing o,\n    match o as b {\n        1 : Alpha,\n    },\n}\n\n' + A, wellformed=False))
    out.append(T('w:match_key_inline', 'root packet Root {\n    Sub {\n        u8 x,\n    },\n    match Sub as b {\n        1 : Alpha,\n    },\n}\n\n' + A, wellformed=False))
    out.append(T('w:match_key_repeat', 'root packet Root {\n    repeat u8 ks,\n    match ks as b {\n        1 : Alpha,\n    },\n}\n\n' + A, wellformed=False))
    out.append(T('w:rootless_two', 'packet Alpha {\n    u8 a,\n}\n\npacket Beta {\n    u16 b,\n}\n', wellformed=False))
    return out


def round6_texts():
    """texts added after the sixth seeding round (used by the formatter properties)"""
    out = []
    out.append(T('l:zero_keys', 'root packet Root {\n    u16 k,\n    match k as b {\n        007 : Other,\n        [0010, 000, 5] : Other,\n        00 : Third,\n    },\n}\n\npacket Other {\n    u8 v,\n}\n\npacket Third {\n    u8 w,\n}\n'))
    out.append(T('l:comment_between_attr_and_field', "root packet Root {\n    @tag(1) // behind the tag attribute\n    u8 a,\n    @leftPad('0')\n    // between attribute and field\n    char[4] b,\n    @tag(2)\n    @rightPad(' ') // behind the second attribute\n    // and one more line\n    char[4] c,\n    @lengthOf(Body) // behind length attribute\n    u16 Len,\n    Other Body,\n    @calculatedFrom(\"CRC32\")\n    // above checksum field\n    u32 Check,\n}\n\npacket Other {\n    u8 v,\n}\n"))
    out.append(T('l:only_comments_two', '// licence header\n// second line\n'))
    out.append(T('l:comments_before_closing', 'MetaData M {\n    // inside meta, first\n    u8 m `d`,\n    // inside meta, last\n}\n\nroot packet Root {\n    u8 a,\n    // before closing brace\n}\n// after last definition, one\n// after last definition, two\n'))
    return out


def truncation_family(tier='quick'):
    """every prefix of three texts that ends at a token boundary (truncated input), and the texts with one byte replaced by a byte
    no token starts with (binary input) at a few positions: the syntax-error paths of format and compile"""
    import re
    bases = [('full', 'options {\n    LittleEndian = true;\n}\n\nMetaData M {\n    u16 Px `p`,\n    Px Alias `a`,\n}\n\nroot packet Root {\n    u8 k,\n    @lengthOf(Body)\n    u16 Len,\n    match k as Body {\n        1 : Other,\n        [2, 3] : Other,\n    },\n    @leftPad(\'0\')\n    char[4] c `doc`, // tail\n    repeat Sub {\n        string s,\n    },\n    u32 ck @calculatedFrom("CRC32"),\n}\n\npacket Other {\n    Alias a,\n}\n'),
             ('small', 'root packet R { u8 a, zchar[2] z, Px, repeat Other os `d`, }\npacket Other { }\n')]
    out = []
    for name, text in bases:
        cuts = [m.end() for m in re.finditer(r'[A-Za-z0-9_\[\]@]+|[^\sA-Za-z0-9_]', text)]
        step = 1 if tier == 'thorough' else 2
        for i, c in enumerate(cuts[:-1]):
            if i % step == 0 or name == 'small':
                out.append(T('t:trunc_%s_%03d' % (name, i), text[:c], wellformed=False))
        for j, pos in enumerate(range(3, len(text), max(7, len(text) // 12))):
            for b in ('\x00', '\x7f', '$'):
                out.append(T('t:bin_%s_%02d_%02x' % (name, j, ord(b)), text[:pos] + b + text[pos + 1:], wellformed=False))
    return out
