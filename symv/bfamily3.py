"""extra texts for the formatter properties: syntactically invalid inputs (error path), layouts, comment placements"""
from .bfamily import T


def layout_family(tier='quick'):
    out = []
    out.append(T('s:missing_brace', 'root packet Root {\n    u8 a,\n', wellformed=False))
    out.append(T('s:bad_token', 'root packet Root {\n    u8 a $,\n}\n', wellformed=False))
    out.append(T('s:missing_comma', 'root packet Root {\n    u8 a\n    u8 b,\n}\n', wellformed=False))
    out.append(T('s:garbage', '\x00\x01 not a dsl ][', wellformed=False))
    out.append(T('s:unterminated_doc', 'root packet Root {\n    u8 a `doc,\n}\n', wellformed=False))
    out.append(T('l:compact', 'options{LittleEndian=true;GoPackage="m";}root packet Root{u8 a,string b,repeat Other os,match a as m{1:Other,[2,3]:Third},}packet Other{u8 v,}packet Third{string s,}'))
    out.append(T('l:spread', 'root\npacket\nRoot\n{\nu8\na\n,\n@leftPad\n(\n\'0\'\n)\nchar[4]\nc\n,\n}\n'))
    out.append(T('l:tabs_blank', 'root packet Root {\n\n\n\tu8\ta,\n\n\n\t\tstring   b   `doc`  ,\n}\n\n\n\n'))
    out.append(T('l:comment_after_comma_nl', 'root packet Root {\n    u8 a,\n    // about b\n    u8 b, // trailing b\n    // end of packet\n}\n// eof'))
    out.append(T('l:comment_multiline_field', 'root packet Root {\n    u8 k,\n    match k as b {\n        1 : Other,\n    }, // after match\n    Sub {\n        u8 x,\n    }, // after inline\n    u8 z, // last\n}\n\npacket Other {\n    u8 v,\n}\n'))
    out.append(T('l:comment_oneline_match', 'root packet Root {\n    u8 k,\n    match k as b { 1 : Other, 2 : Other, }, // c\n    u8 z,\n}\n\npacket Other { u8 v, } // tail\n'))
    out.append(T('l:doc_everywhere', 'MetaData M {\n    u8 m `meta doc`,\n}\n\nroot packet Root {\n    u16 Len @lengthOf(Body) `len doc`,\n    Other Body `obj doc`,\n    u32 Ck @calculatedFrom("X") `cks doc`,\n    m `metafield doc`,\n    string s `str doc`,\n}\n\npacket Other {\n    u8 v,\n}\n'))
    out.append(T('l:keylist_exact10', 'root packet Root {\n    u16 k,\n    match k as b {\n        [1, 2, 3, 4, 5, 6, 7, 8, 9, 10] : Other,\n        [11, 12, 13, 14, 15, 16, 17] : Other,\n    },\n}\n\npacket Other {\n    u8 v,\n}\n'))
    out.append(T('l:strlist_mixed_order', 'root packet Root {\n    string k,\n    match k as b {\n        ["B", "A"] : Other,\n        "C" : Other,\n    },\n}\n\npacket Other {\n    u8 v,\n}\n'))
    out.append(T('l:empty_pad', 'root packet Root {\n    @leftPad()\n    char[4] a,\n    @rightPad()\n    char[2] b,\n}\n'))
    out.append(T('l:options_comments', 'options {\n    // first\n    LittleEndian = true; // le\n    // second\n    GoPackage = "m" // no semi\n}\n\nroot packet Root {\n    u8 a,\n}\n'))
    out.append(T('l:inline_comments', 'root packet Root {\n    repeat Sub { // open\n        // inner lead\n        u8 x, // inner trail\n        Deep {\n            u8 y, // deep\n        },\n    }, // close\n}\n'))
    out.append(T('l:percent', 'root packet Root {\n    u8 load, // 100% of capacity, rate in %d units %s\n    string s `50%% doc %v`,\n}\n'))
    out.append(T('l:comment_above_attrs', "root packet Root {\n    u16 MsgType,\n    // user name, zero padded\n    @tag(553)\n    @leftPad('0')\n    char[10] UserName `user`,\n    // above first of three\n    @tag(1)\n    // above second\n    @rightPad(' ')\n    // above the field\n    char[4] c,\n    // above length attribute\n    @tag(9)\n    @lengthOf(Body)\n    u32 BodyLength,\n    Other Body,\n    // above checksum attribute\n    @tag(10)\n    @calculatedFrom(\"CRC32\")\n    u32 Check,\n}\n\npacket Other {\n    u8 v,\n}\n"))
    out.append(T('l:percent_everywhere', 'options {\n    GoPackage = "m%d"; // 100%\n}\n\nMetaData M {\n    u16 Px `50% of %s`, // %v\n    Px Alias `%d%%`,\n}\n\nroot packet Root {\n    u16 Len @lengthOf(Body) `100% of Body, max 50%d`,\n    @tag(1)\n    u8 k `key %x`,\n    match k as Body { // %s\n        1 : Other, // %d\n    },\n    Inner { // %q\n        char[4] c `%c`,\n    },\n    Other o `obj %v`,\n    repeat Other os `list %T`,\n    @calculatedFrom("CRC32")\n    u32 cs `sum %08x`,\n} // end %\n\npacket Other {\n    u8 v `%%`,\n}\n'))
    out.append(T('l:percent_docs', 'MetaData M {\n    u16 Px `50% of %s`,\n    Px Alias `%d%%`,\n}\n\nroot packet Root {\n    u16 Len @lengthOf(Body) `100% of Body, max 50%d`,\n    @tag(1)\n    u8 k `key %x`,\n    Other Body `obj %v`,\n    Inner {\n        char[4] c `%c`,\n    },\n    repeat Other os `list %T`,\n    @lengthOf(os)\n    u32 Len2 `%5.2f`,\n    u32 cs @calculatedFrom("CRC32") `sum %08x`,\n}\n\npacket Other {\n    u8 v `%%`,\n}\n'))
    out.append(T('l:options_nosemi_comment', 'options {\n    LittleEndian = true // le\n    GoPackage = "m" // last, no semicolon\n}\n\nroot packet Root {\n    u8 a, // comment\n}\n'))
    out.append(T('l:oneline_constructs', 'options { LittleEndian = true; GoPackage = "m"; } // after options\nroot packet Root { u8 a, repeat Pair { u8 k, u8 v, }, // after inline\n    match a as b { 1 : Other, }, // after match\n} // after packet\npacket Other { } // keep alive\n'))
    out.extend(round6_texts())
    return out


def round6_texts():
    """texts added after the sixth seeding round (used by the formatter properties)"""
    out = []
    out.append(T('l:zero_keys', 'root packet Root {\n    u16 k,\n    match k as b {\n        007 : Other,\n        [0010, 000, 5] : Other,\n        00 : Third,\n    },\n}\n\npacket Other {\n    u8 v,\n}\n\npacket Third {\n    u8 w,\n}\n'))
    out.append(T('l:comment_between_attr_and_field', "root packet Root {\n    @tag(1) // behind the tag attribute\n    u8 a,\n    @leftPad('0')\n    // between attribute and field\n    char[4] b,\n    @tag(2)\n    @rightPad(' ') // behind the second attribute\n    // and one more line\n    char[4] c,\n    @lengthOf(Body) // behind length attribute\n    u16 Len,\n    Other Body,\n    @calculatedFrom(\"CRC32\")\n    // above checksum field\n    u32 Check,\n}\n\npacket Other {\n    u8 v,\n}\n"))
    out.append(T('l:only_comments_two', '// licence header\n// second line\n'))
    out.append(T('l:comments_before_closing', 'MetaData M {\n    // inside meta, first\n    u8 m `d`,\n    // inside meta, last\n}\n\nroot packet Root {\n    u8 a,\n    // before closing brace\n}\n// after last definition, one\n// after last definition, two\n'))
    return out
