"""Python front-end of pipeline A: the emitted module is parsed with `ast` and its
encode/decode methods are executed symbolically.  Runtime calls (bytebuf, codec,
checksum, message_factory) are intrinsics that implement runtimes/CONTRACT.md."""
import ast
import z3
from .core import (bv, sbv, bytes_of, from_bytes, simp, conc, is_sym, Outcome, Unsupported, PathCtl)
from .pspec import WIDTH, Msg
from . import ref as refmod
from . import core as _core

SIGNED = {'i8', 'i16', 'i32', 'i64'}
EXTW = 72


class PyInt:
    """python int carried as a bit-vector with an interpretation"""
    def __init__(self, term, signed):
        self.t = term
        self.signed = signed

    def ext(self):
        return (z3.SignExt if self.signed else z3.ZeroExt)(EXTW - self.t.size(), self.t)


class PyFloat:
    def __init__(self, bits):
        self.bits = bits


class PyStr:
    """str as its utf-8 bytes (concrete length)"""
    def __init__(self, bs):
        self.bs = list(bs)


class PyObj:
    def __init__(self, cls):
        self.cls = cls
        self.attrs = {}


class PyClass:
    def __init__(self, name, node, bases):
        self.name = name
        self.node = node
        self.bases = bases
        self.methods = {}
        self.is_factory = False


class PyBuf:
    def __init__(self, data=None):
        self.b = list(data or [])
        self.r = 0


class Factory:
    def __init__(self):
        self.table = []   # (key, class)


class Bound:
    def __init__(self, fn):
        self.fn = fn


class ChecksumService:
    def __init__(self, alg):
        self.alg = alg


def to_ext(v):
    if isinstance(v, PyInt):
        return v.ext()
    if isinstance(v, bool):
        v = int(v)
    if isinstance(v, int):
        return z3.BitVecVal(v & ((1 << EXTW) - 1), EXTW)
    raise Unsupported('python int expected, got %r' % type(v))


class PyFE:
    lang = 'python'

    def __init__(self, spec, emit):
        self.spec = spec
        self.rejects = []
        self.classes = {}
        self.globals = {}
        self.module_stmts = []
        self.cks_registered = True
        self.cks_width = {}
        self.functions_encoded = []
        files = emit['files'].get('py', {})
        srcs = [p for rel, p in files.items() if rel.endswith('.py') and not rel.endswith('_test.py')]
        if not srcs:
            self.rejects.append('no python file emitted')
            return
        self.path = srcs[0]
        src = open(self.path).read()
        try:
            self.mod = ast.parse(src)
        except SyntaxError as e:
            self.rejects.append('SyntaxError: %s (line %s: %s)' % (e.msg, e.lineno, (e.text or '').strip()))
            return
        self._load()

    # ------------------------------------------------------------------ module
    def _load(self):
        g = self.globals
        g['BinaryCodec'] = PyClass('BinaryCodec', None, [])
        mf = PyClass('MessageFactory', None, [])
        mf.is_factory = True
        g['MessageFactory'] = mf
        g['len'] = Bound(self._len)
        g['range'] = Bound(lambda *a: range(*[self._cint(x) for x in a]))
        g['isinstance'] = Bound(lambda o, c: isinstance(o, PyObj) and o.cls is c)
        g['int'] = 'int'
        g['str'] = 'str'
        g['ByteBuf'] = 'ByteBuf'
        for le in (False, True):
            sfx = '_le' if le else ''
            g['write_string' + sfx] = Bound(lambda buf, s, pfx, enc=None, le=le: self._write_string(buf, s, pfx, le))
            g['read_string' + sfx] = Bound(lambda buf, pfx, enc=None, le=le: self._read_string(buf, pfx, le))
            g['read_len' + sfx] = Bound(lambda buf, pfx, le=le: self._read_len(buf, pfx, le))
        g['write_fixed_string'] = Bound(self._write_fixed)
        g['read_fixed_string'] = Bound(self._read_fixed)
        g['create_checksum_service'] = Bound(self._create_cks)
        # the names of the codec runtime exist in the module only through its import statements (runtimes/python: what each
        # module exports; `from codec import *` also brings ByteBuf, which codec itself imports); builtins are always there
        exports = {'bytebuf': ['ByteBuf'], 'message_factory': ['MessageFactory'],
                   'checksum': ['create_checksum_service'],
                   'codec': ['BinaryCodec', 'ByteBuf', 'read_len', 'read_len_le', 'write_string', 'write_string_le', 'read_string', 'read_string_le',
                             'write_fixed_string', 'read_fixed_string']}
        runtime = {}
        for names in exports.values():
            for n in names:
                if n in g:
                    runtime[n] = g.pop(n)
        ctl = PathCtl()
        self.ctl = ctl
        try:
            for st in self.mod.body:
                if isinstance(st, ast.ImportFrom):
                    for a in st.names:
                        if st.module in exports:
                            for n in (exports[st.module] if a.name == '*' else [a.name]):
                                if n in runtime:
                                    g[a.asname or n] = runtime[n]
                    continue
                if isinstance(st, ast.Import):
                    continue
                if isinstance(st, ast.ClassDef):
                    bases = [self.ev(b, {}) for b in st.bases]
                    c = PyClass(st.name, st, bases)
                    c.is_factory = any(isinstance(b, PyClass) and b.is_factory for b in bases)
                    for m in st.body:
                        if isinstance(m, ast.FunctionDef):
                            c.methods[m.name] = m
                            self.functions_encoded.append('%s.%s' % (st.name, m.name))
                    self.classes[st.name] = c
                    g[st.name] = c
                else:
                    self.stmt(st, g)
        except Unsupported as e:
            self.rejects.append('front-end: module level: %s' % e)
        except Outcome as e:
            self.rejects.append('module initialisation fails: %s' % e)
        except KeyError as e:
            self.rejects.append('NameError: name %s is not defined (module level)' % e)

    # ------------------------------------------------------------------ intrinsics
    def _cint(self, x):
        if isinstance(x, int):
            return x
        if isinstance(x, PyInt):
            c = conc(x.t)
            if c is not None:
                if x.signed and c >= 1 << (x.t.size() - 1):
                    c -= 1 << x.t.size()
                return c
            if z3.is_bv(x.t):
                u = self.ctl.concretise(x.t)
                return u - (1 << x.t.size()) if (x.signed and u >> (x.t.size() - 1)) else u
        raise Unsupported('symbolic integer where a concrete one is needed')

    def _len(self, x):
        if isinstance(x, PyStr):
            return len(x.bs)
        if isinstance(x, list):
            return len(x)
        raise Outcome('error', 'TypeError: len() of %s' % type(x).__name__)

    def _fit(self, v, t):
        """bits of python value v written as scalar type t; exception outcome if out of range"""
        w = 8 * WIDTH[t]
        if t in ('f32', 'f64'):
            if isinstance(v, PyFloat):
                if v.bits.size() == w:
                    return v.bits
                return z3.BitVec('fconv!%d' % id(v), w)
            if isinstance(v, int):
                if v == 0:
                    return z3.BitVecVal(0, w)
                raise Unsupported('float conversion of int')
            raise Unsupported('float write of %r' % type(v))
        if isinstance(v, PyFloat):
            raise Outcome('error', 'struct.error: required argument is not an integer')
        if isinstance(v, (list, tuple, dict, str, bytes)) or v is None:
            # what the real buffer does with a list / string / None where a number belongs
            raise Outcome('error', 'struct.error: required argument is not an integer (%s)' % type(v).__name__)
        e = to_ext(v)
        if t in SIGNED:
            lo, hi = -(1 << (w - 1)), (1 << (w - 1)) - 1
        else:
            lo, hi = 0, (1 << w) - 1
        inr = z3.And(e >= z3.BitVecVal(lo & ((1 << EXTW) - 1), EXTW), e <= z3.BitVecVal(hi, EXTW)) if lo < 0 else \
            z3.And(e >= 0, e <= z3.BitVecVal(hi, EXTW))
        # signed comparison on EXTW bits
        if not self.ctl.branch(inr):
            raise Outcome('error', 'value out of range for %s' % t)
        return simp(z3.Extract(w - 1, 0, e))

    def buf_attr(self, buf, name):
        if name == 'write_index':
            return len(buf.b)
        if name == 'read_index':
            return buf.r
        parts = name.split('_')
        if len(parts) >= 2 and parts[0] in ('write', 'read') and parts[1] in WIDTH:
            t = parts[1]
            rest = parts[2:]
            le = 'le' in rest
            at = 'at' in rest
            if [x for x in rest if x not in ('le', 'at')]:
                raise Outcome('error', "AttributeError: 'ByteBuf' object has no attribute '%s'" % name)
            k = WIDTH[t]
            if parts[0] == 'write':
                if at:
                    def wat(pos, v):
                        pos = self._cint(pos)
                        bits = self._fit(v, t)
                        if pos < 0 or pos + k > len(buf.b):
                            raise Outcome('panic', 'write_%s_at out of range' % t)
                        buf.b[pos:pos + k] = bytes_of(bits, k, le)
                    return Bound(wat)

                def w(v):
                    buf.b.extend(bytes_of(self._fit(v, t), k, le))
                return Bound(w)
            if at:
                raise Outcome('error', "AttributeError: 'ByteBuf' object has no attribute '%s'" % name)

            def r():
                if buf.r + k > len(buf.b):
                    raise Outcome('error', 'read past end of buffer')
                bits = from_bytes(buf.b[buf.r:buf.r + k], le)
                buf.r += k
                if t in ('f32', 'f64'):
                    return PyFloat(bits)
                return PyInt(bits, t in SIGNED)
            return Bound(r)
        raise Outcome('error', "AttributeError: 'ByteBuf' object has no attribute '%s'" % name)

    def _pfx(self, pfx):
        if isinstance(pfx, PyStr):
            pfx = bytes(conc(b) for b in pfx.bs).decode()
        if pfx not in ('u8', 'u16', 'u32', 'u64'):
            raise Outcome('error', 'ValueError: unsupported prefix type %r' % (pfx,))
        return pfx

    def _write_string(self, buf, s, pfx, le):
        pfx = self._pfx(pfx)
        if not isinstance(s, PyStr):
            raise Outcome('error', 'TypeError: write_string of %s' % type(s).__name__)
        buf.b.extend(bytes_of(self._fit(len(s.bs), pfx), WIDTH[pfx], le))
        buf.b.extend(s.bs)

    def _read_len(self, buf, pfx, le):
        pfx = self._pfx(pfx)
        k = WIDTH[pfx]
        if buf.r + k > len(buf.b):
            raise Outcome('error', 'read past end of buffer')
        v = from_bytes(buf.b[buf.r:buf.r + k], le)
        buf.r += k
        c = conc(v)
        if c is None:
            raise Unsupported('symbolic length prefix')
        return c

    def _read_string(self, buf, pfx, le):
        n = self._read_len(buf, pfx, le)
        if buf.r + n > len(buf.b):
            raise Outcome('error', 'read past end of buffer')
        s = PyStr(buf.b[buf.r:buf.r + n])
        buf.r += n
        return s

    def _padbyte(self, pad):
        if isinstance(pad, PyStr):
            if len(pad.bs) != 1:
                raise Outcome('error', 'ValueError: pad must be one character')
            return pad.bs[0]
        raise Outcome('error', 'TypeError: pad char')

    def _write_fixed(self, buf, s, n, enc=None, pad=None, left=False):
        n = self._cint(n)
        if not isinstance(s, PyStr):
            raise Outcome('error', 'TypeError: write_fixed_string of %s' % type(s).__name__)
        pb = z3.BitVecVal(0x20, 8) if pad is None else self._padbyte(pad)
        if len(s.bs) > n:
            raise Outcome('error', 'ValueError: string longer than fixed size')
        padding = [pb] * (n - len(s.bs))
        if not isinstance(left, bool):
            raise Unsupported('non-boolean pad side')
        buf.b.extend(padding + s.bs if left else s.bs + padding)

    def _read_fixed(self, buf, n, enc=None, pad=None, left=False):
        n = self._cint(n)
        pb = z3.BitVecVal(0x20, 8) if pad is None else self._padbyte(pad)
        if buf.r + n > len(buf.b):
            raise Outcome('error', 'read past end of buffer')
        bs = buf.b[buf.r:buf.r + n]
        buf.r += n
        return PyStr(trim(self.ctl, bs, pb, left))

    def _create_cks(self, name):
        if not isinstance(name, PyStr):
            raise Outcome('error', 'TypeError: checksum name')
        if not self.cks_registered:
            return None
        return ChecksumService(bytes(conc(b) for b in name.bs).decode())

    # ------------------------------------------------------------------ interpreter
    def call_method(self, obj, name, args):
        cls = obj.cls
        fn = cls.methods.get(name)
        if fn is None:
            raise Outcome('error', "AttributeError: '%s' object has no attribute '%s'" % (cls.name, name))
        env = {'self': obj}
        params = fn.args.args[1:]
        if len(params) != len(args):
            raise Outcome('error', 'TypeError: %s() takes %d arguments' % (name, len(params)))
        for a, v in zip(params, args):
            env[a.arg] = v
        try:
            self.block(fn.body, env)
        except _Return as r:
            return r.v
        return None

    def block(self, body, env):
        for st in body:
            self.stmt(st, env)

    def stmt(self, st, env):
        if isinstance(st, ast.Expr):
            self.ev(st.value, env)
        elif isinstance(st, ast.Assign):
            v = self.ev(st.value, env)
            t = st.targets[0]
            if isinstance(t, ast.Name):
                env[t.id] = v
            elif isinstance(t, ast.Attribute):
                o = self.ev(t.value, env)
                if not isinstance(o, PyObj):
                    raise Outcome('error', 'AttributeError: cannot set attribute on %s' % type(o).__name__)
                o.attrs[t.attr] = v
            else:
                raise Unsupported('assignment target %s' % type(t).__name__)
        elif isinstance(st, ast.For):
            it = self.ev(st.iter, env)
            n = 0
            for i in it:
                n += 1
                if n > _core.LOOP_BOUND[0]:
                    raise Outcome('unwind', 'loop bound %d exceeded' % _core.LOOP_BOUND[0])
                env[st.target.id] = i
                self.block(st.body, env)
        elif isinstance(st, ast.If):
            c = self.truth(self.ev(st.test, env))
            self.block(st.body if c else st.orelse, env)
        elif isinstance(st, ast.Pass):
            pass
        elif isinstance(st, ast.Return):
            raise _Return(self.ev(st.value, env) if st.value else None)
        elif isinstance(st, ast.Raise):
            # the emitted code refuses the value: an exception outcome (its arguments are not evaluated: only the class matters)
            exc = st.exc
            name = 'exception'
            if isinstance(exc, ast.Call):
                exc = exc.func
            if isinstance(exc, ast.Name):
                name = exc.id
            elif isinstance(exc, ast.Attribute):
                name = exc.attr
            raise Outcome('error', 'raise %s' % name)
        elif isinstance(st, ast.Assert):
            if not self.truth(self.ev(st.test, env)):
                raise Outcome('error', 'AssertionError')
        else:
            raise Unsupported('statement %s' % type(st).__name__)

    def truth(self, v):
        if v is None:
            return False
        if isinstance(v, bool):
            return v
        if isinstance(v, int):
            return v != 0
        if isinstance(v, PyStr):
            return len(v.bs) > 0
        if isinstance(v, list):
            return len(v) > 0
        if isinstance(v, (PyObj, ChecksumService, Factory, PyClass)):
            return True
        if isinstance(v, PyInt):
            return self.ctl.branch(v.t != 0)
        if z3.is_bool(v):
            return self.ctl.branch(v)
        raise Unsupported('truth value of %r' % type(v))

    def ev(self, e, env):
        if isinstance(e, ast.Name):
            if e.id in env:
                return env[e.id]
            if e.id in self.globals:
                return self.globals[e.id]
            raise Outcome('error', "NameError: name '%s' is not defined" % e.id)
        if isinstance(e, ast.Constant):
            if isinstance(e.value, str):
                return PyStr([z3.BitVecVal(c, 8) for c in e.value.encode()])
            if e.value is Ellipsis:
                return None
            return e.value
        if isinstance(e, ast.Attribute):
            o = self.ev(e.value, env)
            return self.getattr(o, e.attr)
        if isinstance(e, ast.Call):
            f = self.ev(e.func, env)
            a = [self.ev(x, env) for x in e.args]
            if e.keywords:
                raise Unsupported('keyword arguments')
            return self.call(f, a)
        if isinstance(e, ast.Subscript):
            base = self.ev(e.value, env)
            if isinstance(base, PyClass):
                return base          # MessageFactory[int, BinaryCodec]
            idx = self._cint(self.ev(e.slice, env))
            if not isinstance(base, list):
                raise Unsupported('subscript of %r' % type(base))
            if idx < -len(base) or idx >= len(base):
                raise Outcome('error', 'IndexError: list index out of range')
            return base[idx]
        if isinstance(e, ast.Tuple):
            return tuple(self.ev(x, env) for x in e.elts)
        if isinstance(e, ast.List):
            return [self.ev(x, env) for x in e.elts]
        if isinstance(e, ast.BinOp):
            l, r = self.ev(e.left, env), self.ev(e.right, env)
            if isinstance(l, int) and isinstance(r, int):
                if isinstance(e.op, ast.Sub):
                    return l - r
                if isinstance(e.op, ast.Add):
                    return l + r
                if isinstance(e.op, ast.Mult):
                    return l * r
            raise Unsupported('binary operator on %s,%s' % (type(l).__name__, type(r).__name__))
        if isinstance(e, ast.Compare) and len(e.ops) == 1:
            l, r = self.ev(e.left, env), self.ev(e.comparators[0], env)
            op = e.ops[0]
            if isinstance(op, ast.IsNot):
                return l is not r
            if isinstance(op, ast.Is):
                return l is r
            if isinstance(l, int) and isinstance(r, int):
                return {ast.Eq: l == r, ast.NotEq: l != r, ast.Lt: l < r, ast.Gt: l > r, ast.LtE: l <= r, ast.GtE: l >= r}[type(op)]
            raise Unsupported('comparison')
        if isinstance(e, ast.UnaryOp) and isinstance(e.op, ast.Not):
            return not self.truth(self.ev(e.operand, env))
        raise Unsupported('expression %s' % type(e).__name__)

    def getattr(self, o, name):
        if isinstance(o, PyBuf):
            return self.buf_attr(o, name)
        if isinstance(o, PyObj):
            if name in o.attrs:
                return o.attrs[name]
            if name in o.cls.methods:
                return Bound(lambda *a: self.call_method(o, name, list(a)))
            if name == '__class__':
                return o.cls
            raise Outcome('error', "AttributeError: '%s' object has no attribute '%s'" % (o.cls.name, name))
        if isinstance(o, Factory):
            if name == 'register':
                def reg(k, c):
                    o.table.append((k, c))
                return Bound(reg)
            if name == 'create':
                return Bound(lambda k: self.factory_create(o, k))
            raise Outcome('error', "AttributeError: factory has no attribute '%s'" % name)
        if isinstance(o, ChecksumService):
            if name == 'calc':
                def calc(buf):
                    w, signed = self.cks_hint.get(o.alg, self.cks_hint['*'])
                    return PyInt(refmod.cks_uf(o.alg, w, list(buf.b)), signed)
                return Bound(calc)
        if isinstance(o, list):
            if name == 'append':
                return Bound(lambda v: o.append(v))
        if o is None:
            raise Outcome('panic', "AttributeError: 'NoneType' object has no attribute '%s'" % name)
        raise Unsupported('attribute %s of %s' % (name, type(o).__name__))

    def call(self, f, a):
        if isinstance(f, Bound):
            return f.fn(*a)
        if isinstance(f, PyClass):
            if f.is_factory:
                return Factory()
            o = PyObj(f)
            if '__init__' in f.methods:
                self.call_method(o, '__init__', a)
            return o
        raise Outcome('error', 'TypeError: %s object is not callable' % type(f).__name__)

    def factory_create(self, fac, key):
        """MessageFactory.create: unknown key raises (contract)"""
        conds = []
        for k, c in fac.table:
            conds.append(py_eq(key, k))
        # concrete fast path
        alts = []
        for (k, c), cond in zip(fac.table, conds):
            if cond is True:
                return self.call(c, [])
            if cond is False:
                continue
            alts.append((cond, c))
        if not alts:
            raise Outcome('error', 'KeyError: unknown message key')
        # first registered wins for equal keys: make alternatives exclusive
        excl = []
        prev = []
        for cond, c in alts:
            excl.append(z3.And([cond] + [z3.Not(p) for p in prev]))
            prev.append(cond)
        excl.append(z3.And([z3.Not(p) for p in prev]))
        i = self.ctl.choose(excl)
        if i == len(alts):
            raise Outcome('error', 'KeyError: unknown message key')
        return self.call(alts[i][1], [])

    # ------------------------------------------------------------------ API used by the checks
    def members(self, cname):
        """attribute names in declaration order (assignments in __init__)"""
        c = self.classes.get(cname)
        if c is None or '__init__' not in c.methods:
            return None
        out = []
        for st in c.methods['__init__'].body:
            if isinstance(st, ast.Assign) and isinstance(st.targets[0], ast.Attribute):
                out.append(st.targets[0].attr)
        return out

    def class_name(self, packet):
        from .names import find
        return find(list(self.classes), packet.name)

    def to_lang(self, packet, msg):
        spec = self.spec
        cn = self.class_name(packet)
        if cn is None:
            raise MissingMember('class for packet %s' % packet.name)
        o = PyObj(self.classes[cn])
        mem = self.members(cn)
        if mem is None or len(mem) != len(packet.fields):
            raise MissingMember('packet %s: members %s for fields %s' % (packet.name, mem, [f.name for f in packet.fields]))
        for f, m in zip(packet.fields, mem):
            sem = spec.resolve(f)
            v = msg.v[f.name]
            if f.repeat:
                o.attrs[m] = [self.elem_to_lang(sem, x) for x in v]
            else:
                o.attrs[m] = self.elem_to_lang(sem, v)
        return o

    def elem_to_lang(self, sem, v):
        if sem[0] in ('basic', 'lengthof', 'checksum'):
            t = sem[1]
            if t in ('f32', 'f64'):
                return PyFloat(v)
            if t == 'char':
                return PyStr([v])
            return PyInt(v, t in SIGNED)
        if sem[0] in ('fixed', 'dyn'):
            return PyStr(v)
        if sem[0] == 'obj':
            return self.to_lang(sem[1], v)
        if sem[0] == 'match':
            return self.to_lang(v.packet, v)
        raise ValueError(sem)

    def encode(self, ctl, packet, msg, cks_registered=True):
        self.ctl = ctl
        self.cks_registered = cks_registered
        self.cks_hint = self._cks_width(packet)
        o = self.to_lang(packet, msg)
        buf = PyBuf()
        self.call_method(o, 'encode', [buf])
        return buf.b, o

    def _cks_width(self, packet):
        return refmod.cks_hints(self.spec, packet)

    def decode(self, ctl, packet, data, cks_registered=True):
        self.ctl = ctl
        self.cks_registered = cks_registered
        self.cks_hint = self._cks_width(packet)
        cn = self.class_name(packet)
        if cn is None:
            raise MissingMember('class for packet %s' % packet.name)
        o = self.call(self.classes[cn], [])
        buf = PyBuf(data)
        self.call_method(o, 'decode', [buf])
        return o, buf.r

    def reencode(self, ctl, o, cks_registered=True):
        self.ctl = ctl
        self.cks_registered = cks_registered
        buf = PyBuf()
        self.call_method(o, 'encode', [buf])
        return buf.b

    def redecode(self, ctl, o, packet, data):
        """decode a second message into an object that already holds a decoded one"""
        self.ctl = ctl
        buf = PyBuf(data)
        self.call_method(o, 'decode', [buf])
        return o, buf.r

    def to_logical(self, packet, o):
        """language object -> logical values {field: LVal}; see compare.py"""
        from .compare import LInt, LBytes, LList, LObj, LFloat, LMissing
        cn = o.cls.name
        mem = self.members(cn)
        out = {}
        if mem is None or len(mem) != len(packet.fields):
            raise MissingMember('packet %s: members %s' % (packet.name, mem))
        for f, m in zip(packet.fields, mem):
            out[f.name] = self.val_to_logical(f, o.attrs.get(m, LMissing()))
        return LObj(cn, out)

    def val_to_logical(self, f, v):
        from .compare import LInt, LBytes, LList, LObj, LFloat, LMissing, LNull
        if isinstance(v, list):
            return LList([self.val_to_logical(f, x) for x in v])
        if isinstance(v, PyInt):
            return LInt(v.t, v.signed)
        if isinstance(v, int) and not isinstance(v, bool):
            return LInt(z3.BitVecVal(v & ((1 << 64) - 1), 64), v < 0)
        if isinstance(v, PyFloat):
            return LFloat(v.bits)
        if isinstance(v, PyStr):
            return LBytes(v.bs)
        if isinstance(v, PyObj):
            pk = self.packet_of_class(v.cls.name)
            if pk is None:
                return LObj(v.cls.name, {})
            return self.to_logical(pk, v)
        if v is None:
            return LNull()
        return v

    def packet_of_class(self, cname):
        from .names import norm
        for p in all_packets(self.spec):
            if norm(p.name) == norm(cname):
                return p
        return None


def all_packets(spec):
    out = []

    def walk(p):
        out.append(p)
        for f in p.fields:
            if f.kind == 'inline':
                from .pspec import Packet
                walk(Packet(f.name, f.fields))
    for p in spec.packets:
        walk(p)
    return out


class MissingMember(Exception):
    pass


class _Return(Exception):
    def __init__(self, v):
        self.v = v


def py_eq(a, b):
    """python == between a key value and a registered key; True/False or a z3 Bool"""
    if isinstance(a, PyInt) and isinstance(b, int) and not isinstance(b, bool):
        c = simp(a.ext() == z3.BitVecVal(b & ((1 << EXTW) - 1), EXTW))
        if z3.is_true(c):
            return True
        if z3.is_false(c):
            return False
        return c
    if isinstance(a, int) and isinstance(b, int):
        return a == b
    if isinstance(a, PyStr) and isinstance(b, PyStr):
        if len(a.bs) != len(b.bs):
            return False
        cs = [simp(x == y) for x, y in zip(a.bs, b.bs)]
        if any(z3.is_false(c) for c in cs):
            return False
        cs = [c for c in cs if not z3.is_true(c)]
        if not cs:
            return True
        return z3.And(cs)
    if isinstance(a, (PyInt, int)) and isinstance(b, PyStr) or isinstance(a, PyStr) and isinstance(b, (PyInt, int)):
        return False
    raise Unsupported('== between %s and %s' % (type(a).__name__, type(b).__name__))


def trim(ctl, bs, pad, left):
    """trim pad bytes on the padded side; forks on symbolic comparisons"""
    bs = list(bs)
    if left:
        i = 0
        while i < len(bs) and ctl.branch(bv(bs[i], 8) == pad):
            i += 1
        return bs[i:]
    j = len(bs)
    while j > 0 and ctl.branch(bv(bs[j - 1], 8) == pad):
        j -= 1
    return bs[:j]
