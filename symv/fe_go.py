"""Go front-end of pipeline A: the emitted packages are type-checked and lowered to
go/ssa by tools/ssajson (against runtimes/go), then Encode/Decode are executed by the
SSA interpreter.  codec.*, bytes.Buffer and encoding/binary are intrinsics."""
import os, re, json, subprocess, shutil
import z3
from .core import (bv, bytes_of, from_bytes, simp, conc, is_sym, Outcome, Unsupported, PathCtl)
from .pspec import WIDTH
from .gossa import (Prog, Machine, Ptr, Cell, Slice, Iface, Closure, GoMap, GoPanic, GoExit, cp, INTK)
from . import gointr
from .gointr import mkerr, ERR_T, err_text
from . import ref as refmod
from . import build
from .fe_py import MissingMember, trim, all_packets
from .names import find, norm

CODEC = 'github.com/xinchentechnote/fin-proto-go/codec.'
STOPS = CODEC + ',fmt.,bytes.,encoding/binary.,errors.,strings.,sync.,strconv.,math.,unicode,reflect.,runtime.,os.,io.,time.,sort.'
GOT = {'uint8': 'u8', 'uint16': 'u16', 'uint32': 'u32', 'uint64': 'u64', 'int8': 'i8', 'int16': 'i16', 'int32': 'i32',
       'int64': 'i64', 'float32': 'f32', 'float64': 'f64', 'byte': 'u8'}
CKS_T = -3


class SymBytes:
    """Go string whose bytes are terms"""
    def __init__(self, bs):
        self.bs = list(bs)

    def go_len(self):
        return len(self.bs)

    def sym_eq(self, other):
        if isinstance(other, SymBytes):
            o = other.bs
        elif isinstance(other, str):
            o = [z3.BitVecVal(ord(c), 8) for c in other]
        else:
            return False
        if len(o) != len(self.bs):
            return False
        cs = [simp(bv(a, 8) == bv(b, 8)) for a, b in zip(self.bs, o)]
        if any(z3.is_false(c) for c in cs):
            return False
        cs = [c for c in cs if not z3.is_true(c)]
        return z3.And(cs) if cs else True


def sbytes(v):
    if isinstance(v, SymBytes):
        return v.bs
    if isinstance(v, str):
        return [z3.BitVecVal(ord(c), 8) for c in v]
    raise Unsupported('string value %r' % type(v))


GO_SIZE_CLASSES = [8, 16, 24, 32, 48, 64, 80, 96, 112, 128, 144, 160, 176, 192, 208, 224, 240, 256, 288, 320, 352, 384, 416, 448, 480, 512, 576, 640,
                   704, 768, 896, 1024, 1152, 1280, 1408, 1536, 1792, 2048, 2304, 2688, 3072, 3200, 3456, 4096, 4864, 5376, 6144, 6528, 6784, 6912,
                   8192, 9472, 9728, 10240, 10880, 12288, 13568, 14336, 16384, 18432, 19072, 20480, 21760, 24576, 27264, 28672, 32768]


def go_roundup(c):
    for k in GO_SIZE_CLASSES:
        if c <= k:
            return k
    return (c + 8191) // 8192 * 8192


class BufState:
    """bytes.Buffer: backing array `cell`, logical length n, read offset r, capacity cap.
    Growth follows bytes.Buffer.grow (first allocation 64 bytes, then growSlice: max(len+n, 2*cap) rounded up to the allocator's
    size class) and REALLOCATES: a slice handed out by Bytes() before the growth keeps the abandoned array, exactly as in Go
    ("the slice is valid for use only until the next buffer modification")."""
    def __init__(self, data=None):
        self.cell = Cell(list(data or []))
        self.n = len(self.cell.v)
        self.r = 0
        self.cap = self.n

    @property
    def b(self):
        return self.cell.v[:self.n]

    def append(self, items):
        items = list(items)
        need = self.n + len(items)
        if need > self.cap:
            if self.cap == 0 and need <= 64:
                newcap = 64
            else:
                newcap = go_roundup(max(need, 2 * self.cap))
            self.cell = Cell(list(self.cell.v[:self.n]))
            self.cap = newcap
        self.cell.v[self.n:self.n + len(items)] = items
        self.n += len(items)


def bufstate(M, p):
    st = M.load(p)
    if not isinstance(st[0], BufState):
        st[0] = BufState()
    return st[0]


def lower_go(progs, emits, tag):
    """type-check + lower every program's Go output in one go/packages load; returns {prog: json path}"""
    cd = build.cache_dir()
    base = os.path.join(cd, 'go_' + tag)
    done = os.path.join(base, 'DONE')
    out = {}
    if not os.path.exists(done):
        shutil.rmtree(base, ignore_errors=True)
        os.makedirs(base)
        open(os.path.join(base, 'go.mod'), 'w').write(
            'module fpverif\n\ngo 1.23\n\nrequire github.com/xinchentechnote/fin-proto-go v0.0.0\n\n'
            'replace github.com/xinchentechnote/fin-proto-go => %s\n' % os.path.join(build.VERIF, 'runtimes', 'go'))
        pk = []
        for p in progs:
            e = emits[p.name]
            files = e['files'].get('go', {})
            srcs = {rel: path for rel, path in files.items() if rel.endswith('.go') and not rel.endswith('_test.go')}
            if e['rc'] != 0 or not srcs:
                continue
            d = os.path.join(base, 'p_' + p.name)
            os.makedirs(d)
            for rel, path in srcs.items():
                shutil.copy(path, os.path.join(d, os.path.basename(rel)))
            pk.append('fpverif/p_' + p.name)
        if pk:
            r = subprocess.run([os.path.join(build.VERIF, 'bin', 'ssajson'), '-dir', base, '-split', '-o', os.path.join(base, 'json'),
                                '-rootpkgs', ','.join(pk), '-stop', STOPS, './...'],
                               capture_output=True, text=True, env=build.GOENV)
            if r.returncode != 0:
                raise RuntimeError('ssajson failed: ' + r.stdout + r.stderr)
        open(done, 'w').write('ok')
    for p in progs:
        j = os.path.join(base, 'json', 'p_' + p.name + '.json')
        if os.path.exists(j):
            out[p.name] = j
    return out


class GoFE:
    lang = 'go'

    def __init__(self, spec, emit, jpath=None):
        self.spec = spec
        self.rejects = []
        self.soft = []
        self.functions_encoded = []
        if jpath is None:
            self.rejects.append('no go package emitted')
            return
        self.prog = Prog(jpath)
        self.pkg = self.prog.D['pkgs'][0]
        for e in self.prog.errors:
            msg = re.sub(r'/[^ ]*/', '', e['msg'])
            (self.soft if e['soft'] else self.rejects).append(msg)
        if self.rejects:
            return
        self.functions_encoded = [f['id'] for f in self.prog.D['funcs']]
        self.named = {}
        for t in self.prog.D['types']:
            if t['kind'] == 'named' and t.get('name', '').startswith(self.pkg + '.'):
                self.named[t['name'][len(self.pkg) + 1:]] = t

    # ------------------------------------------------------------------ machine
    def machine(self, ctl, cks_registered, packet):
        M = Machine(self.prog, ctl)
        gointr.install(M)
        M.intr.update(GO_INTR)
        M.intr_prefix.append((CODEC, codec_call))
        M.fe = self
        M.cks_registered = cks_registered
        M.cks_hint = refmod.cks_hints(self.spec, packet)
        try:
            M.run_init(self.pkg)
        except GoPanic as gp:
            raise Outcome('panic', 'package init: %s' % gp)
        return M

    def struct_of(self, packet):
        n = find(list(self.named), packet.name)
        if n is None:
            raise MissingMember('type for packet %s' % packet.name)
        t = self.named[n]
        u = self.prog.under(t['id'])
        if u['kind'] != 'struct':
            raise MissingMember('type %s is not a struct' % n)
        return t, u

    # ------------------------------------------------------------------ values
    def to_lang(self, packet, msg):
        t, u = self.struct_of(packet)
        fields = u['fields']
        if len(fields) != len(packet.fields):
            raise MissingMember('packet %s: members %s for fields %s' % (packet.name, [f['name'] for f in fields], [f.name for f in packet.fields]))
        vals = []
        for f, gf in zip(packet.fields, fields):
            sem = self.spec.resolve(f)
            v = msg.v[f.name]
            if f.repeat:
                et = self.prog.under(gf['type'])
                if et['kind'] != 'slice':
                    # the member the emitted type gives a repeated field cannot hold a list: the declared field has no member
                    raise MissingMember('packet %s: the member of repeated field %s is no list (Go type %s)' % (packet.name, f.name, self.prog.tstr(gf['type'])))
                items = [self.elem_to_lang(sem, x, et['elem']) for x in v]
                vals.append(Slice(Cell(items), 0, len(items), len(items)) if items else None)
            else:
                if self.prog.under(gf['type'])['kind'] == 'slice' and sem[0] not in ('fixed', 'dyn'):
                    raise MissingMember('packet %s: the member of plain field %s is a list (Go type %s)' % (packet.name, f.name, self.prog.tstr(gf['type'])))
                vals.append(self.elem_to_lang(sem, v, gf['type']))
        return Ptr(Cell(vals)), t['id']

    def elem_to_lang(self, sem, v, gtid):
        p = self.prog
        u = p.under(gtid)
        if sem[0] in ('basic', 'lengthof', 'checksum'):
            if u['kind'] != 'basic':
                raise Unsupported('scalar field with Go type %s' % p.tstr(gtid))
            b = u['basic']
            if b == 'string':
                return SymBytes([v])
            w = 64 if 'float64' in b else 32 if 'float32' in b else INTK[b][0]
            if w != v.size():
                signed = sem[1].startswith('i')
                v = simp((z3.SignExt if signed else z3.ZeroExt)(w - v.size(), v)) if w > v.size() else simp(z3.Extract(w - 1, 0, v))
            return v
        if sem[0] in ('fixed', 'dyn'):
            return SymBytes(v)
        if sem[0] == 'obj':
            ptr, tid = self.to_lang(sem[1], v)
            if u['kind'] == 'ptr':
                return ptr
            if u['kind'] == 'struct':
                return ptr.cell.v
            raise Unsupported('object field with Go type %s' % p.tstr(gtid))
        if sem[0] == 'match':
            ptr, tid = self.to_lang(v.packet, v)
            ptid = p.tid_of('*' + p.T[tid]['str'])
            if ptid is None:
                raise Unsupported('pointer type of %s not in dump' % p.T[tid]['str'])
            return Iface(ptid, ptr)
        raise ValueError(sem)

    def method(self, tid, name):
        t = self.prog.T[tid]
        fid = (t.get('methods') or {}).get(name)
        if fid is None:
            raise MissingMember('%s has no method %s' % (t['str'], name))
        return fid

    def newbuf(self, data=None):
        return Ptr(Cell([BufState(data), 0, 0]))

    def encode(self, ctl, packet, msg, cks_registered=True):
        M = self.machine(ctl, cks_registered, packet)
        obj, tid = self.to_lang(packet, msg)
        buf = self.newbuf()
        self.run_method(M, tid, 'Encode', obj, buf)
        return bufstate(M, buf).b, (obj, tid)

    def run_method(self, M, tid, name, obj, buf):
        try:
            err = M.call(self.method(tid, name), [obj, buf])
        except GoPanic as gp:
            kind = 'unwind' if gp.kind in ('fuel',) else 'panic'
            raise Outcome(kind, '%s: %s @%s' % (gp.kind, gp.msg, os.path.basename(gp.pos)))
        if err is not None:
            raise Outcome('error', err_text(M, err))

    def decode(self, ctl, packet, data, cks_registered=True):
        M = self.machine(ctl, cks_registered, packet)
        t, u = self.struct_of(packet)
        obj = Ptr(Cell(self.prog.zero(t['id'])))
        buf = self.newbuf(data)
        self.run_method(M, t['id'], 'Decode', obj, buf)
        self._M = M
        return (obj, t['id']), bufstate(M, buf).r

    def redecode(self, ctl, o, packet, data):
        obj, tid = o
        M = self._M
        M.ctl = ctl
        buf = self.newbuf(data)
        self.run_method(M, tid, 'Decode', obj, buf)
        return o, bufstate(M, buf).r

    def reencode(self, ctl, o, cks_registered=True):
        obj, tid = o
        M = self._M
        M.ctl = ctl
        buf = self.newbuf()
        self.run_method(M, tid, 'Encode', obj, buf)
        return bufstate(M, buf).b

    # ------------------------------------------------------------------ back to logical
    def to_logical(self, packet, o):
        from .compare import LObj
        obj, tid = o
        return self.struct_to_logical(packet, obj.cell.v if isinstance(obj, Ptr) else obj, tid)

    def struct_to_logical(self, packet, vals, tid):
        from .compare import LObj, LMissing
        u = self.prog.under(tid)
        fields = u['fields']
        if len(fields) != len(packet.fields):
            raise MissingMember('packet %s: members %s' % (packet.name, [f['name'] for f in fields]))
        out = {}
        for f, gf, v in zip(packet.fields, fields, vals):
            out[f.name] = self.val_to_logical(v, gf['type'])
        return LObj(self.prog.T[tid].get('name', '?'), out)

    def val_to_logical(self, v, gtid):
        from .compare import LInt, LBytes, LList, LObj, LFloat, LNull
        p = self.prog
        u = p.under(gtid)
        k = u['kind']
        if k == 'basic':
            b = u['basic']
            if b == 'string':
                return LBytes(sbytes(v))
            if 'float' in b:
                w = 64 if '64' in b else 32
                if isinstance(v, float):
                    if v == 0.0:
                        return LFloat(z3.BitVecVal(0, w))
                    raise Unsupported('concrete float')
                return LFloat(v)
            bits, signed = INTK[b]
            return LInt(v if is_sym(v) else z3.BitVecVal(v & ((1 << bits) - 1), bits), signed)
        if k == 'slice':
            if v is None:
                return LList([])
            return LList([self.val_to_logical(x, u['elem']) for x in v.items()])
        if k == 'ptr':
            if v is None:
                return LNull()
            pk = self.packet_of(p.T[u['elem']].get('name', ''))
            if pk is None:
                return LObj(p.T[u['elem']].get('name', '?'), {})
            return self.struct_to_logical(pk, v.cell.v if not v.path else self._M.load(v), u['elem'])
        if k == 'struct':
            pk = self.packet_of(p.T[gtid].get('name', ''))
            return self.struct_to_logical(pk, v, gtid)
        if k == 'iface':
            if v is None:
                return LNull()
            return self.val_to_logical(v.v, v.t)
        raise Unsupported('Go value of kind ' + k)

    def packet_of(self, tname):
        n = tname.split('.')[-1]
        for pk in all_packets(self.spec):
            if norm(pk.name) == norm(n):
                return pk
        return None


# ---------------------------------------------------------------------------- intrinsics

GO_INTR = {}


def gintr(*names):
    def d(f):
        for n in names:
            GO_INTR[n] = f
        return f
    return d


@gintr('(*bytes.Buffer).Len')
def _(M, a):
    st = bufstate(M, a[0])
    return st.n - st.r


@gintr('(*bytes.Buffer).Bytes')
def _(M, a):
    st = bufstate(M, a[0])
    n = st.n - st.r
    cap = max(n, st.cap - st.r)
    while len(st.cell.v) < st.r + cap:
        st.cell.v.append(z3.BitVecVal(0, 8))
    return Slice(st.cell, st.r, n, cap)


@gintr('(*bytes.Buffer).Write')
def _(M, a):
    st = bufstate(M, a[0])
    items = [] if a[1] is None else a[1].items()
    st.append(items)
    return (len(items), None)


@gintr('(*bytes.Buffer).WriteByte')
def _(M, a):
    bufstate(M, a[0]).append([a[1]])
    return None


@gintr('(*bytes.Buffer).WriteString')
def _(M, a):
    bs = sbytes(a[1])
    bufstate(M, a[0]).append(bs)
    return (len(bs), None)


def buf_len(st):
    return st.n


def buf_append(st, items):
    st.append(items)


def tname_of(s):
    s = s.strip()
    return GOT.get(s.split('.')[-1])


def parse_codec(fid):
    """'…/codec.ReadBasicTypeListLE[uint8,int32]' -> ('ReadBasicTypeList', True, ['uint8','int32'])"""
    s = fid[fid.index('codec.') + 6:]
    targs = []
    if '[' in s:
        name, rest = s.split('[', 1)
        targs = split_targs(rest[:rest.rindex(']')])
    else:
        name = s
    le = False
    if name.endswith('LE'):
        le = True
        name = name[:-2]
    return name, le, targs


def split_targs(s):
    out, depth, cur = [], 0, ''
    for c in s:
        if c == '[':
            depth += 1
        elif c == ']':
            depth -= 1
        if c in ', ' and depth == 0:
            if cur.strip():
                out.append(cur.strip())
            cur = ''
        else:
            cur += c
    if cur.strip():
        out.append(cur.strip())
    return out


def okerr(v):
    return (v, None)


def short():
    return mkerr('codec: short buffer')


def w_num(st, v, t, le):
    k = WIDTH[t]
    if isinstance(v, float):
        if v != 0.0:
            raise Unsupported('concrete float value')
        v = 0
    buf_append(st, bytes_of(v if not isinstance(v, int) else v & ((1 << 8 * k) - 1), k, le))


def r_num(st, t, le):
    k = WIDTH[t]
    if st.r + k > buf_len(st):
        return None
    v = from_bytes(st.cell.v[st.r:st.r + k], le)
    st.r += k
    return v


def r_len(M, st, t, le):
    v = r_num(st, t, le)
    if v is None:
        return None
    c = conc(v)
    if c is None:
        if z3.is_bv(v) and getattr(M, 'ctl', None) is not None:
            return M.ctl.concretise(v)
        raise Unsupported('symbolic length prefix')
    return c


def padbyte(M, v):
    return bv(v if is_sym(v) else M.cint(v) & 0xff, 8)


def codec_call(M, fid, a):
    name, le, targs = parse_codec(fid)
    ts = [tname_of(t) for t in targs]
    if name == 'Get':
        nm = a[0]
        if not M.cks_registered:
            return (None, False)
        return (Iface(CKS_T, nm if isinstance(nm, str) else '?'), True)
    st = bufstate(M, a[0]) if a and isinstance(a[0], Ptr) else None
    if name == 'WriteBasicType':
        w_num(st, a[1], ts[0], le)
        return None
    if name == 'ReadBasicType':
        v = r_num(st, ts[0], le)
        if v is None:
            return (0, short())
        return (v, None)
    if name == 'WriteString':
        bs = sbytes(a[1])
        w_num(st, len(bs), ts[0], le)
        buf_append(st, bs)
        return None
    if name == 'ReadString':
        return read_string(M, st, ts[0], le)
    if name in ('WriteFixedString', 'WriteFixedStringWithPadding'):
        pad, left = (bv(0x20, 8), False) if name == 'WriteFixedString' else (padbyte(M, a[3]), a[4])
        return write_fixed(M, st, a[1], M.cint(a[2]), pad, left)
    if name in ('ReadFixedString', 'ReadFixedStringTrimPadding'):
        pad, left = (bv(0x20, 8), False) if name == 'ReadFixedString' else (padbyte(M, a[2]), a[3])
        return read_fixed(M, st, M.cint(a[1]), pad, left)
    if name == 'WriteBasicTypeList':
        items = [] if a[1] is None else a[1].items()
        w_num(st, len(items), ts[0], le)
        for x in items:
            w_num(st, x, ts[1], le)
        return None
    if name == 'ReadBasicTypeList':
        n = r_len(M, st, ts[0], le)
        if n is None:
            return (None, short())
        out = []
        for _ in range(bound(n)):
            v = r_num(st, ts[1], le)
            if v is None:
                return (None, short())
            out.append(v)
        return (M.mkslice(out) if out else None, None)
    if name == 'WriteStringList':
        items = [] if a[1] is None else a[1].items()
        w_num(st, len(items), ts[0], le)
        for x in items:
            bs = sbytes(x)
            w_num(st, len(bs), ts[1], le)
            buf_append(st, bs)
        return None
    if name == 'ReadStringList':
        n = r_len(M, st, ts[0], le)
        if n is None:
            return (None, short())
        out = []
        for _ in range(bound(n)):
            s, e = read_string(M, st, ts[1], le)
            if e is not None:
                return (None, e)
            out.append(s)
        return (M.mkslice(out) if out else None, None)
    if name in ('WriteFixedStringList', 'WriteFixedStringListWithPadding'):
        items = [] if a[1] is None else a[1].items()
        pad, left = (bv(0x20, 8), False) if name == 'WriteFixedStringList' else (padbyte(M, a[3]), a[4])
        w_num(st, len(items), ts[0], le)
        for x in items:
            e = write_fixed(M, st, x, M.cint(a[2]), pad, left)
            if e is not None:
                return e
        return None
    if name in ('ReadFixedStringList', 'ReadFixedStringListTrimPadding'):
        pad, left = (bv(0x20, 8), False) if name == 'ReadFixedStringList' else (padbyte(M, a[2]), a[3])
        n = r_len(M, st, ts[0], le)
        if n is None:
            return (None, short())
        out = []
        for _ in range(bound(n)):
            s, e = read_fixed(M, st, M.cint(a[1]), pad, left)
            if e is not None:
                return (None, e)
            out.append(s)
        return (M.mkslice(out) if out else None, None)
    if name == 'WriteObjectList':
        items = [] if a[1] is None else a[1].items()
        w_num(st, len(items), ts[0], le)
        elem_t = M.p.tid_of(targs[1]) if len(targs) > 1 else None
        for x in items:
            if x is None:
                raise GoPanic('nil-deref', 'Encode called on nil list element', '')
            e = call_codec_method(M, x, elem_t, 'Encode', a[0])
            if e is not None:
                return e
        return None
    if name == 'ReadObjectList':
        n = r_len(M, st, ts[0], le)
        if n is None:
            return (None, short())
        elem_t = M.p.tid_of(targs[1]) if len(targs) > 1 else None
        out = []
        for _ in range(bound(n)):
            x = M.call_value(a[1], [])
            e = call_codec_method(M, x, elem_t, 'Decode', a[0])
            if e is not None:
                return (None, e)
            out.append(x)
        return (M.mkslice(out) if out else None, None)
    raise Outcome('error', 'undefined: codec.%s' % name)


def bound(n):
    from . import core as _core
    if n > _core.LOOP_BOUND[0]:
        raise Outcome('unwind', 'loop bound %d exceeded (list length %d)' % (_core.LOOP_BOUND[0], n))
    return n


def call_codec_method(M, x, elem_t, name, buf):
    if isinstance(x, Iface):
        return M.invoke(x, name, [buf], '')
    if elem_t is None:
        raise Unsupported('element type of object list unknown')
    t = M.p.T[elem_t]
    if t['kind'] == 'ptr':
        t = M.p.T[t['elem']]
    fid = (t.get('methods') or {}).get(name)
    if fid is None:
        raise Outcome('error', 'type %s has no method %s' % (t['str'], name))
    return M.call(fid, [x, buf])


def read_string(M, st, t, le):
    n = r_len(M, st, t, le)
    if n is None:
        return ('', short())
    if st.r + n > buf_len(st):
        return ('', short())
    s = SymBytes(st.cell.v[st.r:st.r + n])
    st.r += n
    return (s, None)


def write_fixed(M, st, s, n, pad, left):
    bs = sbytes(s)
    if len(bs) > n:
        return mkerr('codec: string longer than fixed size')
    if not isinstance(left, bool):
        raise Unsupported('symbolic pad side')
    p = [pad] * (n - len(bs))
    buf_append(st, p + bs if left else bs + p)
    return None


def read_fixed(M, st, n, pad, left):
    if st.r + n > buf_len(st):
        return ('', short())
    bs = st.cell.v[st.r:st.r + n]
    st.r += n
    return (SymBytes(trim(M.ctl, bs, pad, left)), None)


@gintr('invoke:%d.Calc' % CKS_T)
def _(M, a):
    alg, buf = a[0], a[1]
    st = bufstate(M, buf)
    w, signed = M.cks_hint.get(alg, M.cks_hint['*'])
    return refmod.cks_uf(alg, w, list(st.cell.v[st.r:buf_len(st)]))


def _new_buffer(M, items_cell, off, n, cap):
    tid = M.p.tid_of('bytes.Buffer')
    if tid is None:
        raise Unsupported('bytes.Buffer type not in the SSA dump')
    st = BufState()
    st.cell, st.r, st.n, st.cap = items_cell, off, off + n, off + cap
    v = M.p.zero(tid)
    v[0] = st
    return Ptr(Cell(v, tag='bytes.Buffer'))


@gintr('bytes.NewBuffer')
def _(M, a):
    # NewBuffer takes ownership of the slice: the new buffer ALIASES the array it was given (contents = the slice, unread)
    sl = a[0]
    if sl is None:
        return _new_buffer(M, Cell([]), 0, 0, 0)
    if not (isinstance(sl.off, int) and isinstance(sl.len, int)):
        raise Unsupported('bytes.NewBuffer on a slice with symbolic bounds')
    return _new_buffer(M, sl.cell, sl.off, sl.len, sl.cap if isinstance(sl.cap, int) else sl.len)


@gintr('bytes.NewBufferString')
def _(M, a):
    bs = sbytes(a[0])
    return _new_buffer(M, Cell(list(bs)), 0, len(bs), len(bs))


@gintr('(*bytes.Buffer).Reset')
def _(M, a):
    st = bufstate(M, a[0])
    st.r, st.n = 0, 0
    return None


@gintr('(*bytes.Buffer).Truncate')
def _(M, a):
    st = bufstate(M, a[0])
    k = a[1]
    if not isinstance(k, int):
        raise Unsupported('bytes.Buffer.Truncate with a symbolic length')
    if k < 0 or k > st.n - st.r:
        raise GoPanic('explicit', 'bytes.Buffer: truncation out of range', 'bytes.Buffer.Truncate')
    st.n = st.r + k
    return None


@gintr('(*bytes.Buffer).Cap')
def _(M, a):
    st = bufstate(M, a[0])
    return st.cap


def _put(le, k):
    def f(M, a):
        sl, v = a[1], a[2]
        if sl is None or sl.len < k:
            raise GoPanic('index', 'index out of range [%d] with length %d' % (k - 1, 0 if sl is None else sl.len), 'binary.PutUint%d' % (8 * k))
        sl.cell.v[sl.off:sl.off + k] = bytes_of(v if is_sym(v) else v & ((1 << 8 * k) - 1), k, le)
        return None
    return f


for _k in (2, 4, 8):
    for _le, _n in ((True, 'littleEndian'), (False, 'bigEndian')):
        GO_INTR['(encoding/binary.%s).PutUint%d' % (_n, 8 * _k)] = _put(_le, _k)
