"""Build fin-protoc from /repo's working tree, run it on the program family, cache the
results per source hash under /verif/.cache (only the latest hash is kept)."""
import os, subprocess, hashlib, json, shutil, sys, time, tempfile
from concurrent.futures import ThreadPoolExecutor

REPO = os.environ.get('VERIF_REPO', '/repo')
VERIF = os.path.dirname(os.path.dirname(os.path.abspath(__file__)))
CACHE = os.path.join(VERIF, '.cache')
GOENV = dict(os.environ, GOFLAGS='-mod=mod', GOPROXY='off')
for k in ('GOSUMDB', 'GOTOOLCHAIN'):
    GOENV.pop(k, None)


def repo_hash():
    """hash of every tracked or untracked (non-ignored) file of /repo's working tree"""
    r = subprocess.run(['git', '-C', REPO, 'ls-files', '-co', '--exclude-standard'], capture_output=True, text=True, check=True)
    h = hashlib.sha1()
    for fn in sorted(r.stdout.split('\n')):
        if not fn:
            continue
        p = os.path.join(REPO, fn)
        if not os.path.isfile(p):
            continue
        h.update(fn.encode())
        with open(p, 'rb') as f:
            h.update(hashlib.sha1(f.read()).digest())
    # the framework's own lowering tools and runtimes are part of the key
    import glob
    for fn in sorted(glob.glob(os.path.join(VERIF, 'tools', '*', '*.go')) + glob.glob(os.path.join(VERIF, 'runtimes', '**', '*.*'), recursive=True)):
        if os.path.isfile(fn):
            h.update(fn.encode())
            with open(fn, 'rb') as f:
                h.update(hashlib.sha1(f.read()).digest())
    return h.hexdigest()[:16]


def cache_dir():
    k = repo_hash()
    d = os.path.join(CACHE, k)
    if not os.path.isdir(d):
        os.makedirs(CACHE, exist_ok=True)
        # bound the disk use: keys not used for 90 minutes are dropped except the three most recent ones (a concurrent run on
        # another tree - a seeded change in a scratch worktree, a background run - keeps its key alive by touching it)
        now = time.time()
        others = sorted((o for o in os.listdir(CACHE) if o != k and not o.startswith('_')), key=lambda o: os.path.getmtime(os.path.join(CACHE, o)), reverse=True)
        for o in others[3:]:
            if now - os.path.getmtime(os.path.join(CACHE, o)) > 90 * 60:
                shutil.rmtree(os.path.join(CACHE, o), ignore_errors=True)
        os.makedirs(d, exist_ok=True)
    else:
        try:
            os.utime(d, None)
        except OSError:
            pass
    return d


def shared_dir(kind, paths):
    """cache directory for artefacts that depend on the framework's own runtimes only (not on /repo): shared by all source keys"""
    h = hashlib.sha1()
    for fn in sorted(paths):
        h.update(fn.encode())
        with open(fn, 'rb') as f:
            h.update(hashlib.sha1(f.read()).digest())
    d = os.path.join(CACHE, '_%s_%s' % (kind, h.hexdigest()[:12]))
    os.makedirs(d, exist_ok=True)
    return d


def build_binary(cd=None):
    cd = cd or cache_dir()
    out = os.path.join(cd, 'fin-protoc')
    if os.path.exists(out):
        return out
    tmp = out + '.%d.tmp' % os.getpid()
    r = subprocess.run(['go', 'build', '-o', tmp, './cmd'], cwd=REPO, env=GOENV, capture_output=True, text=True)
    if r.returncode != 0:
        raise RuntimeError('go build of /repo failed:\n' + r.stdout + r.stderr)
    os.replace(tmp, out)
    return out


LANG_FLAGS = [('go', '-g'), ('rs', '-r'), ('java', '-j'), ('py', '-p'), ('cpp', '-c'), ('lua', '-l')]


def run_protoc(binary, dsl_path, outdir, langs=None, timeout=60):
    """run the real compiler; returns dict(rc, stdout, stderr, files{lang:{rel:path}})"""
    args = [binary, '-f', dsl_path]
    for lang, flag in LANG_FLAGS:
        if langs is None or lang in langs:
            args += [flag, os.path.join(outdir, lang)]
    try:
        r = subprocess.run(args, capture_output=True, text=True, timeout=timeout, errors='replace')
        rc, so, se = r.returncode, r.stdout, r.stderr
    except subprocess.TimeoutExpired as e:
        rc, so, se = -999, '', 'timeout'
    files = {}
    for lang, _ in LANG_FLAGS:
        d = os.path.join(outdir, lang)
        fs = {}
        if os.path.isdir(d):
            for root, _, names in os.walk(d):
                for n in names:
                    p = os.path.join(root, n)
                    fs[os.path.relpath(p, d)] = p
        files[lang] = fs
    return {'rc': rc, 'stdout': so, 'stderr': se, 'files': files}


def _lines(b):
    import re
    return sorted(re.sub(rb'Copyright \d+', b'Copyright Y', b).split(b'\n'))


PROBE_VERSION = 2        # bump when the probes run at emission time change (cached statuses of older versions are redone)


def recompile_probe(binary, dsl_path, d, first):
    """the same compile once more, into directories that already hold files of the same names (same size, longer, shorter) with other content
    (what a previous compile of another revision leaves behind, newer than the DSL): the result must be the first run's files.
    Returns {lang: [files that differ]}; files are compared as line multisets (map-order nondeterminism is C13's subject)."""
    out2 = os.path.join(d, 'out2')
    shutil.rmtree(out2, ignore_errors=True)
    k = 0
    for lang, fs in first['files'].items():
        for rel, path in sorted(fs.items()):
            q = os.path.join(out2, lang, rel)
            os.makedirs(os.path.dirname(q), exist_ok=True)
            n = os.path.getsize(path)
            k += 1
            with open(q, 'wb') as f:
                # the older file is as long as the new one, longer (the new revision dropped something), or shorter
                f.write(b'#' * (n, n + 41, max(0, n - 7))[k % 3])
    r2 = run_protoc(binary, dsl_path, out2)
    bad = {}
    for lang, fs in first['files'].items():
        for rel, path in fs.items():
            q = os.path.join(out2, lang, rel)
            try:
                same = _lines(open(path, 'rb').read()) == _lines(open(q, 'rb').read())
            except OSError:
                same = False
            if not same:
                bad.setdefault(lang, []).append(rel)
        extra = sorted(set(r2['files'].get(lang, {})) - set(fs))
        if extra:
            bad.setdefault(lang, []).extend('+' + x for x in extra)
    if r2['rc'] != first['rc']:
        bad['exit'] = ['exit status %s instead of %s' % (r2['rc'], first['rc'])]
    shutil.rmtree(out2, ignore_errors=True)
    return bad


def emit_family(progs, tag):
    """compile every program of the family; returns {name: result}; cached on disk"""
    cd = cache_dir()
    binary = build_binary(cd)
    base = os.path.join(cd, 'progs_' + tag)
    os.makedirs(base, exist_ok=True)
    results = {}

    def one(p):
        d = os.path.join(base, p.name)
        st = os.path.join(d, 'status.json')
        text = p.render()
        if os.path.exists(st):
            try:
                s = json.load(open(st))
                if s.get('dsl') == text and s.get('probe') == PROBE_VERSION:
                    return p.name, s
            except Exception:
                pass
        shutil.rmtree(d, ignore_errors=True)
        os.makedirs(d)
        dsl = os.path.join(d, 'a.dsl')
        open(dsl, 'w').write(text)
        r = run_protoc(binary, dsl, os.path.join(d, 'out'))
        r['dsl'] = text
        r['probe'] = PROBE_VERSION
        r['dir'] = d
        r['stale'] = recompile_probe(binary, dsl, d, r) if r['rc'] == 0 else {}
        json.dump(r, open(st + '.tmp', 'w'))
        os.replace(st + '.tmp', st)
        return p.name, r

    with ThreadPoolExecutor(16) as ex:
        for name, r in ex.map(one, progs):
            results[name] = r
    return results
