"""C++ front-end of pipeline A: the emitted header is compiled by clang++ (-std=c++17,
real libstdc++) against runtimes/cpp inside `namespace fpgen { }`; the JSON AST of that
namespace (-ast-dump=json -ast-dump-filter=fpgen) is interpreted symbolically.
ByteBuf, codec::*, ChecksumServiceContext and MessageFactory are intrinsics."""
import os, re, subprocess, shutil, json, glob
import z3
from .core import (bv, bytes_of, from_bytes, simp, conc, conc_signed, is_sym, Outcome, Unsupported, PathCtl)
from .pspec import WIDTH
from . import build
from . import ref as refmod
from .fe_py import MissingMember, trim, all_packets
from .names import find, norm

PRE = '''#include <cstdint>
#include <functional>
#include <iomanip>
#include <memory>
#include <string>
#include <unordered_map>
#include <vector>
#include <iostream>
#include <sstream>
#include "include/codec.hpp"
#include "include/bytebuf.hpp"
#include "include/checksum.hpp"
#include "message_factory.hpp"
namespace fpgen {
#include "%s"
}
'''

CTYPES = {
    'uint8_t': (8, False), 'unsigned char': (8, False), 'int8_t': (8, True), 'signed char': (8, True), 'char': (8, True),
    'uint16_t': (16, False), 'unsigned short': (16, False), 'int16_t': (16, True), 'short': (16, True),
    'uint32_t': (32, False), 'unsigned int': (32, False), 'int32_t': (32, True), 'int': (32, True),
    'uint64_t': (64, False), 'unsigned long': (64, False), 'size_t': (64, False), 'std::size_t': (64, False),
    'unsigned long long': (64, False), 'int64_t': (64, True), 'long': (64, True), 'long long': (64, True), 'bool': (8, False),
}
CT2T = {'uint8_t': 'u8', 'int8_t': 'i8', 'uint16_t': 'u16', 'int16_t': 'i16', 'uint32_t': 'u32', 'int32_t': 'i32',
        'uint64_t': 'u64', 'int64_t': 'i64', 'float': 'f32', 'double': 'f64', 'unsigned char': 'u8', 'signed char': 'i8', 'char': 'i8',
        'unsigned short': 'u16', 'short': 'i16', 'unsigned int': 'u32', 'int': 'i32', 'unsigned long': 'u64', 'long': 'i64'}


def lower_cpp(progs, emits, tag):
    cd = build.cache_dir()
    base = os.path.join(cd, 'cpp_' + tag)
    done = os.path.join(base, 'DONE')
    rt = os.path.join(build.VERIF, 'runtimes', 'cpp')
    if not os.path.exists(done):
        shutil.rmtree(base, ignore_errors=True)
        os.makedirs(base)
        from concurrent.futures import ThreadPoolExecutor

        def one(p):
            e = emits[p.name]
            files = e['files'].get('cpp', {})
            d = os.path.join(base, p.name)
            os.makedirs(d)
            res = {'errors': [], 'header': None}
            hdrs = [path for rel, path in files.items() if rel.endswith('.hpp')]
            if e['rc'] != 0 or not hdrs:
                res['errors'] = ['no c++ header emitted']
            else:
                hdr = hdrs[0]
                tu = os.path.join(d, 'tu.cpp')
                open(tu, 'w').write(PRE % hdr)
                r = subprocess.run(['clang++', '-std=c++17', '-fsyntax-only', '-Wno-everything', '-I', rt, '-Xclang', '-ast-dump=json',
                                    '-Xclang', '-ast-dump-filter=fpgen', tu], capture_output=True, text=True, errors='replace')
                errs = re.findall(r'error: (.*)', r.stderr)
                if r.returncode != 0 or errs:
                    res['errors'] = errs or [r.stderr[-300:]]
                else:
                    txt = r.stdout
                    k = txt.find('{')
                    open(os.path.join(d, 'ast.json'), 'w').write(txt[k:])
                    res['header'] = hdr
                    res['src'] = open(hdr, errors='replace').read()
            json.dump(res, open(os.path.join(d, 'lower.json'), 'w'))

        with ThreadPoolExecutor(16) as ex:
            list(ex.map(one, progs))
        open(done, 'w').write('ok')
    return {p.name: os.path.join(base, p.name) for p in progs}


# ---------------------------------------------------------------------------- values

class CInt:
    __slots__ = ('v', 'w', 's')

    def __init__(self, v, w, s):
        if isinstance(v, int):
            v &= (1 << w) - 1
            if s and v >> (w - 1):
                v -= 1 << w
        self.v, self.w, self.s = v, w, s

    def bv(self):
        if isinstance(self.v, int):
            return z3.BitVecVal(self.v & ((1 << self.w) - 1), self.w)
        return self.v

    def conv(self, w, s):
        if isinstance(self.v, int):
            return CInt(self.v, w, s)
        x = self.v
        if w < self.w:
            x = z3.Extract(w - 1, 0, x)
        elif w > self.w:
            x = (z3.SignExt if self.s else z3.ZeroExt)(w - self.w, x)
        return CInt(simp(x), w, s)


class CFloat:
    def __init__(self, bits):
        self.bits = bits


class CStr:
    def __init__(self, bs):
        self.bs = list(bs)


class CVec:
    def __init__(self, items):
        self.items = list(items)


class CObj:
    def __init__(self, rec):
        self.rec = rec
        self.f = {}


class CPtr:
    def __init__(self, target):
        self.target = target


class CBuf:
    def __init__(self, data=None):
        self.b = list(data or [])
        self.r = 0


class CCks:
    def __init__(self, alg, t):
        self.alg, self.t = alg, t


class CTok:
    def __init__(self, s):
        self.s = s


class LV:
    def __init__(self, get, set_):
        self.get, self.set = get, set_


class CThrow(Exception):
    def __init__(self, what, kind='error'):
        Exception.__init__(self, what)
        self.what, self.kind = what, kind


class _Ret(Exception):
    def __init__(self, v):
        self.v = v


DEFAULT = object()


def qt(n):
    t = n.get('type', {})
    return t.get('desugaredQualType') or t.get('qualType') or ''


def strip_cv(t):
    t = t.strip()
    t = re.sub(r'^(const|volatile)\s+', '', t)
    t = re.sub(r'\s+(const|volatile)$', '', t)
    t = t.rstrip('&').strip()
    t = re.sub(r'^(const|volatile)\s+', '', t)
    return t


def int_type(t):
    t = strip_cv(t)
    t = t.replace('std::', '') if t.startswith('std::') and t[5:] in CTYPES else t
    return CTYPES.get(t)


class CppFE:
    lang = 'cpp'

    def __init__(self, spec, emit, ldir=None):
        self.spec = spec
        self.rejects = []
        self.soft = []
        self.functions_encoded = []
        if ldir is None or not os.path.exists(os.path.join(ldir, 'lower.json')):
            self.rejects.append('no c++ lowered')
            return
        lj = json.load(open(os.path.join(ldir, 'lower.json')))
        if lj['errors']:
            self.rejects = [re.sub(r'\s+', ' ', e)[:120] for e in lj['errors']]
            return
        self.src = lj['src']
        ast = json.load(open(os.path.join(ldir, 'ast.json')))
        self.records = {}
        self.registrations = []
        self.aliases = {}
        for n in ast.get('inner', []):
            k = n.get('kind')
            if k == 'CXXRecordDecl' and n.get('completeDefinition') and n.get('name'):
                self.records[n['name']] = n
            elif k == 'VarDecl':
                self.registrations.append(n)
            elif k == 'TypeAliasDecl':
                self.aliases[n['name']] = qt(n)
        for rn, r in self.records.items():
            for m in r.get('inner', []):
                if m.get('kind') == 'CXXMethodDecl' and m.get('name') in ('encode', 'decode'):
                    self.functions_encoded.append('%s::%s' % (rn, m['name']))
        self.ctl = PathCtl()
        self.cks_registered = True
        self.steps = 0

    # ------------------------------------------------------------------ structure
    def fields_of(self, rec):
        return [(m['name'], qt(m)) for m in rec.get('inner', []) if m.get('kind') == 'FieldDecl']

    def method(self, rec, name):
        for m in rec.get('inner', []):
            if m.get('kind') == 'CXXMethodDecl' and m.get('name') == name and any(c.get('kind') == 'CompoundStmt' for c in m.get('inner', [])):
                return m
        return None

    def new_obj(self, rname):
        rec = self.records[rname]
        o = CObj(rec)
        for fn, ft in self.fields_of(rec):
            o.f[fn] = self.default_of(ft)
        return o

    def default_of(self, t):
        t0 = strip_cv(t)
        it = int_type(t0)
        if it:
            return CInt(0, *it)   # note: C++ leaves scalars uninitialised; decode assigns before any read
        if t0 in ('float',):
            return CFloat(z3.BitVecVal(0, 32))
        if t0 in ('double',):
            return CFloat(z3.BitVecVal(0, 64))
        if 'basic_string' in t0 or t0 in ('std::string', 'string'):
            return CStr([])
        if t0.startswith('std::vector') or t0.startswith('vector'):
            return CVec([])
        if 'unique_ptr' in t0 or 'shared_ptr' in t0:
            return CPtr(None)
        rn = t0.split('::')[-1]
        if rn in self.records:
            return self.new_obj(rn)
        raise Unsupported('default value of C++ type ' + t)

    def factories(self):
        """{factory type string: (key int type or 'str', [(key, record name)])} from the MessageRegistrar variables"""
        fac = {}
        for v in self.registrations:
            t = qt(v)
            m = re.match(r'^(?:const )?MessageRegistrar<(MessageFactory<(.*?), codec::BinaryCodec, (.*?)>), (.*)>$', t)
            if not m:
                continue
            ftype, ktype, tag, target = m.group(1), m.group(2), m.group(3), m.group(4)
            lit = self.find_literal(v)
            if lit is None:
                raise Unsupported('registration key of ' + v.get('name', '?'))
            fac.setdefault(ftype, (ktype, []))[1].append((lit, target.split('::')[-1]))
        return fac

    def find_literal(self, n):
        k = n.get('kind')
        if k == 'IntegerLiteral':
            return int(n['value'])
        if k == 'StringLiteral':
            return self.str_lit(n)
        if k == 'CharacterLiteral':
            return int(n['value'])
        if k == 'UnaryOperator' and n.get('opcode') == '-':
            v = self.find_literal(n['inner'][0])
            return -v if isinstance(v, int) else None
        for c in n.get('inner', []):
            r = self.find_literal(c)
            if r is not None:
                return r
        return None

    def str_lit(self, n):
        v = n['value']
        try:
            s = json.loads(v) if v.startswith('"') else v
        except Exception:
            s = v.strip('"')
        return s

    def src_text(self, n):
        r = n.get('range', {})
        b, e = r.get('begin', {}), r.get('end', {})
        if 'offset' not in b or 'offset' not in e:
            if 'expansionLoc' in b:
                return ''
            return ''
        return self.src[b['offset']:e['offset'] + e.get('tokLen', 1)]

    def targs_of(self, callee):
        txt = self.src_text(callee)
        m = re.search(r'<(.*)>\s*$', txt)
        if not m:
            return []
        return [x.strip() for x in m.group(1).split(',')]

    # ------------------------------------------------------------------ interpreter
    def call_method(self, obj, name, args):
        m = self.method(obj.rec, name)
        if m is None:
            raise Unsupported('method %s of %s' % (name, obj.rec.get('name')))
        env = {}
        params = [c for c in m.get('inner', []) if c.get('kind') == 'ParmVarDecl']
        for p, a in zip(params, args):
            env[p['id']] = a
        body = [c for c in m['inner'] if c.get('kind') == 'CompoundStmt'][0]
        try:
            self.stmt(body, env, obj)
        except _Ret as r:
            return r.v
        return None

    def stmt(self, n, env, this):
        self.steps += 1
        if self.steps > 500000:
            raise Outcome('unwind', 'instruction budget exceeded')
        k = n['kind']
        if k == 'CompoundStmt':
            for c in n.get('inner', []):
                self.stmt(c, env, this)
        elif k == 'DeclStmt':
            for v in n.get('inner', []):
                if v['kind'] != 'VarDecl':
                    raise Unsupported('declaration ' + v['kind'])
                init = [c for c in v.get('inner', []) if 'kind' in c and c['kind'] not in ('OverrideAttr',)]
                val = self.rval(init[0], env, this) if init else self.default_of(qt(v))
                val = self.coerce(val, qt(v))
                env[v['id']] = val
        elif k == 'IfStmt':
            inner = n['inner']
            c = self.truth(self.rval(inner[0], env, this))
            if c:
                self.stmt(inner[1], env, this)
            elif len(inner) > 2:
                self.stmt(inner[2], env, this)
        elif k == 'ReturnStmt':
            raise _Ret(self.rval(n['inner'][0], env, this) if n.get('inner') else None)
        elif k == 'NullStmt':
            pass
        elif k in ('ForStmt', 'WhileStmt', 'CXXForRangeStmt', 'DoStmt', 'SwitchStmt'):
            raise Unsupported('statement ' + k)
        else:
            self.ev(n, env, this)

    def coerce(self, v, t):
        it = int_type(t)
        if it and isinstance(v, CInt):
            return v.conv(*it)
        return v

    def truth(self, v):
        if isinstance(v, bool):
            return v
        if isinstance(v, CInt):
            if isinstance(v.v, int):
                return v.v != 0
            return self.ctl.branch(v.v != 0)
        if v is None:
            return False
        if isinstance(v, (CPtr,)):
            return v.target is not None
        if isinstance(v, (CCks, CObj)):
            return True
        if z3.is_bool(v):
            return self.ctl.branch(v)
        raise Unsupported('truth of %r' % type(v))

    def rval(self, n, env, this):
        v = self.ev(n, env, this)
        if isinstance(v, LV):
            return v.get()
        return v

    def ev(self, n, env, this):
        k = n['kind']
        inner = n.get('inner', [])
        if k in ('ExprWithCleanups', 'MaterializeTemporaryExpr', 'CXXBindTemporaryExpr', 'ParenExpr', 'ConstantExpr', 'CXXFunctionalCastExpr'):
            return self.ev(inner[0], env, this)
        if k == 'ImplicitCastExpr' or k == 'CXXStaticCastExpr' or k == 'CStyleCastExpr':
            ck = n.get('castKind')
            if ck == 'LValueToRValue':
                return self.rval(inner[0], env, this)
            if ck in ('IntegralCast', 'IntegralToBoolean', 'BooleanToSignedIntegral'):
                v = self.rval(inner[0], env, this)
                it = int_type(qt(n))
                if isinstance(v, bool):
                    v = CInt(int(v), 8, False)
                if it is None or not isinstance(v, CInt):
                    raise Unsupported('integral cast to ' + qt(n))
                return v.conv(*it)
            if ck in ('NoOp', 'FunctionToPointerDecay', 'ArrayToPointerDecay', 'UncheckedDerivedToBase', 'DerivedToBase', 'ConstructorConversion',
                      'UserDefinedConversion', 'BaseToDerived', 'Dependent', 'BuiltinFnToFnPtr'):
                return self.ev(inner[0], env, this)
            if ck == 'NullToPointer':
                return None
            if ck == 'PointerToBoolean':
                v = self.rval(inner[0], env, this)
                return v is not None and not (isinstance(v, CPtr) and v.target is None)
            if ck in ('IntegralToFloating', 'FloatingToIntegral', 'FloatingCast'):
                raise Unsupported('floating point cast')
            raise Unsupported('cast ' + str(ck))
        if k == 'IntegerLiteral':
            it = int_type(qt(n)) or (32, True)
            return CInt(int(n['value']), *it)
        if k == 'CharacterLiteral':
            return CInt(int(n['value']), 8, True)
        if k == 'CXXBoolLiteralExpr':
            return bool(n['value'])
        if k == 'StringLiteral':
            return CStr([z3.BitVecVal(c, 8) for c in self.str_lit(n).encode()])
        if k == 'CXXNullPtrLiteralExpr' or k == 'GNUNullExpr':
            return None
        if k == 'CXXDefaultArgExpr':
            return DEFAULT
        if k == 'CXXThisExpr':
            return this
        if k == 'DeclRefExpr':
            rd = n['referencedDecl']
            if rd['kind'] in ('VarDecl', 'ParmVarDecl'):
                i = rd['id']
                if i not in env:
                    raise Unsupported('reference to unknown variable ' + rd.get('name', '?'))
                return LV(lambda: env[i], lambda x: env.__setitem__(i, x))
            if rd['kind'] in ('FunctionDecl', 'CXXMethodDecl'):
                return CTok('fn:' + rd['name'])
            raise Unsupported('DeclRefExpr to ' + rd['kind'])
        if k == 'MemberExpr':
            base = self.rval(inner[0], env, this)
            name = n['name']
            if isinstance(base, CPtr):
                base = base.target
            if base is None:
                raise CThrow('null pointer dereference (member %s)' % name, 'panic')
            if isinstance(base, CObj):
                if name in base.f:
                    return LV(lambda: base.f[name], lambda x: base.f.__setitem__(name, x))
                return CTok('method:' + name)
            return CTok('method:' + name)
        if k == 'CXXMemberCallExpr':
            return self.member_call(n, env, this)
        if k == 'CallExpr':
            return self.free_call(n, env, this)
        if k == 'CXXOperatorCallExpr':
            return self.operator_call(n, env, this)
        if k == 'CXXConstructExpr':
            t = qt(n)
            args = [self.rval(c, env, this) for c in inner]
            args = [a for a in args if a is not DEFAULT]
            if 'basic_string' in t or 'std::string' in t:
                if not args:
                    return CStr([])
                return args[0]
            if len(args) == 1:
                return args[0]
            if not args:
                return self.default_of(t)
            raise Unsupported('constructor of ' + t)
        if k == 'BinaryOperator':
            op = n['opcode']
            if op == '=':
                lhs = self.ev(inner[0], env, this)
                v = self.coerce(self.rval(inner[1], env, this), qt(inner[0]))
                if not isinstance(lhs, LV):
                    raise Unsupported('assignment to non-lvalue')
                lhs.set(v)
                return lhs
            a = self.rval(inner[0], env, this)
            b = self.rval(inner[1], env, this)
            return self.binop(op, a, b, qt(n))
        if k == 'UnaryOperator':
            op = n['opcode']
            v = self.rval(inner[0], env, this)
            if op == '!':
                return not self.truth(v)
            if op == '*':
                if isinstance(v, CPtr):
                    v = v.target
                if v is None:
                    raise CThrow('null pointer dereference', 'panic')
                return v
            if op == '-' and isinstance(v, CInt):
                return CInt(-v.v if isinstance(v.v, int) else -v.v, v.w, v.s)
            raise Unsupported('unary ' + op)
        raise Unsupported('expression ' + k)

    def binop(self, op, a, b, rt):
        if op in ('==', '!=') and (a is None or b is None or isinstance(a, (CPtr, CCks)) or isinstance(b, (CPtr, CCks))):
            an = a is None or (isinstance(a, CPtr) and a.target is None)
            bn = b is None or (isinstance(b, CPtr) and b.target is None)
            eq = an and bn if (an or bn) else a is b
            return eq if op == '==' else not eq
        if isinstance(a, bool):
            a = CInt(int(a), 32, True)
        if isinstance(b, bool):
            b = CInt(int(b), 32, True)
        if not isinstance(a, CInt) or not isinstance(b, CInt):
            raise Unsupported('binary %s on %s,%s' % (op, type(a).__name__, type(b).__name__))
        w = max(a.w, b.w)
        s = a.s and b.s if a.w == b.w else (a.s if a.w > b.w else b.s)
        a, b = a.conv(w, s), b.conv(w, s)
        if isinstance(a.v, int) and isinstance(b.v, int):
            x, y = a.v, b.v
            if op in ('==', '!=', '<', '<=', '>', '>='):
                return {'==': x == y, '!=': x != y, '<': x < y, '<=': x <= y, '>': x > y, '>=': x >= y}[op]
            r = {'+': x + y, '-': x - y, '*': x * y, '&': x & y, '|': x | y, '^': x ^ y}.get(op)
            if r is None:
                raise Unsupported('binary ' + op)
            return CInt(r, w, s)
        A, B = a.bv(), b.bv()
        if op in ('==', '!=', '<', '<=', '>', '>='):
            c = {'==': A == B, '!=': A != B, '<': (A < B) if s else z3.ULT(A, B), '<=': (A <= B) if s else z3.ULE(A, B),
                 '>': (A > B) if s else z3.UGT(A, B), '>=': (A >= B) if s else z3.UGE(A, B)}[op]
            c = z3.simplify(c)
            return True if z3.is_true(c) else False if z3.is_false(c) else c
        r = {'+': A + B, '-': A - B, '*': A * B, '&': A & B, '|': A | B, '^': A ^ B}.get(op)
        if r is None:
            raise Unsupported('symbolic binary ' + op)
        return CInt(simp(r), w, s)

    def operator_call(self, n, env, this):
        inner = n['inner']
        callee = inner[0]
        name = None
        x = callee
        while x.get('kind') != 'DeclRefExpr' and x.get('inner'):
            x = x['inner'][0]
        name = x.get('referencedDecl', {}).get('name')
        if name == 'operator->' or name == 'operator*':
            v = self.rval(inner[1], env, this)
            if isinstance(v, CPtr):
                if v.target is None:
                    raise CThrow('dereference of null unique_ptr', 'panic')
                return v.target
            return v
        if name == 'operator=':
            lhs = self.ev(inner[1], env, this)
            v = self.rval(inner[2], env, this)
            if not isinstance(lhs, LV):
                raise Unsupported('operator= on non-lvalue')
            cur = lhs.get()
            if isinstance(cur, CPtr) and not isinstance(v, CPtr):
                v = CPtr(v)
            lhs.set(v)
            return lhs
        if name in ('operator==', 'operator!='):
            raise Unsupported('operator== in codec path')
        if name == 'operator bool':
            return self.truth(self.rval(inner[1], env, this))
        raise Unsupported('operator call ' + str(name))

    def member_call(self, n, env, this):
        inner = n['inner']
        callee = inner[0]
        while callee.get('kind') in ('ImplicitCastExpr', 'ParenExpr'):
            callee = callee['inner'][0]
        if callee.get('kind') != 'MemberExpr':
            raise Unsupported('member call through ' + callee.get('kind', '?'))
        mname = callee['name']
        obj = self.rval(callee['inner'][0], env, this)
        if callee.get('isArrow') and isinstance(obj, CPtr):
            obj = obj.target
        if isinstance(obj, CPtr):
            # method of unique_ptr itself
            if mname == 'get':
                return obj.target
            if mname == 'reset':
                obj.target = None
                return None
        args = [self.rval(a, env, this) for a in inner[1:]]
        if obj is None:
            raise CThrow('member call %s on null pointer' % mname, 'panic')
        if isinstance(obj, CBuf):
            return self.bytebuf(obj, mname, args)
        if isinstance(obj, CObj):
            return self.call_method(obj, mname, args)
        if isinstance(obj, CCks):
            if mname == 'calc':
                buf = args[0]
                w = WIDTH[obj.t]
                return self.scalar_of(refmod.cks_uf(obj.alg, w, list(buf.b)), obj.t)
        if isinstance(obj, CTok):
            if obj.s == 'cksctx' and mname == 'get':
                targs = self.targs_of(callee)
                if not self.cks_registered:
                    return None
                nm = args[0]
                t = CT2T.get(strip_cv(targs[1]) if len(targs) > 1 else 'uint32_t')
                if t is None:
                    raise Unsupported('checksum service result type ' + str(targs))
                return CCks(bytes(conc(b) for b in nm.bs).decode(), t)
            if obj.s.startswith('factory:') and mname == 'create':
                return self.factory_create(obj.s[8:], args[0])
        if isinstance(obj, CStr):
            if mname in ('size', 'length'):
                return CInt(len(obj.bs), 64, False)
            if mname == 'empty':
                return len(obj.bs) == 0
        if isinstance(obj, CVec):
            if mname == 'size':
                return CInt(len(obj.items), 64, False)
            if mname == 'empty':
                return len(obj.items) == 0
        raise Unsupported('member call %s on %s' % (mname, type(obj).__name__))

    def free_call(self, n, env, this):
        inner = n['inner']
        callee = inner[0]
        x = callee
        while x.get('kind') != 'DeclRefExpr' and x.get('inner'):
            x = x['inner'][0]
        rd = x.get('referencedDecl', {})
        name = rd.get('name')
        if name == 'instance' and 'ChecksumServiceContext' in rd.get('type', {}).get('qualType', ''):
            return CTok('cksctx')
        if name == 'getInstance':
            t = rd.get('type', {}).get('qualType', '')
            m = re.match(r'^(MessageFactory<.*>) &\(\)', t)
            if m:
                return CTok('factory:' + m.group(1))
            raise Unsupported('getInstance of ' + t)
        args = [self.rval(a, env, this) for a in inner[1:]]
        targs = [strip_cv(t) for t in self.targs_of(x)]
        return self.codec(name, targs, args)

    def factory_create(self, ftype, key):
        fac = self.factories()
        if ftype not in fac:
            raise CThrow('MessageFactory: unknown key (empty factory)')
        ktype, regs = fac[ftype]
        it = int_type(ktype)
        conds = []
        seen = []
        for k, target in regs:
            if it:
                kk = CInt(k, *it)
                if not isinstance(key, CInt):
                    raise Unsupported('factory key value')
                c = self.binop('==', key.conv(*it), kk, 'bool')
            else:
                if not isinstance(key, CStr) or not isinstance(k, str):
                    raise Unsupported('factory key value')
                c = cstr_eq(key.bs, k)
            conds.append((c, target))
        alts = []
        for c, target in conds:
            if c is True:
                if not alts:
                    return CPtr(self.construct(target))
                alts.append((z3.BoolVal(True), target))
                break
            if c is False:
                continue
            alts.append((c, target))
        if not alts:
            raise CThrow('MessageFactory: unknown key')
        excl, prev = [], []
        for c, t in alts:
            excl.append(z3.And([c] + [z3.Not(p) for p in prev]))
            prev.append(c)
        excl.append(z3.And([z3.Not(p) for p in prev]))
        i = self.ctl.choose(excl)
        if i == len(alts):
            raise CThrow('MessageFactory: unknown key')
        return CPtr(self.construct(alts[i][1]))

    def construct(self, rname):
        if rname not in self.records:
            raise Unsupported('construct ' + rname)
        return self.new_obj(rname)

    # ------------------------------------------------------------------ contract
    def scalar_of(self, bits, t):
        if t in ('f32', 'f64'):
            return CFloat(bits)
        return CInt(bits, 8 * WIDTH[t], t.startswith('i'))

    def bits(self, v, k):
        if isinstance(v, CFloat):
            return v.bits if v.bits.size() == 8 * k else z3.BitVec('fconv', 8 * k)
        if isinstance(v, bool):
            v = CInt(int(v), 8, False)
        if not isinstance(v, CInt):
            raise Unsupported('scalar argument %r' % type(v))
        c = v.conv(8 * k, False)
        return c.v

    def bytebuf(self, buf, mname, a):
        m = re.match(r'^(write|read)_(u8|i8|u16|i16|u32|i32|u64|i64|f32|f64)(_le)?(_at)?$', mname)
        if m:
            kind, t, le, at = m.group(1), m.group(2), bool(m.group(3)), bool(m.group(4))
            k = WIDTH[t]
            if kind == 'write':
                if at:
                    pos = self.cint(a[0])
                    if pos + k > len(buf.b):
                        raise CThrow('ByteBuf: write_at past end', 'panic')
                    buf.b[pos:pos + k] = bytes_of(self.bits(a[1], k), k, le)
                else:
                    buf.b.extend(bytes_of(self.bits(a[0], k), k, le))
                return None
            if at:
                raise Unsupported('ByteBuf.' + mname)
            if buf.r + k > len(buf.b):
                raise CThrow('ByteBuf: read past end')
            v = from_bytes(buf.b[buf.r:buf.r + k], le)
            buf.r += k
            return self.scalar_of(v, t)
        if mname == 'writer_index':
            return CInt(len(buf.b), 64, False)
        if mname == 'reader_index':
            return CInt(buf.r, 64, False)
        raise CThrow('no member named %s in ByteBuf' % mname)

    def cint(self, v):
        if isinstance(v, CInt):
            v = v.v
        if isinstance(v, int):
            return v
        c = conc(v)
        if c is None:
            if z3.is_bv(v):
                return self.ctl.concretise(v)
            raise Unsupported('symbolic integer where a concrete one is needed')
        return c

    def codec(self, name, targs, a):
        if name is None:
            raise Unsupported('call of unnamed function')
        le = name.endswith('_le')
        base = name[:-3] if le else name
        ts = [CT2T.get(t, t) for t in targs]
        buf = a[0] if a else None
        if base == 'write_string':
            s = a[1]
            buf.b.extend(bytes_of(len(s.bs), WIDTH[ts[0]], le))
            buf.b.extend(s.bs)
            return None
        if base == 'read_string':
            return self.read_str(buf, ts[0], le)
        if base == 'write_fixed_string':
            pad, left = self.padargs(a[3:])
            self.put_fixed(buf, a[1], self.cint(a[2]), pad, left)
            return None
        if base == 'read_fixed_string':
            pad, left = self.padargs(a[2:])
            return self.get_fixed(buf, self.cint(a[1]), pad, left)
        if base == 'write_basic_type':
            v = a[1]
            k = WIDTH[ts[1]]
            buf.b.extend(bytes_of(len(v.items), WIDTH[ts[0]], le))
            for x in v.items:
                buf.b.extend(bytes_of(self.bits(x, k), k, le))
            return None
        if base == 'read_basic_type':
            n = self.get_len(buf, ts[0], le)
            k = WIDTH[ts[1]]
            out = []
            for _ in range(bound(n)):
                if buf.r + k > len(buf.b):
                    raise CThrow('ByteBuf: read past end')
                out.append(self.scalar_of(from_bytes(buf.b[buf.r:buf.r + k], le), ts[1]))
                buf.r += k
            return CVec(out)
        if base == 'write_string_list':
            v = a[1]
            buf.b.extend(bytes_of(len(v.items), WIDTH[ts[0]], le))
            for s in v.items:
                buf.b.extend(bytes_of(len(s.bs), WIDTH[ts[1]], le))
                buf.b.extend(s.bs)
            return None
        if base == 'read_string_list':
            n = self.get_len(buf, ts[0], le)
            return CVec([self.read_str(buf, ts[1], le) for _ in range(bound(n))])
        if base == 'write_fixed_string_list':
            v = a[1]
            pad, left = self.padargs(a[3:])
            buf.b.extend(bytes_of(len(v.items), WIDTH[ts[0]], le))
            for s in v.items:
                self.put_fixed(buf, s, self.cint(a[2]), pad, left)
            return None
        if base == 'read_fixed_string_list':
            pad, left = self.padargs(a[2:])
            n = self.get_len(buf, ts[0], le)
            return CVec([self.get_fixed(buf, self.cint(a[1]), pad, left) for _ in range(bound(n))])
        if base == 'write_object_List':
            v = a[1]
            buf.b.extend(bytes_of(len(v.items), WIDTH[ts[0]], le))
            for x in v.items:
                self.call_method(x, 'encode', [buf])
            return None
        if base == 'read_object_List':
            n = self.get_len(buf, ts[0], le)
            out = []
            rn = targs[1].split('::')[-1]
            for _ in range(bound(n)):
                o = self.construct(rn)
                self.call_method(o, 'decode', [buf])
                out.append(o)
            return CVec(out)
        raise Unsupported('call of ' + name)

    def padargs(self, rest):
        rest = [x for x in rest]
        pad = z3.BitVecVal(0x20, 8)
        left = False
        if len(rest) > 0 and rest[0] is not DEFAULT:
            pad = bv(self.bits(rest[0], 1), 8)
        if len(rest) > 1 and rest[1] is not DEFAULT:
            if not isinstance(rest[1], bool):
                if isinstance(rest[1], CInt) and isinstance(rest[1].v, int):
                    left = rest[1].v != 0
                else:
                    raise Unsupported('symbolic pad side')
            else:
                left = rest[1]
        return pad, left

    def get_len(self, buf, t, le):
        k = WIDTH[t]
        if buf.r + k > len(buf.b):
            raise CThrow('ByteBuf: read past end')
        v = from_bytes(buf.b[buf.r:buf.r + k], le)
        buf.r += k
        c = conc(v)
        if c is None:
            raise Unsupported('symbolic length prefix')
        return c

    def read_str(self, buf, t, le):
        n = self.get_len(buf, t, le)
        if buf.r + n > len(buf.b):
            raise CThrow('ByteBuf: read past end')
        s = CStr(buf.b[buf.r:buf.r + n])
        buf.r += n
        return s

    def put_fixed(self, buf, s, n, pad, left):
        if len(s.bs) > n:
            raise CThrow('string longer than fixed size')
        p = [pad] * (n - len(s.bs))
        buf.b.extend(p + s.bs if left else s.bs + p)

    def get_fixed(self, buf, n, pad, left):
        if buf.r + n > len(buf.b):
            raise CThrow('ByteBuf: read past end')
        bs = buf.b[buf.r:buf.r + n]
        buf.r += n
        return CStr(trim(self.ctl, bs, pad, left))

    # ------------------------------------------------------------------ API for checks
    def reset(self, ctl, cks_registered):
        self.ctl = ctl
        self.cks_registered = cks_registered
        self.steps = 0

    def rec_of(self, packet):
        n = find(list(self.records), packet.name)
        if n is None:
            raise MissingMember('struct for packet %s' % packet.name)
        return n

    def to_lang(self, packet, msg):
        rn = self.rec_of(packet)
        o = CObj(self.records[rn])
        fl = self.fields_of(self.records[rn])
        if len(fl) != len(packet.fields):
            raise MissingMember('packet %s: members %s for fields %s' % (packet.name, [n for n, t in fl], [f.name for f in packet.fields]))
        for f, (fn, ft) in zip(packet.fields, fl):
            sem = self.spec.resolve(f)
            v = msg.v[f.name]
            if f.repeat:
                m = re.match(r'^(?:const )?std::vector<(.*?)(?:, std::allocator<.*>)?>$', strip_cv(ft))
                et = m.group(1) if m else '?'
                if not m:
                    raise MissingMember('packet %s: the member of repeated field %s is no list (C++ type %s)' % (packet.name, f.name, ft))
                o.f[fn] = CVec([self.elem_to_lang(sem, x, et) for x in v])
            else:
                if strip_cv(ft).startswith('std::vector<'):
                    raise MissingMember('packet %s: the member of plain field %s is a list (C++ type %s)' % (packet.name, f.name, ft))
                o.f[fn] = self.elem_to_lang(sem, v, ft)
        return o

    def elem_to_lang(self, sem, v, ft):
        t0 = strip_cv(ft)
        if sem[0] in ('basic', 'lengthof', 'checksum'):
            if t0 in ('float', 'double'):
                return CFloat(v)
            it = int_type(t0)
            if it is None:
                raise Unsupported('scalar field with C++ type ' + ft)
            w, s = it
            if v.size() != w:
                v = simp((z3.SignExt if sem[1].startswith('i') else z3.ZeroExt)(w - v.size(), v)) if w > v.size() else simp(z3.Extract(w - 1, 0, v))
            return CInt(v, w, s)
        if sem[0] in ('fixed', 'dyn'):
            return CStr(v)
        if sem[0] == 'obj':
            o = self.to_lang(sem[1], v)
            return CPtr(o) if 'unique_ptr' in t0 else o
        if sem[0] == 'match':
            return CPtr(self.to_lang(v.packet, v))
        raise ValueError(sem)

    def run(self, fn):
        try:
            return fn()
        except CThrow as t:
            raise Outcome(t.kind, t.what)
        except RecursionError:
            raise Outcome('panic', 'stack overflow')

    def encode(self, ctl, packet, msg, cks_registered=True):
        self.reset(ctl, cks_registered)

        def go():
            o = self.to_lang(packet, msg)
            buf = CBuf()
            self.call_method(o, 'encode', [buf])
            return buf.b, o
        return self.run(go)

    def decode(self, ctl, packet, data, cks_registered=True):
        self.reset(ctl, cks_registered)

        def go():
            o = self.new_obj(self.rec_of(packet))
            buf = CBuf(data)
            self.call_method(o, 'decode', [buf])
            return o, buf.r
        return self.run(go)

    def redecode(self, ctl, o, packet, data):
        self.ctl = ctl

        def go():
            buf = CBuf(data)
            self.call_method(o, 'decode', [buf])
            return o, buf.r
        return self.run(go)

    def reencode(self, ctl, o, cks_registered=True):
        self.ctl = ctl

        def go():
            buf = CBuf()
            self.call_method(o, 'encode', [buf])
            return buf.b
        return self.run(go)

    def to_logical(self, packet, o):
        from .compare import LObj
        fl = self.fields_of(o.rec)
        if len(fl) != len(packet.fields):
            raise MissingMember('packet %s: members %s' % (packet.name, [n for n, t in fl]))
        out = {}
        for f, (fn, ft) in zip(packet.fields, fl):
            out[f.name] = self.val_to_logical(o.f.get(fn))
        return LObj(o.rec.get('name', '?'), out)

    def val_to_logical(self, v):
        from .compare import LInt, LBytes, LList, LObj, LFloat, LNull
        if v is None:
            return LNull()
        if isinstance(v, CInt):
            return LInt(v.bv(), v.s)
        if isinstance(v, CFloat):
            return LFloat(v.bits)
        if isinstance(v, CStr):
            return LBytes(v.bs)
        if isinstance(v, CVec):
            return LList([self.val_to_logical(x) for x in v.items])
        if isinstance(v, CPtr):
            return self.val_to_logical(v.target)
        if isinstance(v, CObj):
            pk = self.packet_of(v.rec.get('name', ''))
            if pk is None:
                return LObj(v.rec.get('name', '?'), {})
            return self.to_logical(pk, v)
        raise Unsupported('c++ value %r' % type(v))

    def packet_of(self, name):
        for pk in all_packets(self.spec):
            if norm(pk.name) == norm(name):
                return pk
        return None


def cstr_eq(bs, s):
    o = s.encode()
    if len(o) != len(bs):
        return False
    cs = [simp(bv(a, 8) == z3.BitVecVal(b, 8)) for a, b in zip(bs, o)]
    if any(z3.is_false(c) for c in cs):
        return False
    cs = [c for c in cs if not z3.is_true(c)]
    return z3.And(cs) if cs else True


def bound(n):
    from . import core as _core
    if n > _core.LOOP_BOUND[0]:
        raise Outcome('unwind', 'loop bound %d exceeded (list length %d)' % (_core.LOOP_BOUND[0], n))
    return n
