"""`./vcheck <Cxx> --replay <file>`: re-run the cell a replay file describes on the current tree
and say whether the violation reproduces (exit 1) or not (exit 0)."""
import json, sys


def main(prop, path):
    rec = json.load(open(path))
    print(json.dumps({k: rec.get(k) for k in ('property', 'signature', 'program', 'packet', 'shape', 'detail', 'cex')}, indent=1, default=str)[:3000])
    if rec.get('dsl'):
        print('--- DSL ---')
        print(rec['dsl'])
    from . import checks_a, build, core
    from .pspec import family
    for tier in ('quick', 'thorough'):
        progs = family(tier)
        if any(p.name == rec.get('program') for p in progs):
            break
    emits = build.emit_family(progs, tier)
    low = checks_a.lower_all(progs, emits, tier) if prop != 'C15' else {}
    checks_a._LOW['emits'] = emits
    checks_a._LOW['low'] = low
    r = checks_a.worker((prop, tier, rec['program']))
    hits = [f for f in r['findings'] if f['sig'] == rec.get('signature') or f['sig'] == rec.get('sig')]
    if prop in ('C07', 'C15') and not hits:
        for lang, errs in r['rejects'].items():
            for e in errs:
                if lang in rec.get('signature', '') and e[:40] in rec.get('detail', ''):
                    hits.append({'detail': e})
    if hits:
        print('REPRODUCED: %s' % hits[0].get('detail'))
        print('VIOLATION property=%s replay=%s' % (prop, path))
        return 1
    print('not reproduced on the current tree')
    return 0
