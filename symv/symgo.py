"""Pipeline B plumbing: lowering of /repo itself (go/ssa via tools/ssajson with a harness
overlay), the native helper (tools/vhelper, built into the module by overlay), loading
of native parse-tree snapshots into the interpreter heap, and the intrinsics /
environment stubs the repo's own code needs."""
import os, json, subprocess, shutil, re, hashlib
import z3
from . import build, gointr
from .core import Unsupported, PathCtl, is_sym, conc
from .gossa import (Prog, Machine, Ptr, Cell, Slice, Iface, Closure, GoMap, GoPanic, GoExit, go_str, cp)
from .gointr import mkerr, ERR_T, err_text, INTR

MOD = 'github.com/xinchentechnote/fin-protoc'
PARSER = MOD + '/internal/parser'
MODEL = MOD + '/internal/model'
GRAMMAR = MOD + '/internal/grammar'
ANTLR = 'github.com/antlr4-go/antlr/v4'
STOPS = ('fmt.,strings.,strconv.,sort.,os.,time.,regexp.,html/template.,text/template.,sync.,sync/atomic.,unicode,bytes.,errors.,'
         'reflect.,runtime.,path/filepath.,io.,github.com/spf13/,syscall.,unsafe.,math.,bufio.,log.,golang.org/x/exp,slices.,maps.,'
         'encoding/,hash/,container/,internal/')

HARNESS = '''package parser

import (
	"strings"

	"github.com/antlr4-go/antlr/v4"
	gen "github.com/xinchentechnote/fin-protoc/internal/grammar"
	"github.com/xinchentechnote/fin-protoc/internal/model"
)

// harness entry points for the symbolic engine (virtual file, injected by overlay)

func VerifVisit(tree gen.IPacketContext) *model.BinaryModel {
	v := NewPacketDslVisitor()
	return tree.Accept(v).(*model.BinaryModel)
}

func VerifFormat(tree gen.IPacketContext, stream *antlr.CommonTokenStream) string {
	f := NewPacketDslFormattor(stream)
	return strings.TrimSpace(tree.Accept(f).(string))
}

func VerifGenerate(name string, m *model.BinaryModel) (map[string][]byte, error) {
	var g Generator
	switch name {
	case "lua":
		g = NewLuaWspGenerator(m)
	case "rust":
		g = NewRustGenerator(m)
	case "go":
		g = NewGoGenerator(m)
	case "java":
		g = NewJavaGenerator(m)
	case "python":
		g = NewPythonGenerator(m)
	default:
		g = NewCppGenerator(m)
	}
	return g.Generate(m)
}
'''


def lower_repo():
    """returns (json path, helper binary path); cached per /repo source hash"""
    cd = build.cache_dir()
    d = os.path.join(cd, 'repo_ssa')
    jp = os.path.join(d, 'repo.json')
    hp = os.path.join(d, 'vhelper')
    if os.path.exists(os.path.join(d, 'DONE')):
        return jp, hp
    shutil.rmtree(d, ignore_errors=True)
    os.makedirs(d)
    hfile = os.path.join(d, 'zz_verif_harness.go')
    open(hfile, 'w').write(HARNESS)
    ov = os.path.join(d, 'overlay_ssa.json')
    json.dump({os.path.join(build.REPO, 'internal', 'parser', 'zz_verif_harness.go'): hfile}, open(ov, 'w'))
    r = subprocess.run([os.path.join(build.VERIF, 'bin', 'ssajson'), '-dir', build.REPO, '-o', jp, '-overlay', ov,
                        '-rootpkgs', '%s,%s,%s/cmd' % (PARSER, MODEL, MOD), '-stop', STOPS,
                        './internal/parser', './internal/model', './cmd'], capture_output=True, text=True, env=build.GOENV)
    if r.returncode != 0 or not os.path.exists(jp):
        raise RuntimeError('ssajson on /repo failed: ' + r.stdout + r.stderr)
    ov2 = os.path.join(d, 'overlay_build.json')
    json.dump({'Replace': {os.path.join(build.REPO, 'internal', 'zz_verif_helper', 'main.go'): os.path.join(build.VERIF, 'tools', 'vhelper', 'main.go')}},
              open(ov2, 'w'))
    r = subprocess.run(['go', 'build', '-overlay', ov2, '-o', hp, './internal/zz_verif_helper'], cwd=build.REPO, env=build.GOENV,
                       capture_output=True, text=True)
    if r.returncode != 0:
        raise RuntimeError('building the native helper failed: ' + r.stdout + r.stderr)
    open(os.path.join(d, 'DONE'), 'w').write('ok')
    return jp, hp


_PROG = {}


def repo_prog():
    jp, hp = lower_repo()
    if jp not in _PROG:
        p = Prog(jp)
        hard = [e for e in p.errors if not e.get('soft')]
        if hard:
            raise RuntimeError('/repo does not type-check: %s' % hard[:3])
        _PROG[jp] = p
    return _PROG[jp]


class HelperCrash(Exception):
    pass


def helper(mode, payload, timeout=600):
    jp, hp = lower_repo()
    try:
        r = subprocess.run([hp, mode], input=json.dumps(payload), capture_output=True, text=True, timeout=timeout)
    except subprocess.TimeoutExpired:
        raise HelperCrash('timeout after %ss' % timeout)
    if r.returncode != 0:
        raise HelperCrash('exit %s: %s' % (r.returncode, r.stderr[:400]))
    return [json.loads(l) for l in r.stdout.split('\n') if l.strip()]


def helper_each(mode, payload, texts, timeout=20):
    """run the helper on a batch; if the process dies (Go fatal error such as stack exhaustion cannot be recovered)
    or hangs, fall back to one process per text and record the crash for that text"""
    try:
        p = dict(payload)
        p['texts'] = texts
        return helper(mode, p, timeout=max(timeout, 2 * len(texts)))
    except HelperCrash:
        out = []
        for t in texts:
            p = dict(payload)
            p['texts'] = [t]
            try:
                out.extend(helper(mode, p, timeout=timeout))
            except HelperCrash as e:
                msg = str(e)
                kind = 'stack overflow' if 'stack overflow' in msg or 'goroutine stack exceeds' in msg else ('timeout' if 'timeout' in msg else 'fatal')
                out.append({'fatal': kind + ': ' + msg[:200], 'panic': 'fatal: ' + kind, 'format_panic': 'fatal: ' + kind, 'gens': [{'panic': 'fatal: ' + kind}]})
        return out


def native_dump(texts, via_file=False):
    """parse snapshots from the real lexer/parser; via_file: the text is read back through the repository's own file reader
    (parser.NewPacketDslParserByFile), the way the CLI gets it"""
    out = []
    for i in range(0, len(texts), 200):
        out.extend(helper_each('dump', {'via_file': True} if via_file else {}, texts[i:i + 200]))
    return out


def native_run(texts, orders=(), fmt=False, visit=True, content=False):
    out = []
    for i in range(0, len(texts), 100):
        out.extend(helper_each('run', {'orders': [list(o) for o in orders], 'format': fmt, 'visit': visit, 'content': content}, texts[i:i + 100]))
    return out


# ---------------------------------------------------------------------------- snapshot loading

class Snapshot:
    def __init__(self, prog, dump):
        self.p = prog
        self.objs = {o['id']: o for o in dump['objs'] or []}
        self.cells = {}
        self.tokens = []
        self.tree = None
        self.stream = None
        self.dump = dump

    def load(self):
        p = self.p
        tt = p.tid_of('*%s.PacketContext' % GRAMMAR)
        st = p.tid_of('*%s.CommonTokenStream' % ANTLR)
        if tt is None or st is None:
            raise Unsupported('parse tree types not in the SSA dump')
        self.tree = Iface(tt, self.conv(self.dump['tree'], tt))
        self.stream = self.conv(self.dump['stream'], st)
        END_COL[0] = 0
        for o in self.dump['objs'] or []:
            if o['type'].endswith('.InputStream'):
                for f in o['fields']:
                    if isinstance(f, dict) and 's' in f:
                        data = self.objs[f['s']].get('items') or []
                        last = max((i for i, ch in enumerate(data) if ch == 10), default=-1)
                        END_COL[0] = len(data) - (last + 1)
        return self

    def cell_for(self, oid, want_tid=None):
        c = self.cells.get(oid)
        if c is not None:
            return c
        o = self.objs[oid]
        p = self.p
        if o['type'].startswith('[]'):
            tid = p.tid_of(o['type'])
            if tid is None:
                raise Unsupported('slice type %s not in the SSA dump' % o['type'])
            et = p.under(tid)['elem']
            c = Cell([])
            self.cells[oid] = c
            c.v = [self.conv(x, et) for x in (o.get('items') or [])]
            return c
        tid = p.tid_of(o['type'])
        if tid is None:
            raise Unsupported('type %s not in the SSA dump' % o['type'])
        c = Cell(None, tag=o['type'])
        self.cells[oid] = c
        fields = p.under(tid)['fields']
        c.v = [self.conv(v, f['type']) for v, f in zip(o.get('fields') or [], fields)]
        if o['type'].endswith('.CommonToken'):
            self.tokens.append(c)
        return c

    def conv(self, v, tid):
        p = self.p
        if v is None:
            return p.zero(tid)
        if isinstance(v, bool):
            return v
        if isinstance(v, int):
            return v
        if 'str' in v:
            return go_str(v['str'])
        if 'p' in v:
            cell = self.cell_for(v['p'])
            otype = self.objs[v['p']]['type']
            u = p.under(tid)
            want = p.T[u['elem']]['str'] if u['kind'] == 'ptr' else None
            path = ()
            cur = p.tid_of(otype)
            n = 0
            while want is not None and p.T[cur]['str'] != want:
                fs = p.under(cur)['fields']
                if not fs or not fs[0].get('embedded'):
                    raise Unsupported('pointer of type %s to object of type %s' % (want, otype))
                path = path + (0,)
                cur = fs[0]['type']
                n += 1
                if n > 5:
                    raise Unsupported('embedded path too deep')
            return Ptr(cell, path)
        if 'i' in v:
            dyn = p.tid_of(v['i'])
            if dyn is None:
                raise Unsupported('dynamic type %s not in the SSA dump' % v['i'])
            return Iface(dyn, self.conv(v['v'], dyn))
        if 's' in v:
            cell = self.cell_for(v['s'])
            return Slice(cell, 0, v['len'], len(cell.v))
        if 'struct' in v:
            fields = p.under(tid)['fields']
            return [self.conv(x, f['type']) for x, f in zip(v['struct'], fields)]
        if 'stub' in v:
            t = p.tid_of(v['stub'])
            if t is None:
                return None
            return Ptr(Cell(p.zero(p.under(t)['elem']), tag='stub:' + v['stub']))
        if 'emptymap' in v:
            return GoMap()
        raise Unsupported('snapshot value %r' % (v,))


# BaseToken field indices (antlr4-go v4.13.0): source, tokenType, channel, start, stop, tokenIndex, line, column, text, readOnly
TOK_TYPE, TOK_CHANNEL, TOK_START, TOK_STOP, TOK_INDEX, TOK_LINE, TOK_COLUMN, TOK_TEXT = 1, 2, 3, 4, 5, 6, 7, 8


def token_fields(cell):
    return cell.v[0]


def check_layout(prog):
    t = prog.TS.get(ANTLR + '.BaseToken')
    if not t:
        raise Unsupported('BaseToken not in dump')
    names = [f['name'] for f in prog.under(t['id'])['fields']]
    if names[:9] != ['source', 'tokenType', 'channel', 'start', 'stop', 'tokenIndex', 'line', 'column', 'text']:
        raise RuntimeError('antlr BaseToken layout changed: %s' % names)


# ---------------------------------------------------------------------------- intrinsics for the repo's own code

B_INTR = {}


def bintr(*names):
    def d(f):
        for n in names:
            B_INTR[n] = f
        return f
    return d


@bintr('(*%s.BaseLexer).GetCharPositionInLine' % ANTLR, '(*%s.PacketDslLexer).GetCharPositionInLine' % GRAMMAR)
def _(M, a):
    # after lexing, the lexer stands at the end of the input: its column is the number of characters after the last line break
    # (that is the value the visitor stores as the column of every diagnostic); taken from the snapshot loaded last
    return END_COL[0]


END_COL = [0]


@bintr('time.Now')
def _(M, a):
    if M.env.get('sym_clock'):
        k = M.ctl.choose_free(2, 'clock#%d' % M.env.setdefault('clock_n', 0))
        M.env['clock_n'] += 1
        return ['time', (2026, 2031)[k]]
    return ['time', M.env.get('year', 2026)]


@bintr('(time.Time).Year')
def _(M, a):
    y = a[0][1] if isinstance(a[0], list) else M.env.get('year', 2026)
    return y


@bintr(PARSER + '.RenderToString')
def _render(M, a):
    tmpl, lang, data = a
    out = []
    pos = 0
    for m in re.finditer(r'\{\{\s*((?:\.\w+)+)\s*\}\}', tmpl):
        out.append(tmpl[pos:m.start()])
        v = data
        for name in m.group(1).strip('.').split('.'):
            v = tmpl_field(M, v, name)
        s = gointr.fmt_value(M, v)
        out.append(html_escape(s))
        pos = m.end()
    rest = tmpl[pos:]
    for piece in [rest] + out[::2]:
        k = piece.find('{{')
        if k >= 0:
            if '}}' not in piece[k:]:
                # template.Must(Parse(...)): a malformed template is a panic of the compiler, not an error value
                raise GoPanic('panic', 'template: %s: unclosed action' % to_pystr(lang), '')
            raise Unsupported('template action outside the modelled subset')
    out.append(rest)
    return (''.join(out), None)


def tmpl_field(M, v, name):
    if isinstance(v, Iface):
        inner = v.v
        u = M.p.under(v.t)
        if u['kind'] == 'map':
            e = inner.get(name) if inner is not None else None
            if e is None:
                raise Unsupported('template: missing key ' + name)
            return e[1]
        if u['kind'] == 'struct':
            for f, x in zip(u['fields'], inner):
                if f['name'] == name:
                    return Iface(f['type'], x)
            raise Unsupported('template: no field ' + name)
        if u['kind'] == 'ptr':
            return tmpl_field(M, Iface(u['elem'], M.load(inner)), name)
    raise Unsupported('template: field %s of %r' % (name, v))


def html_escape(s):
    return s.replace('&', '&amp;').replace('<', '&lt;').replace('>', '&gt;').replace('"', '&#34;').replace("'", '&#39;')


def make_machine(ctl=None, fuel=6_000_000):
    prog = repo_prog()
    M = Machine(prog, ctl or PathCtl(), fuel=fuel)
    gointr.install(M)
    M.intr.update(B_INTR)
    M.run_init(MODEL)
    M.run_init(PARSER)
    return M


def to_pystr(v):
    return v.encode('latin-1').decode('utf-8', 'replace') if isinstance(v, str) else v


def filemap_to_py(M, m):
    """map[string][]byte -> {name: bytes}"""
    out = {}
    if m is None:
        return out
    for k, v in m.d.values():
        data = bytes(v.items()) if v is not None else b''
        out[to_pystr(k)] = data
    return out
