// Reference implementation of MessageFactory / REGISTER_MESSAGE for the emitted C++.
#pragma once
#include <functional>
#include <map>
#include <memory>
#include <stdexcept>
#include <string>

template <typename K, typename B, typename Tag>
class MessageFactory {
 public:
  static MessageFactory& getInstance() { static MessageFactory f; return f; }
  void registerType(const K& k, std::function<std::unique_ptr<B>()> mk) { if (!table_.count(k)) table_[k] = mk; }
  std::unique_ptr<B> create(const K& k) const {
    auto it = table_.find(k);
    if (it == table_.end()) throw std::invalid_argument("MessageFactory: unknown key");
    return it->second();
  }
 private:
  std::map<K, std::function<std::unique_ptr<B>()>> table_;
};

// one registration; the same type may be registered under several keys
template <typename F, typename T>
struct MessageRegistrar {
  template <typename K>
  explicit MessageRegistrar(const K& k) { F::getInstance().registerType(k, []() { return std::unique_ptr<T>(new T()); }); }
};
#define FP_CAT2(a, b) a##b
#define FP_CAT(a, b) FP_CAT2(a, b)
#define REGISTER_MESSAGE(F, KEY, T) static const MessageRegistrar<F, T> FP_CAT(fp_registrar_, __COUNTER__)(KEY)
