// Reference implementation of namespace codec for the emitted C++ (runtimes/CONTRACT.md).
#pragma once
#include <cstdint>
#include <sstream>
#include <stdexcept>
#include <string>
#include <vector>
#include "include/bytebuf.hpp"

namespace codec {

struct BinaryCodec {
  virtual ~BinaryCodec() = default;
  virtual void encode(ByteBuf& buf) const = 0;
  virtual void decode(ByteBuf& buf) = 0;
  virtual bool equals(const BinaryCodec& other) const = 0;
  virtual std::string toString() const = 0;
};

inline bool operator==(const BinaryCodec& a, const BinaryCodec& b) { return a.equals(b); }

template <typename T> struct io;
#define FP_IO(T, NAME)                                                      \
  template <> struct io<T> {                                                \
    static void put(ByteBuf& b, T v, bool le) { if (le) b.write_##NAME##_le(v); else b.write_##NAME(v); } \
    static T get(ByteBuf& b, bool le) { return le ? b.read_##NAME##_le() : b.read_##NAME(); }            \
  };
FP_IO(uint8_t, u8) FP_IO(int8_t, i8) FP_IO(uint16_t, u16) FP_IO(int16_t, i16) FP_IO(uint32_t, u32)
FP_IO(int32_t, i32) FP_IO(uint64_t, u64) FP_IO(int64_t, i64) FP_IO(float, f32) FP_IO(double, f64)
#undef FP_IO

template <typename L> inline void put_len(ByteBuf& b, size_t n, bool le) { io<L>::put(b, static_cast<L>(n), le); }
template <typename L> inline size_t get_len(ByteBuf& b, bool le) { return static_cast<size_t>(io<L>::get(b, le)); }

template <typename L> inline void write_str(ByteBuf& b, const std::string& s, bool le) {
  put_len<L>(b, s.size(), le);
  b.write_bytes(reinterpret_cast<const uint8_t*>(s.data()), s.size());
}
template <typename L> inline std::string read_str(ByteBuf& b, bool le) {
  size_t n = get_len<L>(b, le);
  std::string s(n, '\0');
  b.read_bytes(reinterpret_cast<uint8_t*>(&s[0]), n);
  return s;
}
template <typename L> inline void write_string(ByteBuf& b, const std::string& s) { write_str<L>(b, s, false); }
template <typename L> inline void write_string_le(ByteBuf& b, const std::string& s) { write_str<L>(b, s, true); }
template <typename L> inline std::string read_string(ByteBuf& b) { return read_str<L>(b, false); }
template <typename L> inline std::string read_string_le(ByteBuf& b) { return read_str<L>(b, true); }

inline void write_fixed_string(ByteBuf& b, const std::string& s, size_t n, char pad = ' ', bool left = false) {
  if (s.size() > n) throw std::invalid_argument("string longer than fixed size");
  std::string p(n - s.size(), pad);
  std::string out = left ? p + s : s + p;
  b.write_bytes(reinterpret_cast<const uint8_t*>(out.data()), out.size());
}
inline std::string read_fixed_string(ByteBuf& b, size_t n, char pad = ' ', bool left = false) {
  std::string s(n, '\0');
  b.read_bytes(reinterpret_cast<uint8_t*>(&s[0]), n);
  size_t i = 0, j = n;
  if (left) { while (i < j && s[i] == pad) i++; } else { while (j > i && s[j - 1] == pad) j--; }
  return s.substr(i, j - i);
}

#define FP_LIST2(NAME, LE)                                                                               \
  template <typename L, typename T> inline void write_basic_type##NAME(ByteBuf& b, const std::vector<T>& v) { \
    put_len<L>(b, v.size(), LE); for (const auto& x : v) io<T>::put(b, x, LE); }                          \
  template <typename L, typename T> inline std::vector<T> read_basic_type##NAME(ByteBuf& b) {            \
    size_t n = get_len<L>(b, LE); std::vector<T> v; for (size_t i = 0; i < n; i++) v.push_back(io<T>::get(b, LE)); return v; } \
  template <typename L, typename S> inline void write_string_list##NAME(ByteBuf& b, const std::vector<std::string>& v) { \
    put_len<L>(b, v.size(), LE); for (const auto& x : v) write_str<S>(b, x, LE); }                        \
  template <typename L, typename S> inline std::vector<std::string> read_string_list##NAME(ByteBuf& b) { \
    size_t n = get_len<L>(b, LE); std::vector<std::string> v; for (size_t i = 0; i < n; i++) v.push_back(read_str<S>(b, LE)); return v; } \
  template <typename L> inline void write_fixed_string_list##NAME(ByteBuf& b, const std::vector<std::string>& v, size_t n, char pad = ' ', bool left = false) { \
    put_len<L>(b, v.size(), LE); for (const auto& x : v) write_fixed_string(b, x, n, pad, left); }        \
  template <typename L> inline std::vector<std::string> read_fixed_string_list##NAME(ByteBuf& b, size_t n, char pad = ' ', bool left = false) { \
    size_t k = get_len<L>(b, LE); std::vector<std::string> v; for (size_t i = 0; i < k; i++) v.push_back(read_fixed_string(b, n, pad, left)); return v; } \
  template <typename L, typename T> inline void write_object_List##NAME(ByteBuf& b, const std::vector<T>& v) { \
    put_len<L>(b, v.size(), LE); for (const auto& x : v) x.encode(b); }                                   \
  template <typename L, typename T> inline std::vector<T> read_object_List##NAME(ByteBuf& b) {            \
    size_t n = get_len<L>(b, LE); std::vector<T> v; for (size_t i = 0; i < n; i++) { T x; x.decode(b); v.push_back(std::move(x)); } return v; }
FP_LIST2(, false)
FP_LIST2(_le, true)
#undef FP_LIST2

template <typename T> inline std::string join_vector(const std::vector<T>& v) {
  std::ostringstream oss;
  oss << "[";
  for (size_t i = 0; i < v.size(); i++) { if (i) oss << ", "; oss << v[i]; }
  oss << "]";
  return oss.str();
}
template <> inline std::string join_vector<uint8_t>(const std::vector<uint8_t>& v) {
  std::ostringstream oss; oss << "["; for (size_t i = 0; i < v.size(); i++) { if (i) oss << ", "; oss << static_cast<int>(v[i]); } oss << "]"; return oss.str();
}
template <> inline std::string join_vector<int8_t>(const std::vector<int8_t>& v) {
  std::ostringstream oss; oss << "["; for (size_t i = 0; i < v.size(); i++) { if (i) oss << ", "; oss << static_cast<int>(v[i]); } oss << "]"; return oss.str();
}

}  // namespace codec
