// Reference implementation of the ByteBuf the emitted C++ is compiled against
// (see /verif/runtimes/CONTRACT.md).
#pragma once
#include <cstdint>
#include <cstring>
#include <stdexcept>
#include <string>
#include <vector>

class ByteBuf {
 public:
  ByteBuf() = default;
  explicit ByteBuf(const std::vector<uint8_t>& d) : data_(d) {}

  size_t writer_index() const { return data_.size(); }
  size_t reader_index() const { return r_; }
  size_t readable_bytes() const { return data_.size() - r_; }
  const std::vector<uint8_t>& data() const { return data_; }

  void write_bytes(const uint8_t* p, size_t n) { data_.insert(data_.end(), p, p + n); }
  void read_bytes(uint8_t* p, size_t n) {
    if (r_ + n > data_.size()) throw std::out_of_range("ByteBuf: read past end");
    std::memcpy(p, data_.data() + r_, n);
    r_ += n;
  }

#define FP_SCALAR(NAME, T, U, N)                                                        \
  void write_##NAME(T v) { put<U>(as_bits<T, U>(v), N, false); }                        \
  void write_##NAME##_le(T v) { put<U>(as_bits<T, U>(v), N, true); }                    \
  void write_##NAME##_at(size_t pos, T v) { put_at<U>(pos, as_bits<T, U>(v), N, false); } \
  void write_##NAME##_le_at(size_t pos, T v) { put_at<U>(pos, as_bits<T, U>(v), N, true); } \
  T read_##NAME() { return from_bits<T, U>(get<U>(N, false)); }                         \
  T read_##NAME##_le() { return from_bits<T, U>(get<U>(N, true)); }
  FP_SCALAR(u8, uint8_t, uint8_t, 1)
  FP_SCALAR(i8, int8_t, uint8_t, 1)
  FP_SCALAR(u16, uint16_t, uint16_t, 2)
  FP_SCALAR(i16, int16_t, uint16_t, 2)
  FP_SCALAR(u32, uint32_t, uint32_t, 4)
  FP_SCALAR(i32, int32_t, uint32_t, 4)
  FP_SCALAR(u64, uint64_t, uint64_t, 8)
  FP_SCALAR(i64, int64_t, uint64_t, 8)
  FP_SCALAR(f32, float, uint32_t, 4)
  FP_SCALAR(f64, double, uint64_t, 8)
#undef FP_SCALAR

 private:
  template <typename T, typename U>
  static U as_bits(T v) {
    U u;
    static_assert(sizeof(T) == sizeof(U), "size");
    std::memcpy(&u, &v, sizeof(U));
    return u;
  }
  template <typename T, typename U>
  static T from_bits(U u) {
    T v;
    std::memcpy(&v, &u, sizeof(U));
    return v;
  }
  template <typename U>
  void put(U v, int n, bool le) {
    size_t pos = data_.size();
    data_.resize(pos + n);
    store<U>(pos, v, n, le);
  }
  template <typename U>
  void put_at(size_t pos, U v, int n, bool le) {
    if (pos + n > data_.size()) throw std::out_of_range("ByteBuf: write_at past end");
    store<U>(pos, v, n, le);
  }
  template <typename U>
  void store(size_t pos, U v, int n, bool le) {
    for (int i = 0; i < n; i++) {
      int sh = le ? 8 * i : 8 * (n - 1 - i);
      data_[pos + i] = static_cast<uint8_t>(static_cast<uint64_t>(v) >> sh);
    }
  }
  template <typename U>
  U get(int n, bool le) {
    if (r_ + n > data_.size()) throw std::out_of_range("ByteBuf: read past end");
    uint64_t v = 0;
    for (int i = 0; i < n; i++) {
      int sh = le ? 8 * i : 8 * (n - 1 - i);
      v |= static_cast<uint64_t>(data_[r_ + i]) << sh;
    }
    r_ += n;
    return static_cast<U>(v);
  }
  std::vector<uint8_t> data_;
  size_t r_ = 0;
};
