// Reference implementation of the checksum service registry for the emitted C++.
#pragma once
#include <map>
#include <memory>
#include <string>
#include <typeindex>
#include <utility>

template <typename B, typename T>
struct ChecksumService {
  virtual ~ChecksumService() = default;
  virtual T calc(const B& buf) = 0;
};

class ChecksumServiceContext {
 public:
  static ChecksumServiceContext& instance() { static ChecksumServiceContext c; return c; }
  template <typename B, typename T>
  ChecksumService<B, T>* get(const std::string& name) {
    auto it = services_.find(std::make_pair(name, std::type_index(typeid(ChecksumService<B, T>))));
    if (it == services_.end()) return nullptr;
    return static_cast<ChecksumService<B, T>*>(it->second.get());
  }
  template <typename B, typename T>
  void add(const std::string& name, std::shared_ptr<ChecksumService<B, T>> s) {
    services_[std::make_pair(name, std::type_index(typeid(ChecksumService<B, T>)))] = s;
  }
  void clear() { services_.clear(); }
 private:
  std::map<std::pair<std::string, std::type_index>, std::shared_ptr<void>> services_;
};
