//! Reference implementation of the `binary_codec` crate API the Rust code emitted by
//! fin-protoc is compiled against (see /verif/runtimes/CONTRACT.md).
use bytes::{Buf, BufMut, Bytes, BytesMut};
use std::collections::HashMap;
use std::sync::{Arc, RwLock};

pub trait BinaryCodec: Sized {
    fn encode(&self, buf: &mut BytesMut);
    fn decode(buf: &mut Bytes) -> Option<Self>;
}

/// length-prefix types
pub trait LenPrefix: Copy {
    const SIZE: usize;
    fn put(buf: &mut BytesMut, n: usize, le: bool);
    fn get(buf: &mut Bytes, le: bool) -> Option<usize>;
}

/// scalar element types of lists
pub trait Scalar: Copy {
    const SIZE: usize;
    fn put(self, buf: &mut BytesMut, le: bool);
    fn get(buf: &mut Bytes, le: bool) -> Option<Self>;
}

macro_rules! scalar {
    ($t:ty, $p:ident, $ple:ident, $g:ident, $gle:ident, $sz:expr) => {
        impl Scalar for $t {
            const SIZE: usize = $sz;
            fn put(self, buf: &mut BytesMut, le: bool) {
                if le { buf.$ple(self) } else { buf.$p(self) }
            }
            fn get(buf: &mut Bytes, le: bool) -> Option<Self> {
                if buf.remaining() < $sz { return None; }
                Some(if le { buf.$gle() } else { buf.$g() })
            }
        }
    };
}
scalar!(u8, put_u8, put_u8, get_u8, get_u8, 1);
scalar!(i8, put_i8, put_i8, get_i8, get_i8, 1);
scalar!(u16, put_u16, put_u16_le, get_u16, get_u16_le, 2);
scalar!(i16, put_i16, put_i16_le, get_i16, get_i16_le, 2);
scalar!(u32, put_u32, put_u32_le, get_u32, get_u32_le, 4);
scalar!(i32, put_i32, put_i32_le, get_i32, get_i32_le, 4);
scalar!(u64, put_u64, put_u64_le, get_u64, get_u64_le, 8);
scalar!(i64, put_i64, put_i64_le, get_i64, get_i64_le, 8);
scalar!(f32, put_f32, put_f32_le, get_f32, get_f32_le, 4);
scalar!(f64, put_f64, put_f64_le, get_f64, get_f64_le, 8);

macro_rules! lenprefix {
    ($t:ty, $sz:expr) => {
        impl LenPrefix for $t {
            const SIZE: usize = $sz;
            fn put(buf: &mut BytesMut, n: usize, le: bool) { <$t as Scalar>::put(n as $t, buf, le) }
            fn get(buf: &mut Bytes, le: bool) -> Option<usize> { <$t as Scalar>::get(buf, le).map(|v| v as usize) }
        }
    };
}
lenprefix!(u8, 1);
lenprefix!(u16, 2);
lenprefix!(u32, 4);
lenprefix!(u64, 8);

pub fn put_char(buf: &mut BytesMut, c: char) { buf.put_u8(c as u8); }
pub fn get_char(buf: &mut Bytes) -> Option<char> {
    if buf.remaining() < 1 { return None; }
    Some(buf.get_u8() as char)
}

fn put_str<L: LenPrefix>(buf: &mut BytesMut, s: &str, le: bool) {
    L::put(buf, s.len(), le);
    buf.put_slice(s.as_bytes());
}
fn get_str<L: LenPrefix>(buf: &mut Bytes, le: bool) -> Option<String> {
    let n = L::get(buf, le)?;
    if buf.remaining() < n { return None; }
    String::from_utf8(buf.copy_to_bytes(n).to_vec()).ok()
}
pub fn put_string<L: LenPrefix>(buf: &mut BytesMut, s: &String) { put_str::<L>(buf, s, false) }
pub fn put_string_le<L: LenPrefix>(buf: &mut BytesMut, s: &String) { put_str::<L>(buf, s, true) }
pub fn get_string<L: LenPrefix>(buf: &mut Bytes) -> Option<String> { get_str::<L>(buf, false) }
pub fn get_string_le<L: LenPrefix>(buf: &mut Bytes) -> Option<String> { get_str::<L>(buf, true) }

pub fn put_char_array_with_pad_char(buf: &mut BytesMut, s: &String, n: usize, pad: char, left: bool) {
    let b = s.as_bytes();
    assert!(b.len() <= n, "string longer than fixed size");
    if left { for _ in b.len()..n { buf.put_u8(pad as u8); } }
    buf.put_slice(b);
    if !left { for _ in b.len()..n { buf.put_u8(pad as u8); } }
}
pub fn put_char_array(buf: &mut BytesMut, s: &String, n: usize) { put_char_array_with_pad_char(buf, s, n, ' ', false) }
pub fn get_char_array_trim_pad_char(buf: &mut Bytes, n: usize, pad: char, left: bool) -> Option<String> {
    if buf.remaining() < n { return None; }
    let v = buf.copy_to_bytes(n).to_vec();
    let (mut i, mut j) = (0usize, v.len());
    if left { while i < j && v[i] == pad as u8 { i += 1; } } else { while j > i && v[j - 1] == pad as u8 { j -= 1; } }
    String::from_utf8(v[i..j].to_vec()).ok()
}
pub fn get_char_array(buf: &mut Bytes, n: usize) -> Option<String> { get_char_array_trim_pad_char(buf, n, ' ', false) }

fn put_vec<T, L: LenPrefix>(buf: &mut BytesMut, v: &Vec<T>, le: bool, mut elt: impl FnMut(&mut BytesMut, &T)) {
    L::put(buf, v.len(), le);
    for x in v { elt(buf, x); }
}
fn get_vec<T, L: LenPrefix>(buf: &mut Bytes, le: bool, mut elt: impl FnMut(&mut Bytes) -> Option<T>) -> Option<Vec<T>> {
    let n = L::get(buf, le)?;
    let mut out = Vec::new();
    for _ in 0..n { out.push(elt(buf)?); }
    Some(out)
}
pub fn put_list<T: Scalar, L: LenPrefix>(buf: &mut BytesMut, v: &Vec<T>) { put_vec::<T, L>(buf, v, false, |b, x| x.put(b, false)) }
pub fn put_list_le<T: Scalar, L: LenPrefix>(buf: &mut BytesMut, v: &Vec<T>) { put_vec::<T, L>(buf, v, true, |b, x| x.put(b, true)) }
pub fn get_list<T: Scalar, L: LenPrefix>(buf: &mut Bytes) -> Option<Vec<T>> { get_vec::<T, L>(buf, false, |b| T::get(b, false)) }
pub fn get_list_le<T: Scalar, L: LenPrefix>(buf: &mut Bytes) -> Option<Vec<T>> { get_vec::<T, L>(buf, true, |b| T::get(b, true)) }
pub fn put_char_list<L: LenPrefix>(buf: &mut BytesMut, v: &Vec<char>) { put_vec::<char, L>(buf, v, false, |b, x| put_char(b, *x)) }
pub fn get_char_list<L: LenPrefix>(buf: &mut Bytes) -> Option<Vec<char>> { get_vec::<char, L>(buf, false, |b| get_char(b)) }
pub fn put_string_list<L: LenPrefix, S: LenPrefix>(buf: &mut BytesMut, v: &Vec<String>) { put_vec::<String, L>(buf, v, false, |b, x| put_str::<S>(b, x, false)) }
pub fn put_string_list_le<L: LenPrefix, S: LenPrefix>(buf: &mut BytesMut, v: &Vec<String>) { put_vec::<String, L>(buf, v, true, |b, x| put_str::<S>(b, x, true)) }
pub fn get_string_list<L: LenPrefix, S: LenPrefix>(buf: &mut Bytes) -> Option<Vec<String>> { get_vec::<String, L>(buf, false, |b| get_str::<S>(b, false)) }
pub fn get_string_list_le<L: LenPrefix, S: LenPrefix>(buf: &mut Bytes) -> Option<Vec<String>> { get_vec::<String, L>(buf, true, |b| get_str::<S>(b, true)) }
pub fn put_fixed_string_list_with_pad_char<L: LenPrefix>(buf: &mut BytesMut, v: &Vec<String>, n: usize, pad: char, left: bool) { put_vec::<String, L>(buf, v, false, |b, x| put_char_array_with_pad_char(b, x, n, pad, left)) }
pub fn put_fixed_string_list_with_pad_char_le<L: LenPrefix>(buf: &mut BytesMut, v: &Vec<String>, n: usize, pad: char, left: bool) { put_vec::<String, L>(buf, v, true, |b, x| put_char_array_with_pad_char(b, x, n, pad, left)) }
pub fn put_fixed_string_list<L: LenPrefix>(buf: &mut BytesMut, v: &Vec<String>, n: usize) { put_fixed_string_list_with_pad_char::<L>(buf, v, n, ' ', false) }
pub fn put_fixed_string_list_le<L: LenPrefix>(buf: &mut BytesMut, v: &Vec<String>, n: usize) { put_fixed_string_list_with_pad_char_le::<L>(buf, v, n, ' ', false) }
pub fn get_fixed_string_list_trim_pad_char<L: LenPrefix>(buf: &mut Bytes, n: usize, pad: char, left: bool) -> Option<Vec<String>> { get_vec::<String, L>(buf, false, |b| get_char_array_trim_pad_char(b, n, pad, left)) }
pub fn get_fixed_string_list_trim_pad_char_le<L: LenPrefix>(buf: &mut Bytes, n: usize, pad: char, left: bool) -> Option<Vec<String>> { get_vec::<String, L>(buf, true, |b| get_char_array_trim_pad_char(b, n, pad, left)) }
pub fn get_fixed_string_list<L: LenPrefix>(buf: &mut Bytes, n: usize) -> Option<Vec<String>> { get_fixed_string_list_trim_pad_char::<L>(buf, n, ' ', false) }
pub fn get_fixed_string_list_le<L: LenPrefix>(buf: &mut Bytes, n: usize) -> Option<Vec<String>> { get_fixed_string_list_trim_pad_char_le::<L>(buf, n, ' ', false) }
pub fn put_object_list<T: BinaryCodec, L: LenPrefix>(buf: &mut BytesMut, v: &Vec<T>) { put_vec::<T, L>(buf, v, false, |b, x| x.encode(b)) }
pub fn put_object_list_le<T: BinaryCodec, L: LenPrefix>(buf: &mut BytesMut, v: &Vec<T>) { put_vec::<T, L>(buf, v, true, |b, x| x.encode(b)) }
pub fn get_object_list<T: BinaryCodec, L: LenPrefix>(buf: &mut Bytes) -> Option<Vec<T>> { get_vec::<T, L>(buf, false, |b| T::decode(b)) }
pub fn get_object_list_le<T: BinaryCodec, L: LenPrefix>(buf: &mut Bytes) -> Option<Vec<T>> { get_vec::<T, L>(buf, true, |b| T::decode(b)) }

#[derive(Debug, Clone, Copy, PartialEq)]
pub enum Checksum { U8(u8), U16(u16), U32(u32), U64(u64), I8(i8), I16(i16), I32(i32), I64(i64) }

pub trait ChecksumService: Send + Sync {
    fn calc(&self, buf: &BytesMut) -> Checksum;
}

pub struct ChecksumServiceContext {
    services: RwLock<Option<HashMap<String, Arc<dyn ChecksumService>>>>,
}
impl ChecksumServiceContext {
    pub const fn new() -> Self { ChecksumServiceContext { services: RwLock::new(None) } }
    pub fn register(&self, name: &str, s: Arc<dyn ChecksumService>) {
        let mut g = self.services.write().unwrap();
        g.get_or_insert_with(HashMap::new).insert(name.to_string(), s);
    }
    pub fn unregister(&self, name: &str) {
        if let Some(m) = self.services.write().unwrap().as_mut() { m.remove(name); }
    }
    pub fn get(&self, name: &str) -> Option<Arc<dyn ChecksumService>> {
        self.services.read().unwrap().as_ref().and_then(|m| m.get(name).cloned())
    }
}
pub static CHECKSUM_SERVICE_CONTEXT: ChecksumServiceContext = ChecksumServiceContext::new();
