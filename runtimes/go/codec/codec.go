// Package codec is the reference implementation of the runtime contract the Go code
// emitted by fin-protoc is compiled against (see /verif/runtimes/CONTRACT.md).  It is
// used to type-check emitted packages and to replay counterexamples natively; the
// symbolic executor models the same operations as intrinsics.
package codec

import (
	"bytes"
	"encoding/binary"
	"errors"
	"math"
	"strings"
	"sync"
)

// BinaryCodec is implemented by every emitted packet type.
type BinaryCodec interface {
	Encode(buf *bytes.Buffer) error
	Decode(buf *bytes.Buffer) error
}

// Number is the set of scalar wire types.
type Number interface {
	~int8 | ~int16 | ~int32 | ~int64 | ~uint8 | ~uint16 | ~uint32 | ~uint64 | ~float32 | ~float64
}

// Unsigned is the set of length-prefix types.
type Unsigned interface {
	~uint8 | ~uint16 | ~uint32 | ~uint64
}

// ChecksumService computes a checksum over the bytes written so far.
type ChecksumService[B any, T any] interface {
	Calc(buf B) T
}

var registry sync.Map

// Register makes a service available under a name.
func Register(name string, svc any) { registry.Store(name, svc) }

// Unregister removes a service.
func Unregister(name string) { registry.Delete(name) }

// Get looks a service up.
func Get(name string) (any, bool) { return registry.Load(name) }

var errShort = errors.New("codec: short buffer")

func sizeOf[T Number]() int {
	var z T
	switch any(z).(type) {
	case int8, uint8:
		return 1
	case int16, uint16:
		return 2
	case int32, uint32, float32:
		return 4
	default:
		return 8
	}
}

func bitsOf[T Number](v T) uint64 {
	switch x := any(v).(type) {
	case int8:
		return uint64(uint8(x))
	case uint8:
		return uint64(x)
	case int16:
		return uint64(uint16(x))
	case uint16:
		return uint64(x)
	case int32:
		return uint64(uint32(x))
	case uint32:
		return uint64(x)
	case int64:
		return uint64(x)
	case uint64:
		return x
	case float32:
		return uint64(math.Float32bits(x))
	case float64:
		return math.Float64bits(x)
	}
	return 0
}

func fromBits[T Number](u uint64) T {
	var z T
	switch any(z).(type) {
	case int8:
		return any(int8(u)).(T)
	case uint8:
		return any(uint8(u)).(T)
	case int16:
		return any(int16(u)).(T)
	case uint16:
		return any(uint16(u)).(T)
	case int32:
		return any(int32(u)).(T)
	case uint32:
		return any(uint32(u)).(T)
	case int64:
		return any(int64(u)).(T)
	case uint64:
		return any(u).(T)
	case float32:
		return any(math.Float32frombits(uint32(u))).(T)
	case float64:
		return any(math.Float64frombits(u)).(T)
	}
	return z
}

func put[T Number](buf *bytes.Buffer, v T, order binary.ByteOrder) error {
	var tmp [8]byte
	n := sizeOf[T]()
	u := bitsOf(v)
	switch n {
	case 1:
		tmp[0] = byte(u)
	case 2:
		order.PutUint16(tmp[:], uint16(u))
	case 4:
		order.PutUint32(tmp[:], uint32(u))
	default:
		order.PutUint64(tmp[:], u)
	}
	buf.Write(tmp[:n])
	return nil
}

func get[T Number](buf *bytes.Buffer, order binary.ByteOrder) (T, error) {
	var z T
	n := sizeOf[T]()
	if buf.Len() < n {
		return z, errShort
	}
	b := buf.Next(n)
	var u uint64
	switch n {
	case 1:
		u = uint64(b[0])
	case 2:
		u = uint64(order.Uint16(b))
	case 4:
		u = uint64(order.Uint32(b))
	default:
		u = order.Uint64(b)
	}
	return fromBits[T](u), nil
}

func WriteBasicType[T Number](buf *bytes.Buffer, v T) error   { return put(buf, v, binary.BigEndian) }
func WriteBasicTypeLE[T Number](buf *bytes.Buffer, v T) error { return put(buf, v, binary.LittleEndian) }
func ReadBasicType[T Number](buf *bytes.Buffer) (T, error)    { return get[T](buf, binary.BigEndian) }
func ReadBasicTypeLE[T Number](buf *bytes.Buffer) (T, error)  { return get[T](buf, binary.LittleEndian) }

func putLen[L Unsigned](buf *bytes.Buffer, n int, order binary.ByteOrder) error {
	return put(buf, L(n), order)
}

func getLen[L Unsigned](buf *bytes.Buffer, order binary.ByteOrder) (int, error) {
	v, err := get[L](buf, order)
	return int(v), err
}

func writeString[L Unsigned](buf *bytes.Buffer, s string, order binary.ByteOrder) error {
	if err := putLen[L](buf, len(s), order); err != nil {
		return err
	}
	buf.WriteString(s)
	return nil
}

func readString[L Unsigned](buf *bytes.Buffer, order binary.ByteOrder) (string, error) {
	n, err := getLen[L](buf, order)
	if err != nil {
		return "", err
	}
	if buf.Len() < n {
		return "", errShort
	}
	return string(buf.Next(n)), nil
}

func WriteString[L Unsigned](buf *bytes.Buffer, s string) error {
	return writeString[L](buf, s, binary.BigEndian)
}
func WriteStringLE[L Unsigned](buf *bytes.Buffer, s string) error {
	return writeString[L](buf, s, binary.LittleEndian)
}
func ReadString[L Unsigned](buf *bytes.Buffer) (string, error) {
	return readString[L](buf, binary.BigEndian)
}
func ReadStringLE[L Unsigned](buf *bytes.Buffer) (string, error) {
	return readString[L](buf, binary.LittleEndian)
}

// WriteFixedStringWithPadding writes exactly n bytes.
func WriteFixedStringWithPadding(buf *bytes.Buffer, s string, n int, pad byte, left bool) error {
	if len(s) > n {
		return errors.New("codec: string longer than fixed size")
	}
	p := strings.Repeat(string([]byte{pad}), n-len(s))
	if left {
		buf.WriteString(p)
		buf.WriteString(s)
	} else {
		buf.WriteString(s)
		buf.WriteString(p)
	}
	return nil
}

func WriteFixedString(buf *bytes.Buffer, s string, n int) error {
	return WriteFixedStringWithPadding(buf, s, n, ' ', false)
}

// ReadFixedStringTrimPadding reads n bytes and trims pad on the padded side.
func ReadFixedStringTrimPadding(buf *bytes.Buffer, n int, pad byte, left bool) (string, error) {
	if buf.Len() < n {
		return "", errShort
	}
	b := buf.Next(n)
	i, j := 0, len(b)
	if left {
		for i < j && b[i] == pad {
			i++
		}
	} else {
		for j > i && b[j-1] == pad {
			j--
		}
	}
	return string(b[i:j]), nil
}

func ReadFixedString(buf *bytes.Buffer, n int) (string, error) {
	return ReadFixedStringTrimPadding(buf, n, ' ', false)
}

func writeList[L Unsigned, T any](buf *bytes.Buffer, v []T, order binary.ByteOrder, elt func(T) error) error {
	if err := putLen[L](buf, len(v), order); err != nil {
		return err
	}
	for _, x := range v {
		if err := elt(x); err != nil {
			return err
		}
	}
	return nil
}

func readList[L Unsigned, T any](buf *bytes.Buffer, order binary.ByteOrder, elt func() (T, error)) ([]T, error) {
	n, err := getLen[L](buf, order)
	if err != nil {
		return nil, err
	}
	var out []T
	for i := 0; i < n; i++ {
		x, err := elt()
		if err != nil {
			return nil, err
		}
		out = append(out, x)
	}
	return out, nil
}

func WriteBasicTypeList[L Unsigned, T Number](buf *bytes.Buffer, v []T) error {
	return writeList[L](buf, v, binary.BigEndian, func(x T) error { return WriteBasicType(buf, x) })
}
func WriteBasicTypeListLE[L Unsigned, T Number](buf *bytes.Buffer, v []T) error {
	return writeList[L](buf, v, binary.LittleEndian, func(x T) error { return WriteBasicTypeLE(buf, x) })
}
func ReadBasicTypeList[L Unsigned, T Number](buf *bytes.Buffer) ([]T, error) {
	return readList[L](buf, binary.BigEndian, func() (T, error) { return ReadBasicType[T](buf) })
}
func ReadBasicTypeListLE[L Unsigned, T Number](buf *bytes.Buffer) ([]T, error) {
	return readList[L](buf, binary.LittleEndian, func() (T, error) { return ReadBasicTypeLE[T](buf) })
}

func WriteStringList[L Unsigned, S Unsigned](buf *bytes.Buffer, v []string) error {
	return writeList[L](buf, v, binary.BigEndian, func(x string) error { return WriteString[S](buf, x) })
}
func WriteStringListLE[L Unsigned, S Unsigned](buf *bytes.Buffer, v []string) error {
	return writeList[L](buf, v, binary.LittleEndian, func(x string) error { return WriteStringLE[S](buf, x) })
}
func ReadStringList[L Unsigned, S Unsigned](buf *bytes.Buffer) ([]string, error) {
	return readList[L](buf, binary.BigEndian, func() (string, error) { return ReadString[S](buf) })
}
func ReadStringListLE[L Unsigned, S Unsigned](buf *bytes.Buffer) ([]string, error) {
	return readList[L](buf, binary.LittleEndian, func() (string, error) { return ReadStringLE[S](buf) })
}

func WriteFixedStringListWithPadding[L Unsigned](buf *bytes.Buffer, v []string, n int, pad byte, left bool) error {
	return writeList[L](buf, v, binary.BigEndian, func(x string) error { return WriteFixedStringWithPadding(buf, x, n, pad, left) })
}
func WriteFixedStringListWithPaddingLE[L Unsigned](buf *bytes.Buffer, v []string, n int, pad byte, left bool) error {
	return writeList[L](buf, v, binary.LittleEndian, func(x string) error { return WriteFixedStringWithPadding(buf, x, n, pad, left) })
}
func WriteFixedStringList[L Unsigned](buf *bytes.Buffer, v []string, n int) error {
	return WriteFixedStringListWithPadding[L](buf, v, n, ' ', false)
}
func WriteFixedStringListLE[L Unsigned](buf *bytes.Buffer, v []string, n int) error {
	return WriteFixedStringListWithPaddingLE[L](buf, v, n, ' ', false)
}
func ReadFixedStringListTrimPadding[L Unsigned](buf *bytes.Buffer, n int, pad byte, left bool) ([]string, error) {
	return readList[L](buf, binary.BigEndian, func() (string, error) { return ReadFixedStringTrimPadding(buf, n, pad, left) })
}
func ReadFixedStringListTrimPaddingLE[L Unsigned](buf *bytes.Buffer, n int, pad byte, left bool) ([]string, error) {
	return readList[L](buf, binary.LittleEndian, func() (string, error) { return ReadFixedStringTrimPadding(buf, n, pad, left) })
}
func ReadFixedStringList[L Unsigned](buf *bytes.Buffer, n int) ([]string, error) {
	return ReadFixedStringListTrimPadding[L](buf, n, ' ', false)
}
func ReadFixedStringListLE[L Unsigned](buf *bytes.Buffer, n int) ([]string, error) {
	return ReadFixedStringListTrimPaddingLE[L](buf, n, ' ', false)
}

func WriteObjectList[L Unsigned, T BinaryCodec](buf *bytes.Buffer, v []T) error {
	return writeList[L](buf, v, binary.BigEndian, func(x T) error { return x.Encode(buf) })
}
func WriteObjectListLE[L Unsigned, T BinaryCodec](buf *bytes.Buffer, v []T) error {
	return writeList[L](buf, v, binary.LittleEndian, func(x T) error { return x.Encode(buf) })
}
func ReadObjectList[L Unsigned, T BinaryCodec](buf *bytes.Buffer, factory func() T) ([]T, error) {
	return readList[L](buf, binary.BigEndian, func() (T, error) { x := factory(); return x, x.Decode(buf) })
}
func ReadObjectListLE[L Unsigned, T BinaryCodec](buf *bytes.Buffer, factory func() T) ([]T, error) {
	return readList[L](buf, binary.LittleEndian, func() (T, error) { x := factory(); return x, x.Decode(buf) })
}
