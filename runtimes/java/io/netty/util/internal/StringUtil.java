package io.netty.util.internal;

public final class StringUtil {
    private StringUtil() {}
    public static boolean isNullOrEmpty(String s) { return s == null || s.isEmpty(); }
}
