package io.netty.buffer;

public final class Unpooled {
    private Unpooled() {}
    public static ByteBuf buffer() { return new ByteBuf(); }
    public static ByteBuf buffer(int n) { return new ByteBuf(); }
    public static ByteBuf wrappedBuffer(byte[] b) { ByteBuf x = new ByteBuf(); x.writeBytes(b); return x; }
}
