package io.netty.buffer;

import java.nio.charset.Charset;

/** Minimal stand-in for netty's ByteBuf honouring the calls the emitted Java makes
 *  (see /verif/runtimes/CONTRACT.md): big-endian writeX/readX/setX, little-endian *LE. */
public class ByteBuf {
    private byte[] data = new byte[64];
    private int w = 0;
    private int r = 0;

    private void ensure(int n) {
        if (w + n > data.length) {
            byte[] nd = new byte[Math.max(data.length * 2, w + n)];
            System.arraycopy(data, 0, nd, 0, w);
            data = nd;
        }
    }

    private void put(long v, int k, boolean le) {
        ensure(k);
        setAt(w, v, k, le);
        w += k;
    }

    private void setAt(int pos, long v, int k, boolean le) {
        for (int i = 0; i < k; i++) {
            int sh = le ? 8 * i : 8 * (k - 1 - i);
            data[pos + i] = (byte) (v >>> sh);
        }
    }

    private long get(int k, boolean le) {
        if (r + k > w) {
            throw new IndexOutOfBoundsException("read past end");
        }
        long v = 0;
        for (int i = 0; i < k; i++) {
            int sh = le ? 8 * i : 8 * (k - 1 - i);
            v |= ((long) (data[r + i] & 0xff)) << sh;
        }
        r += k;
        return v;
    }

    private void checkSet(int pos, int k) {
        if (pos < 0 || pos + k > w) {
            throw new IndexOutOfBoundsException("set at " + pos + " width " + k + " writerIndex " + w);
        }
    }

    public int writerIndex() { return w; }
    public int readerIndex() { return r; }
    public int readableBytes() { return w - r; }

    public ByteBuf writeByte(int v) { put(v, 1, false); return this; }
    public ByteBuf writeShort(int v) { put(v, 2, false); return this; }
    public ByteBuf writeShortLE(int v) { put(v, 2, true); return this; }
    public ByteBuf writeInt(int v) { put(v, 4, false); return this; }
    public ByteBuf writeIntLE(int v) { put(v, 4, true); return this; }
    public ByteBuf writeLong(long v) { put(v, 8, false); return this; }
    public ByteBuf writeLongLE(long v) { put(v, 8, true); return this; }
    public ByteBuf writeFloat(float v) { put(Float.floatToRawIntBits(v), 4, false); return this; }
    public ByteBuf writeFloatLE(float v) { put(Float.floatToRawIntBits(v), 4, true); return this; }
    public ByteBuf writeDouble(double v) { put(Double.doubleToRawLongBits(v), 8, false); return this; }
    public ByteBuf writeDoubleLE(double v) { put(Double.doubleToRawLongBits(v), 8, true); return this; }
    public ByteBuf writeBytes(byte[] b) { ensure(b.length); System.arraycopy(b, 0, data, w, b.length); w += b.length; return this; }

    public ByteBuf setByte(int pos, int v) { checkSet(pos, 1); setAt(pos, v, 1, false); return this; }
    public ByteBuf setShort(int pos, int v) { checkSet(pos, 2); setAt(pos, v, 2, false); return this; }
    public ByteBuf setShortLE(int pos, int v) { checkSet(pos, 2); setAt(pos, v, 2, true); return this; }
    public ByteBuf setInt(int pos, int v) { checkSet(pos, 4); setAt(pos, v, 4, false); return this; }
    public ByteBuf setIntLE(int pos, int v) { checkSet(pos, 4); setAt(pos, v, 4, true); return this; }
    public ByteBuf setLong(int pos, long v) { checkSet(pos, 8); setAt(pos, v, 8, false); return this; }
    public ByteBuf setLongLE(int pos, long v) { checkSet(pos, 8); setAt(pos, v, 8, true); return this; }

    public byte readByte() { return (byte) get(1, false); }
    public short readShort() { return (short) get(2, false); }
    public short readShortLE() { return (short) get(2, true); }
    public int readInt() { return (int) get(4, false); }
    public int readIntLE() { return (int) get(4, true); }
    public long readLong() { return get(8, false); }
    public long readLongLE() { return get(8, true); }
    public float readFloat() { return Float.intBitsToFloat((int) get(4, false)); }
    public float readFloatLE() { return Float.intBitsToFloat((int) get(4, true)); }
    public double readDouble() { return Double.longBitsToDouble(get(8, false)); }
    public double readDoubleLE() { return Double.longBitsToDouble(get(8, true)); }
    public ByteBuf readBytes(byte[] dst) {
        if (r + dst.length > w) { throw new IndexOutOfBoundsException("read past end"); }
        System.arraycopy(data, r, dst, 0, dst.length); r += dst.length; return this;
    }
    public CharSequence readCharSequence(int n, Charset cs) {
        if (n < 0 || r + n > w) { throw new IndexOutOfBoundsException("read past end"); }
        String s = new String(data, r, n, cs); r += n; return s;
    }
    // ---- more of netty's ByteBuf surface, so that a reasonable edit of an emitter still compiles against this stand-in
    public int writeCharSequence(CharSequence s, Charset cs) { byte[] b = s.toString().getBytes(cs); writeBytes(b); return b.length; }
    public ByteBuf writeBytes(byte[] b, int off, int len) { ensure(len); System.arraycopy(b, off, data, w, len); w += len; return this; }
    public ByteBuf writeBytes(ByteBuf src) { byte[] b = new byte[src.readableBytes()]; src.readBytes(b); return writeBytes(b); }
    public ByteBuf writeZero(int n) { for (int i = 0; i < n; i++) writeByte(0); return this; }
    public ByteBuf writeBoolean(boolean v) { return writeByte(v ? 1 : 0); }
    public boolean readBoolean() { return readByte() != 0; }
    public short readUnsignedByte() { return (short) (readByte() & 0xff); }
    public int readUnsignedShort() { return readShort() & 0xffff; }
    public int readUnsignedShortLE() { return readShortLE() & 0xffff; }
    public long readUnsignedInt() { return readInt() & 0xffffffffL; }
    public long readUnsignedIntLE() { return readIntLE() & 0xffffffffL; }
    private long getAt(int pos, int k, boolean le) {
        if (pos < 0 || pos + k > w) { throw new IndexOutOfBoundsException("get at " + pos); }
        long v = 0;
        for (int i = 0; i < k; i++) { int sh = le ? 8 * i : 8 * (k - 1 - i); v |= ((long) (data[pos + i] & 0xff)) << sh; }
        return v;
    }
    public byte getByte(int pos) { return (byte) getAt(pos, 1, false); }
    public short getShort(int pos) { return (short) getAt(pos, 2, false); }
    public short getShortLE(int pos) { return (short) getAt(pos, 2, true); }
    public int getInt(int pos) { return (int) getAt(pos, 4, false); }
    public int getIntLE(int pos) { return (int) getAt(pos, 4, true); }
    public long getLong(int pos) { return getAt(pos, 8, false); }
    public long getLongLE(int pos) { return getAt(pos, 8, true); }
    public ByteBuf skipBytes(int n) { if (r + n > w) { throw new IndexOutOfBoundsException("skip past end"); } r += n; return this; }
    public boolean isReadable() { return w > r; }
    public boolean isReadable(int n) { return w - r >= n; }
    public ByteBuf readerIndex(int i) { if (i < 0 || i > w) { throw new IndexOutOfBoundsException("readerIndex " + i); } r = i; return this; }
    public ByteBuf writerIndex(int i) { if (i < r || i > data.length) { throw new IndexOutOfBoundsException("writerIndex " + i); } w = i; return this; }
    public ByteBuf readBytes(byte[] dst, int off, int len) { byte[] t = new byte[len]; readBytes(t); System.arraycopy(t, 0, dst, off, len); return this; }
    public int capacity() { return data.length; }
    public ByteBuf clear() { r = 0; w = 0; return this; }
    public boolean release() { return true; }

    public byte[] array() { byte[] o = new byte[w]; System.arraycopy(data, 0, o, 0, w); return o; }
}
