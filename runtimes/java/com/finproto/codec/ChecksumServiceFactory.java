package com.finproto.codec;

import io.netty.buffer.ByteBuf;
import java.util.HashMap;
import java.util.Map;

public final class ChecksumServiceFactory {
    private static final ChecksumServiceFactory INSTANCE = new ChecksumServiceFactory();
    private final Map<String, ChecksumService<ByteBuf, Integer>> services = new HashMap<>();
    private ChecksumServiceFactory() {}
    public static ChecksumServiceFactory getInstance() { return INSTANCE; }
    public void register(String name, ChecksumService<ByteBuf, Integer> s) { services.put(name, s); }
    public void unregister(String name) { services.remove(name); }
    public ChecksumService<ByteBuf, Integer> getChecksumService(String name) { return services.get(name); }
}
