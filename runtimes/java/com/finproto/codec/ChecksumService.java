package com.finproto.codec;

public interface ChecksumService<B, T> {
    T calc(B buf);
}
