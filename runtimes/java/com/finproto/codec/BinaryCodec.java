package com.finproto.codec;

import io.netty.buffer.ByteBuf;
import java.nio.charset.StandardCharsets;

public interface BinaryCodec {
    void encode(ByteBuf byteBuf);
    void decode(ByteBuf byteBuf);

    default void writeFixedString(ByteBuf buf, String s, int n) { writeFixedString(buf, s, n, ' ', false); }

    default void writeFixedString(ByteBuf buf, String s, int n, char pad, boolean left) {
        byte[] b = s == null ? new byte[0] : s.getBytes(StandardCharsets.UTF_8);
        if (b.length > n) { throw new IllegalArgumentException("string longer than fixed size"); }
        if (left) { for (int i = b.length; i < n; i++) { buf.writeByte(pad); } }
        buf.writeBytes(b);
        if (!left) { for (int i = b.length; i < n; i++) { buf.writeByte(pad); } }
    }

    default String readFixedString(ByteBuf buf, int n) { return readFixedString(buf, n, ' ', false); }

    default String readFixedString(ByteBuf buf, int n, char pad, boolean left) {
        byte[] b = new byte[n];
        buf.readBytes(b);
        int i = 0, j = n;
        if (left) { while (i < j && b[i] == (byte) pad) { i++; } } else { while (j > i && b[j - 1] == (byte) pad) { j--; } }
        return new String(b, i, j - i, StandardCharsets.UTF_8);
    }
}
