"""Reference implementation of the ByteBuf the emitted Python is run against (runtimes/CONTRACT.md)."""
import struct

_FMT = {'u8': 'B', 'i8': 'b', 'u16': 'H', 'i16': 'h', 'u32': 'I', 'i32': 'i', 'u64': 'Q', 'i64': 'q', 'f32': 'f', 'f64': 'd'}


class ByteBuf:
    def __init__(self, data=b''):
        self.data = bytearray(data)
        self.read_index = 0

    @property
    def write_index(self):
        return len(self.data)

    def readable(self):
        return len(self.data) - self.read_index

    def write_bytes(self, b):
        self.data += b

    def read_bytes(self, n):
        if self.read_index + n > len(self.data):
            raise IndexError('read past end of buffer')
        b = bytes(self.data[self.read_index:self.read_index + n])
        self.read_index += n
        return b


def _mk(t, fmt):
    size = struct.calcsize('<' + fmt)

    def w_be(self, v):
        self.data += struct.pack('>' + fmt, v)

    def w_le(self, v):
        self.data += struct.pack('<' + fmt, v)

    def w_be_at(self, pos, v):
        if pos + size > len(self.data):
            raise IndexError('write_at past end of buffer')
        self.data[pos:pos + size] = struct.pack('>' + fmt, v)

    def w_le_at(self, pos, v):
        if pos + size > len(self.data):
            raise IndexError('write_at past end of buffer')
        self.data[pos:pos + size] = struct.pack('<' + fmt, v)

    def r_be(self):
        return struct.unpack('>' + fmt, self.read_bytes(size))[0]

    def r_le(self):
        return struct.unpack('<' + fmt, self.read_bytes(size))[0]
    setattr(ByteBuf, 'write_' + t, w_be)
    setattr(ByteBuf, 'write_%s_le' % t, w_le)
    setattr(ByteBuf, 'write_%s_at' % t, w_be_at)
    setattr(ByteBuf, 'write_%s_le_at' % t, w_le_at)
    setattr(ByteBuf, 'read_' + t, r_be)
    setattr(ByteBuf, 'read_%s_le' % t, r_le)


for _t, _f in _FMT.items():
    _mk(_t, _f)
