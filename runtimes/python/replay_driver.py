"""native replay for the Python target: runs the REAL emitted module with the reference runtime.
usage: replay_driver.py <emitted module.py> <request.json>   request = {"op":"encode","class":C,"msg":{...},"checksum":{name:hex|None}} |
                                                                        {"op":"decode","class":C,"data":hex}
message values: ints, {"bytes":hex} for strings, lists, {"__packet":Name, field:...} for objects (fields in declaration order)."""
import sys, os, json, ast, importlib.util
sys.path.insert(0, os.path.dirname(os.path.abspath(__file__)))
import checksum
from bytebuf import ByteBuf


def members(src, cname):
    for n in ast.parse(src).body:
        if isinstance(n, ast.ClassDef) and n.name == cname:
            for m in n.body:
                if isinstance(m, ast.FunctionDef) and m.name == '__init__':
                    return [s.targets[0].attr for s in m.body if isinstance(s, ast.Assign) and isinstance(s.targets[0], ast.Attribute)]
    return []


def norm(s):
    return ''.join(c for c in s.lower() if c.isalnum())


def find_class(mod, name):
    for k, v in vars(mod).items():
        if isinstance(v, type) and norm(k) == norm(name):
            return k, v
    raise KeyError(name)


def build(mod, src, cname, msg):
    k, cls = find_class(mod, cname)
    o = cls()
    mem = members(src, k)
    vals = [v for kk, v in msg.items() if kk != '__packet']
    for m, v in zip(mem, vals):
        setattr(o, m, conv(mod, src, v))
    return o


def conv(mod, src, v):
    if isinstance(v, dict):
        if 'bytes' in v and len(v) == 1:
            return bytes.fromhex(v['bytes']).decode('utf-8', 'surrogateescape')
        if 'float' in v:
            import struct
            return struct.unpack('>d' if v['w'] == 64 else '>f', int(v['float']).to_bytes(v['w'] // 8, 'big'))[0]
        return build(mod, src, v['__packet'], v)
    if isinstance(v, list):
        return [conv(mod, src, x) for x in v]
    return v


def dump(o):
    if isinstance(o, (int, float)) or o is None:
        return o
    if isinstance(o, str):
        return {'bytes': o.encode('utf-8', 'surrogateescape').hex()}
    if isinstance(o, list):
        return [dump(x) for x in o]
    d = {'__class': type(o).__name__}
    for k, v in vars(o).items():
        d[k] = dump(v)
    return d


def main():
    path, req = sys.argv[1], json.load(open(sys.argv[2]))
    src = open(path).read()
    spec = importlib.util.spec_from_file_location('emitted', path)
    mod = importlib.util.module_from_spec(spec)
    out = {}
    try:
        spec.loader.exec_module(mod)
        for name, val in (req.get('checksum') or {}).items():
            if val is not None:
                class Svc:
                    def __init__(self, v):
                        self.v = v

                    def calc(self, buf):
                        return self.v
                checksum.register_checksum_service(name, Svc(val))
        if req['op'] == 'encode':
            o = build(mod, src, req['class'], req['msg'])
            buf = ByteBuf()
            o.encode(buf)
            out['hex'] = bytes(buf.data).hex()
        elif req['op'] == 'roundtrip':
            k, cls = find_class(mod, req['class'])
            o = cls()
            data = bytes.fromhex(req['data'])
            buf = ByteBuf(data)
            o.decode(buf)
            out['rest'] = len(data) - buf.read_index
            w = ByteBuf()
            o.encode(w)
            out['hex'] = bytes(w.data).hex()
        else:
            k, cls = find_class(mod, req['class'])
            o = cls()
            buf = ByteBuf(bytes.fromhex(req['data']))
            o.decode(buf)
            out['read'] = buf.read_index
            out['value'] = dump(o)
    except BaseException as e:
        out['exception'] = '%s: %s' % (type(e).__name__, e)
    print(json.dumps(out))


if __name__ == '__main__':
    main()
