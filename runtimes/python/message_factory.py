"""MessageFactory for the emitted Python: register(key, cls), create(key) raises on an unknown key"""
from typing import Generic, TypeVar

K = TypeVar('K')
V = TypeVar('V')


class MessageFactory(Generic[K, V]):
    def __init__(self):
        self._table = {}

    def register(self, key, cls):
        self._table.setdefault(key, cls)

    def create(self, key):
        if key not in self._table:
            raise KeyError('unknown message key %r' % (key,))
        return self._table[key]()
