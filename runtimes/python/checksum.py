"""checksum service registry for the emitted Python"""
_services = {}


def register_checksum_service(name, service):
    _services[name] = service


def unregister_checksum_service(name):
    _services.pop(name, None)


def create_checksum_service(name):
    return _services.get(name)
