"""Reference implementation of the codec helpers the emitted Python imports with `from codec import *`."""
from bytebuf import ByteBuf


class BinaryCodec:
    def encode(self, buffer):
        raise NotImplementedError

    def decode(self, buffer):
        raise NotImplementedError


def _put_len(buffer, n, t, le):
    getattr(buffer, 'write_%s%s' % (t, '_le' if le else ''))(n)


def read_len(buffer, t):
    return getattr(buffer, 'read_' + t)()


def read_len_le(buffer, t):
    return getattr(buffer, 'read_%s_le' % t)()


def write_string(buffer, s, t, encoding='utf-8'):
    b = s.encode(encoding) if isinstance(s, str) else bytes(s)
    _put_len(buffer, len(b), t, False)
    buffer.write_bytes(b)


def write_string_le(buffer, s, t, encoding='utf-8'):
    b = s.encode(encoding) if isinstance(s, str) else bytes(s)
    _put_len(buffer, len(b), t, True)
    buffer.write_bytes(b)


def read_string(buffer, t, encoding='utf-8'):
    return buffer.read_bytes(read_len(buffer, t)).decode(encoding, 'surrogateescape')


def read_string_le(buffer, t, encoding='utf-8'):
    return buffer.read_bytes(read_len_le(buffer, t)).decode(encoding, 'surrogateescape')


def write_fixed_string(buffer, s, n, encoding='utf-8', pad=' ', left=False):
    b = s.encode(encoding, 'surrogateescape') if isinstance(s, str) else bytes(s)
    if len(b) > n:
        raise ValueError('string longer than fixed size')
    p = pad.encode('latin-1') * (n - len(b))
    buffer.write_bytes(p + b if left else b + p)


def read_fixed_string(buffer, n, encoding='utf-8', pad=' ', left=False):
    b = buffer.read_bytes(n)
    p = pad.encode('latin-1')
    b = b.lstrip(p) if left else b.rstrip(p)
    return b.decode(encoding, 'surrogateescape')
